/* evalbatch -- embedding driver used by most checks instead of main.c.
 *
 *   evalbatch [-h size[/max]] [-Q | -x mod.name] [-p] [-P prelude.scm]... [--server | file.scm...]
 *
 * One context; the requested language is loaded as main.c would; every top-level form of every
 * file is read and evaluated through the embedding API.  An exception *returned to the embedding
 * caller* is reported as a line ";;EXC <form#> <kind> <message>" and evaluation carries on with the
 * next form in the same context (main.c would exit).  With -p each value is printed as
 * ";;VAL <form#> <datum>".
 *
 * Environment: VERIF_POISON=1 VERIF_GC=every|at:K|nth:N VERIF_BUDGET=<instructions per form>
 *              VERIF_HEAPCHECK=1  VERIF_VCLOCK=1
 * The collection schedule is armed after the language and preludes are loaded.
 *
 * --server: after loading language and preludes, read commands from stdin:
 *     RUN <outfile> <gcspec> <budget> <sched|-> <file>
 *   fork; the child redirects fd 1 and 2 to <outfile>, evaluates <file> and _exits; the parent
 *   answers "DONE <wait status>" on its stdout.
 */
#include "verifhooks.h"
#include "thrsched.h"
#include <sys/wait.h>
#include <sys/time.h>
#include <fcntl.h>
#include <errno.h>

static int print_values = 0;
static sexp g_ctx, g_env;

static sexp_uint_t multiplier(char c) {
  switch (c) {
  case 'k': case 'K': return 1024;
  case 'm': case 'M': return 1024 * 1024;
  case 'g': case 'G': return 1024 * 1024 * 1024;
  }
  return 1;
}

static void die(const char *msg, sexp ctx, sexp x) {
  fflush(stdout);
  fprintf(stderr, "evalbatch: %s\n", msg);
  if (ctx && x && sexp_exceptionp(x)) {
    sexp err = sexp_make_output_port(ctx, stderr, SEXP_FALSE);
    sexp_print_exception(ctx, x, err);
    sexp_flush(ctx, err);
  }
  _exit(3);
}

/* (%verif op [arg]) */
static void vh_who_refers(sexp ctx, sexp target, int depth) {
  sexp_heap h2; sexp p2, end2; sexp_free_list q2, r2;
  if (depth > 4) return;
  for (h2 = sexp_context_heap(ctx); h2; h2 = h2->next) {
    p2 = sexp_heap_first_block(h2); end2 = sexp_heap_end(h2); q2 = h2->free_list;
    while (p2 < end2) {
      sexp t2; sexp *sl; size_t n2, k2;
      for (r2 = q2->next; r2 && ((char *)r2 < (char *)p2); q2 = r2, r2 = r2->next) ;
      if ((char *)r2 == (char *)p2) { p2 = (sexp)(((char *)p2) + r2->size); continue; }
      t2 = sexp_object_type(ctx, p2);
      sl = (sexp *)(((char *)p2) + sexp_type_field_base(t2));
      n2 = sexp_type_num_slots_of_object(t2, p2);
      if (sexp_pointer_tag(p2) == SEXP_STACK) n2 = sexp_stack_top(p2);
      for (k2 = 0; k2 < n2; k2++) if (sl[k2] == target) {
        printf(";;WHO%*s %p <- %p tag=%u slot=%lu nslots=%lu", depth * 2, "", (void *)target, (void *)p2, (unsigned)sexp_pointer_tag(p2), (unsigned long)k2, (unsigned long)n2);
        if (sexp_procedurep(p2) && sexp_bytecodep(sexp_procedure_code(p2))) { printf(" proc-name="); sexp_write(ctx, sexp_bytecode_name(sexp_procedure_code(p2)), sexp_current_output_port(ctx)); }
        printf("\n");
        if (sexp_pointer_tag(p2) != SEXP_STACK && sexp_pointer_tag(p2) != SEXP_CONTEXT) vh_who_refers(ctx, p2, depth + 1);
      }
      p2 = (sexp)(((char *)p2) + sexp_heap_align(sexp_allocated_bytes(ctx, p2)));
    }
  }
}

static sexp verif_ctl(sexp ctx, sexp self, sexp_sint_t n, sexp op, sexp arg) {
  struct vh_heap_stats st;
  sexp_heap h;
  const char *s;
  size_t total = 0;
  if (!sexp_symbolp(op)) return SEXP_FALSE;
  op = sexp_symbol_to_string(ctx, op);
  s = sexp_string_data(op);
  if (!strcmp(s, "arm-gc")) { vh_alloc_count = 0; vh_gc_armed = 1; return SEXP_TRUE; }
  if (!strcmp(s, "disarm-gc")) { vh_gc_armed = 0; return SEXP_TRUE; }
  if (!strcmp(s, "alloc-count")) return sexp_make_fixnum(vh_total_allocs);
  if (!strcmp(s, "stack-top")) return sexp_make_fixnum(sexp_context_top(ctx));
  if (!strcmp(s, "stack-size")) return sexp_make_fixnum(sexp_stack_length(sexp_context_stack(ctx)));
  if (!strcmp(s, "gc-count")) return sexp_make_fixnum(sexp_context_gc_count(ctx));
  if (!strcmp(s, "heap-total")) {
    for (h = sexp_context_heap(ctx); h; h = h->next) total += h->size;
    return sexp_make_fixnum(total);
  }
  if (!strcmp(s, "heap-check")) {
    if (!vh_check_heap(ctx, 0, &st)) return sexp_c_string(ctx, vh_heapcheck_msg, -1);
    return SEXP_TRUE;
  }
  if (!strcmp(s, "heap-live")) {
    if (!vh_check_heap(ctx, 0, &st)) return SEXP_FALSE;
    return sexp_make_fixnum(st.live_bytes);
  }
  if (!strcmp(s, "set-budget")) {
    if (sexp_fixnump(arg)) {
      vh_budget = sexp_unbox_fixnum(arg); vh_instrs = 0;
      if (vh_budget) vh_last_budget_kind = 0;
      if (vh_time_budget_ns) {
        struct timespec ts;
        clock_gettime(CLOCK_PROCESS_CPUTIME_ID, &ts);   /* CPU time: independent of machine load */
        vh_time_deadline_ns = (long long)ts.tv_sec * 1000000000LL + ts.tv_nsec + vh_time_budget_ns;
      }
    }
    return SEXP_TRUE;
  }
  if (!strcmp(s, "instrs")) return sexp_make_fixnum(vh_instrs);
  if (!strcmp(s, "budget-kind")) return sexp_make_fixnum(vh_last_budget_kind);
  if (!strcmp(s, "gc")) { sexp_gc(ctx, NULL); return SEXP_TRUE; }
  if (!strcmp(s, "who-refers")) {
    /* debugging aid: objects with a slot equal to the address given as a fixnum */
    sexp target = (sexp)(sexp_uint_t)sexp_unbox_fixnum(arg);
    sexp_heap h2; sexp p2, end2; sexp_free_list q2, r2;
    for (h2 = sexp_context_heap(ctx); h2; h2 = h2->next) {
      p2 = sexp_heap_first_block(h2); end2 = sexp_heap_end(h2); q2 = h2->free_list;
      while (p2 < end2) {
        sexp t2; sexp *sl; size_t n2, k2;
        for (r2 = q2->next; r2 && ((char *)r2 < (char *)p2); q2 = r2, r2 = r2->next) ;
        if ((char *)r2 == (char *)p2) { p2 = (sexp)(((char *)p2) + r2->size); continue; }
        t2 = sexp_object_type(ctx, p2);
        sl = (sexp *)(((char *)p2) + sexp_type_field_base(t2));
        n2 = sexp_type_num_slots_of_object(t2, p2);
        if (sexp_pointer_tag(p2) == SEXP_STACK) n2 = sexp_stack_top(p2);
        for (k2 = 0; k2 < n2; k2++) if (sl[k2] == target) {
          printf(";;WHO %p <- %p tag=%u slot=%lu nslots=%lu", (void *)target, (void *)p2, (unsigned)sexp_pointer_tag(p2), (unsigned long)k2, (unsigned long)n2);
          if (sexp_procedurep(p2)) { printf(" proc-name="); sexp_write(ctx, sexp_bytecode_name(sexp_procedure_code(p2)), sexp_current_output_port(ctx)); }
          printf("\n");
        }
        p2 = (sexp)(((char *)p2) + sexp_heap_align(sexp_allocated_bytes(ctx, p2)));
      }
    }
    fflush(stdout);
    return SEXP_TRUE;
  }
  if (!strcmp(s, "dump-files")) {
    /* debugging aid: every descriptor object and open port in the heap */
    sexp_heap h; sexp p, end; sexp_free_list q, r;
    for (h = sexp_context_heap(ctx); h; h = h->next) {
      p = sexp_heap_first_block(h); end = sexp_heap_end(h); q = h->free_list;
      while (p < end) {
        for (r = q->next; r && ((char *)r < (char *)p); q = r, r = r->next) ;
        if ((char *)r == (char *)p) { p = (sexp)(((char *)p) + r->size); continue; }
        if (sexp_filenop(p)) {
          sexp_heap h2; sexp p2, end2; sexp_free_list q2, r2;
          printf(";;FILENO %p fd=%d open=%d count=%d noclose=%d\n", (void *)p, (int)sexp_fileno_fd(p), (int)sexp_fileno_openp(p), (int)sexp_fileno_count(p), (int)sexp_fileno_no_closep(p));
          vh_who_refers(ctx, p, 0);
          for (h2 = sexp_context_heap(ctx); h2; h2 = h2->next) {      /* who refers to it? */
            p2 = sexp_heap_first_block(h2); end2 = sexp_heap_end(h2); q2 = h2->free_list;
            while (p2 < end2) {
              sexp t2; sexp *sl; size_t n2, k2;
              for (r2 = q2->next; r2 && ((char *)r2 < (char *)p2); q2 = r2, r2 = r2->next) ;
              if ((char *)r2 == (char *)p2) { p2 = (sexp)(((char *)p2) + r2->size); continue; }
              t2 = sexp_object_type(ctx, p2);
              sl = (sexp *)(((char *)p2) + sexp_type_field_base(t2));
              n2 = sexp_type_num_slots_of_object(t2, p2);
              if (sexp_pointer_tag(p2) == SEXP_STACK) n2 = sexp_stack_top(p2);
              for (k2 = 0; k2 < n2; k2++) if (sl[k2] == p) {
                printf(";;  REFERRED-BY %p tag=%u slot=%lu nslots=%lu addr=%lu\n", (void *)p2, (unsigned)sexp_pointer_tag(p2), (unsigned long)k2, (unsigned long)n2, (unsigned long)p2);
                if (sexp_vectorp(p2)) { size_t z; for (z = 0; z < n2 && z < 12; z++) { printf(";;    [%lu] ", (unsigned long)z); sexp_write(ctx, sexp_pointerp(sl[z]) && !sexp_stringp(sl[z]) && !sexp_symbolp(sl[z]) && !sexp_pairp(sl[z]) ? sexp_make_fixnum(sexp_pointer_tag(sl[z])) : sl[z], sexp_current_output_port(ctx)); printf("\n"); } }
              }
              if (sexp_type_num_weak_slots_of_object(t2, p2) > 0) {
                sexp *wv = (sexp *)(((char *)p2) + sexp_type_weak_base(t2));
                if (wv[0] == p) printf(";;  WEAKLY-BY %p tag=%u\n", (void *)p2, (unsigned)sexp_pointer_tag(p2));
              }
              p2 = (sexp)(((char *)p2) + sexp_heap_align(sexp_allocated_bytes(ctx, p2)));
            }
          }
        }
        else if (sexp_portp(p) && sexp_port_openp(p) && (sexp_port_stream(p) || sexp_filenop(sexp_port_fd(p))))
          printf(";;PORT %p stream=%p fdobj=%p\n", (void *)p, (void *)sexp_port_stream(p), (void *)sexp_port_fd(p));
        p = (sexp)(((char *)p) + sexp_heap_align(sexp_allocated_bytes(ctx, p)));
      }
    }
    fflush(stdout);
    return SEXP_TRUE;
  }
  if (!strcmp(s, "vclock")) return sexp_make_fixnum(ts_vclock_usec / 1000);
  return SEXP_FALSE;
}

static sexp sexp_meta_env (sexp ctx) {
  if (sexp_envp(sexp_global(ctx, SEXP_G_META_ENV)))
    return sexp_global(ctx, SEXP_G_META_ENV);
  return sexp_context_env(ctx);
}

static sexp sexp_param_ref (sexp ctx, sexp env, sexp name) {
  sexp res = sexp_env_ref(ctx, env, name, SEXP_FALSE);
  return sexp_opcodep(res) ? sexp_parameter_ref(ctx, res) : NULL;
}

static sexp add_import_binding(sexp ctx, sexp env) {
  sexp_gc_var2(sym, tmp);
  sexp_gc_preserve2(ctx, sym, tmp);
  sym = sexp_intern(ctx, "repl-import", -1);
  tmp = sexp_env_ref(ctx, sexp_meta_env(ctx), sym, SEXP_VOID);
  sym = sexp_intern(ctx, "import", -1);
  sexp_env_define(ctx, env, sym, tmp);
  sexp_gc_release2(ctx);
  return env;
}

static void report_exception(sexp ctx, const char *tag, long n, sexp exn) {
  sexp out = sexp_current_output_port(ctx);
  sexp kind, msg;
  if (sexp_oportp(out)) sexp_flush(ctx, out);
  kind = sexp_exception_kind(exn);
  msg = sexp_exception_message(exn);
  printf("\n;;%s %ld ", tag, n);
  if (sexp_symbolp(kind)) {
    sexp ks = sexp_symbol_to_string(ctx, kind);
    if (sexp_stringp(ks)) fwrite(sexp_string_data(ks), 1, sexp_string_size(ks), stdout);
  } else if (kind == SEXP_FALSE) printf("#f"); else printf("?");
  printf(" ");
  if (sexp_stringp(msg)) fwrite(sexp_string_data(msg), 1, sexp_string_size(msg), stdout);
  else printf("?");
  printf("\n");
  fflush(stdout);
}

static long g_form = 0;

static int eval_file(sexp ctx, sexp env, const char *path) {
  sexp_gc_var4(in, obj, res, str);
  sexp out;
  int ok = 1;
  sexp_gc_preserve4(ctx, in, obj, res, str);
  str = sexp_c_string(ctx, path, -1);
  in = sexp_open_input_file(ctx, str);
  if (!sexp_iportp(in)) die("cannot open case file", ctx, in);
  sexp_port_sourcep(in) = 1;
  for (;;) {
    obj = sexp_read(ctx, in);
    if (obj == SEXP_EOF) break;
    if (sexp_exceptionp(obj)) { report_exception(ctx, "READ-EXC", g_form, obj); ok = 0; break; }
    vh_instrs = 0;
    sexp_context_top(ctx) = 0;
    res = sexp_eval(ctx, obj, env);
    if (sexp_exceptionp(res)) {
      report_exception(ctx, "EXC", g_form, res);
    } else if (print_values && res != SEXP_VOID) {
      out = sexp_current_output_port(ctx);
      if (sexp_oportp(out)) {
        sexp_flush(ctx, out);
        printf("\n;;VAL %ld ", g_form); fflush(stdout);
        sexp_write(ctx, res, out);
        sexp_flush(ctx, out);
        printf("\n");
      }
    }
    g_form++;
    /* keep the output complete up to the last finished form even if a later one kills the process */
    out = sexp_current_output_port(ctx);
    if (sexp_oportp(out)) sexp_flush(ctx, out);
    fflush(stdout);
  }
  sexp_close_port(ctx, in);
  out = sexp_current_output_port(ctx);
  if (sexp_oportp(out)) sexp_flush(ctx, out);
  fflush(stdout);
  sexp_gc_release4(ctx);
  return ok;
}

static void print_stats(sexp ctx) {
  printf("\n;;STATS allocs=%ld armed_allocs=%ld forced_gcs=%ld gc_count=%ld budget_hits=%ld heapchecks=%ld heapcheck_fail=%ld%s%s\n",
         vh_total_allocs, vh_alloc_count, vh_forced_gcs, (long)sexp_context_gc_count(ctx), vh_budget_hits,
         vh_heapcheck_runs, vh_heapcheck_fail, vh_heapcheck_fail ? " msg=" : "", vh_heapcheck_fail ? vh_heapcheck_msg : "");
  ts_print_stats();
  fflush(stdout);
}

int main(int argc, char **argv) {
  sexp ctx, env, e;
  sexp_uint_t heap_size = 0, heap_max = SEXP_MAXIMUM_HEAP_SIZE;
  const char *lang = NULL, *preludes[16];
  int quick = 0, server = 0, npre = 0, i, j;
  char *arg, buf[4096];
  sexp_gc_var3(tmp, sym, args);

  if (getenv("VERIF_POISON")) vh_poison = atoi(getenv("VERIF_POISON"));
  if (getenv("VERIF_HEAPCHECK")) vh_heapcheck = atoi(getenv("VERIF_HEAPCHECK"));
  if (getenv("VERIF_BUDGET")) vh_budget = atol(getenv("VERIF_BUDGET"));
  if (!vh_parse_gc(getenv("VERIF_GC"))) die("bad VERIF_GC", NULL, NULL);
  if (getenv("VERIF_VCLOCK")) ts_vclock_on = atoi(getenv("VERIF_VCLOCK"));
  if (getenv("VERIF_TIME_BUDGET_MS")) vh_time_budget_ns = atoll(getenv("VERIF_TIME_BUDGET_MS")) * 1000000LL;
  vh_install_gc_hooks();
  sexp_verif.on_instr = ts_on_instr;

  for (i = 1; i < argc && argv[i][0] == '-'; i++) {
    if (!strcmp(argv[i], "--server")) { server = 1; continue; }
    switch (argv[i][1]) {
    case 'h':
      arg = argv[i][2] ? argv[i] + 2 : argv[++i];
      heap_size = strtoul(arg, &arg, 0);
      if (*arg && *arg != '/') heap_size *= multiplier(*arg++);
      if (*arg == '/') {
        heap_max = strtoul(arg + 1, &arg, 0);
        if (*arg) heap_max *= multiplier(*arg++);
      }
      break;
    case 'Q': quick = 1; break;
    case 'x': lang = argv[i][2] ? argv[i] + 2 : argv[++i]; break;
    case 'p': print_values = 1; break;
    case 'P': preludes[npre++] = argv[i][2] ? argv[i] + 2 : argv[++i]; break;
    default: die("unknown option", NULL, NULL);
    }
  }

  sexp_scheme_init();
  ctx = sexp_make_eval_context(NULL, NULL, NULL, heap_size, heap_max);
  if (!ctx) die("out of memory creating context", NULL, NULL);
  sexp_gc_preserve3(ctx, tmp, sym, args);
  env = sexp_context_env(ctx);
  if (quick) {
    sexp_load_standard_ports(ctx, env, stdin, stdout, stderr, 0);
  } else {
    e = sexp_load_standard_env(ctx, env, SEXP_SEVEN);
    if (sexp_exceptionp(e)) die("loading standard env", ctx, e);
    add_import_binding(ctx, e);
    sexp_load_standard_ports(ctx, e, stdin, stdout, stderr, 0);
    env = sexp_make_env(ctx);
    sexp_env_parent(env) = e;
    sexp_context_env(ctx) = env;
    sexp_set_parameter(ctx, sexp_meta_env(ctx), sexp_global(ctx, SEXP_G_INTERACTION_ENV_SYMBOL), env);
    if (lang) {
      for (j = 0; lang[j] && j < 1000; j++) ;
      snprintf(buf, sizeof(buf), "(mutable-environment '(%s))", lang);
      for (j = 0; buf[j]; j++) if (buf[j] == '.') buf[j] = ' ';
      tmp = sexp_eval_string(ctx, buf, -1, sexp_global(ctx, SEXP_G_META_ENV));
      if (sexp_exceptionp(tmp) || !sexp_envp(tmp)) die("loading -x language", ctx, tmp);
      sexp_set_parameter(ctx, sexp_global(ctx, SEXP_G_META_ENV), sexp_global(ctx, SEXP_G_INTERACTION_ENV_SYMBOL), tmp);
      sexp_context_env(ctx) = env = tmp;
      add_import_binding(ctx, env);
      tmp = sexp_param_ref(ctx, env, sexp_global(ctx, SEXP_G_CUR_OUT_SYMBOL));
      if (tmp != NULL && !sexp_oportp(tmp))
        sexp_load_standard_ports(ctx, env, stdin, stdout, stderr, 0);
    } else {
      /* script mode: only `import' and `cond-expand' are bound */
      env = sexp_make_env(ctx);
      sexp_set_parameter(ctx, sexp_meta_env(ctx), sexp_global(ctx, SEXP_G_INTERACTION_ENV_SYMBOL), env);
      sexp_context_env(ctx) = env;
      add_import_binding(ctx, env);
      sym = sexp_intern(ctx, "cond-expand", -1);
      tmp = sexp_env_cell(ctx, sexp_meta_env(ctx), sym, 0);
#if SEXP_USE_RENAME_BINDINGS
      sexp_env_rename(ctx, env, sym, tmp);
#endif
      sexp_env_define(ctx, env, sym, sexp_cdr(tmp));
    }
    args = sexp_cons(ctx, tmp = sexp_c_string(ctx, "evalbatch", -1), SEXP_NULL);
    sexp_set_parameter(ctx, sexp_meta_env(ctx), sym = sexp_intern(ctx, "command-line", -1), args);
  }
  sexp_define_foreign_opt(ctx, env, "%verif", 2, verif_ctl, SEXP_FALSE);
  g_ctx = ctx; g_env = env;
  sexp_context_tracep(ctx) = 1;

  for (j = 0; j < npre; j++) eval_file(ctx, env, preludes[j]);

  if (!server) {
    vh_alloc_count = 0;
    vh_gc_armed = (vh_gc_mode != VH_GC_NONE);
    ts_arm();
    for (; i < argc; i++) eval_file(ctx, env, argv[i]);
    vh_gc_armed = 0;
    print_stats(ctx);
    fflush(stdout);
    _exit(0);
  }

  printf("READY\n"); fflush(stdout);
  while (fgets(buf, sizeof(buf), stdin)) {
    char outfile[1024], gcspec[64], sched[2048], file[1024];
    long budget;
    pid_t pid;
    int status;
    if (!strncmp(buf, "QUIT", 4)) break;
    if (sscanf(buf, "RUN %1023s %63s %ld %2047s %1023s", outfile, gcspec, &budget, sched, file) != 5) {
      printf("BAD\n"); fflush(stdout); continue;
    }
    fflush(stdout);
    pid = fork();
    if (pid == 0) {
      int fd = open(outfile, O_WRONLY | O_CREAT | O_TRUNC, 0644);
      if (fd < 0) _exit(4);
      dup2(fd, 1); dup2(fd, 2); close(fd);
      close(0); open("/dev/null", O_RDONLY);
      if (!vh_parse_gc(gcspec)) _exit(5);
      /* watchdog: a child that makes no progress (e.g. a scheduler livelock) dies by SIGALRM */
      alarm(getenv("VERIF_ALARM") ? atoi(getenv("VERIF_ALARM")) : 600);
      vh_budget = budget;
      if (strcmp(sched, "-")) ts_parse_schedule(sched);
      vh_alloc_count = 0;
      vh_gc_armed = (vh_gc_mode != VH_GC_NONE);
      ts_arm();
      eval_file(ctx, env, file);
      vh_gc_armed = 0;
      print_stats(ctx);
      fflush(stdout);
      _exit(0);
    }
    if (pid < 0) { printf("FORKFAIL %d\n", errno); fflush(stdout); continue; }
    while (waitpid(pid, &status, 0) < 0 && errno == EINTR) ;
    printf("DONE %d\n", status); fflush(stdout);
  }
  return 0;
}
