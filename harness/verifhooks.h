/* verifhooks.h -- policy side of the CHIBI_VERIF call-outs; included by every harness.
 *
 * - poisoning (ASan builds): the body of every free chunk beyond its 16-byte list node and the
 *   slack between the requested size and the 32-byte aligned size of every object are poisoned,
 *   so overruns inside the Scheme heap and uses of swept objects become ASan reports.
 * - collection schedule: none | every | at:K | nth:N (counted from the moment the harness arms it).
 * - heap checker: run after every collection when enabled (C10 invariants).
 * - instruction budget / time-slice control through on_instr.
 */
#ifndef VERIFHOOKS_H
#define VERIFHOOKS_H

#include <chibi/eval.h>
#include <stdio.h>
#include <stdlib.h>
#include <string.h>
#include <unistd.h>

#if defined(__has_feature)
#if __has_feature(address_sanitizer)
#define VH_ASAN 1
#endif
#endif
#ifdef __SANITIZE_ADDRESS__
#define VH_ASAN 1
#endif
#ifdef VH_ASAN
#include <sanitizer/asan_interface.h>
#define VH_POISON(p, n) __asan_poison_memory_region((p), (n))
#define VH_UNPOISON(p, n) __asan_unpoison_memory_region((p), (n))
#else
#define VH_ASAN 0
#define VH_POISON(p, n) ((void)0)
#define VH_UNPOISON(p, n) ((void)0)
#endif

enum { VH_GC_NONE = 0, VH_GC_EVERY, VH_GC_AT, VH_GC_NTH, VH_GC_WIN };

static int vh_poison = 0;
static int vh_gc_mode = VH_GC_NONE;
static long vh_gc_k = 0, vh_gc_k2 = 0;
static volatile int vh_gc_armed = 0;
static long vh_alloc_count = 0;   /* allocations seen while armed */
static long vh_total_allocs = 0;  /* all allocations */
static long vh_forced_gcs = 0;
static int vh_heapcheck = 0;
static long vh_heapcheck_runs = 0;
static long vh_heapcheck_fail = 0;
static char vh_heapcheck_msg[512];
static int vh_in_gc = 0;
static __thread void *vh_last_carve = NULL;

#define VH_NODE (sizeof(struct sexp_free_list_t))

static void vh_poison_free_chunks(sexp_heap h) {
  sexp_free_list q;
  for (; h; h = h->next)
    for (q = h->free_list->next; q; q = q->next)
      if (q->size > VH_NODE)
        VH_POISON((char *)q + VH_NODE, q->size - VH_NODE);
}

static void vh_on_make_heap(sexp_heap h) {
  if (vh_poison) vh_poison_free_chunks(h);
}

static void vh_on_free_heap(sexp_heap h) {
  /* give the block back to malloc fully addressable; free() poisons it again itself */
  if (vh_poison) VH_UNPOISON((char *)h, sexp_heap_pad_size(h->size));
}

static void vh_before_carve(sexp ctx, void *chunk, size_t chunk_size, size_t size) {
  vh_last_carve = chunk;
  if (!vh_poison) return;
  if (chunk_size >= size + sexp_heap_align(1))
    VH_UNPOISON(chunk, size + VH_NODE);
  else
    VH_UNPOISON(chunk, chunk_size);
}

static void vh_after_alloc(sexp ctx, void *res, size_t requested, size_t aligned) {
  vh_total_allocs++;
  if (res != vh_last_carve) return;     /* out-of-memory object, not a fresh chunk */
  vh_last_carve = NULL;
  if (vh_poison && aligned > requested)
    VH_POISON((char *)res + requested, aligned - requested);
}

static int vh_want_gc(sexp ctx, size_t size) {
  long n;
  if (!vh_gc_armed || vh_in_gc) return 0;
  n = ++vh_alloc_count;
  switch (vh_gc_mode) {
  case VH_GC_EVERY: vh_forced_gcs++; return 1;
  case VH_GC_AT: if (n == vh_gc_k) { vh_forced_gcs++; return 1; } return 0;
  case VH_GC_NTH: if (vh_gc_k > 0 && n % vh_gc_k == 0) { vh_forced_gcs++; return 1; } return 0;
  case VH_GC_WIN: if (n >= vh_gc_k && n < vh_gc_k2) { vh_forced_gcs++; return 1; } return 0;
  }
  return 0;
}

static void vh_before_gc(sexp ctx) { vh_in_gc++; }

/* ---------------------------------------------------------------- heap checker (C10) */

static sexp_heap vh_heap_of(sexp ctx, void *p) {
  sexp_heap h;
  for (h = sexp_context_heap(ctx); h; h = h->next)
    if ((char *)p >= (char *)h->data && (char *)p < (char *)h->data + h->size) return h;
  return NULL;
}

#define VH_FAIL(...) do { if (!vh_heapcheck_fail++) snprintf(vh_heapcheck_msg, sizeof(vh_heapcheck_msg), __VA_ARGS__); return 0; } while (0)

/* The collector and the checker both read the number of traced slots of a type from the type table.  This audit derives the
 * number from the struct layout instead (first and last `sexp` member of the variant, read off include/chibi/sexp.h), so a type
 * descriptor that declares too few or too many traced slots is seen even though checker and collector agree with each other. */
#define VH_SPAN(variant, first, last) ((long)((sexp_offsetof(variant, last) - sexp_offsetof(variant, first)) / sizeof(sexp)) + 1), (long)sexp_offsetof(variant, first)
static const char *vh_audit_type_table(sexp ctx, char *buf, size_t buflen) {
  static const struct { int tag; const char *name; long slots; long base; } want[] = {
    {SEXP_PAIR, "pair", VH_SPAN(pair, car, source)},
    {SEXP_RATIO, "ratio", VH_SPAN(ratio, numerator, denominator)},
    {SEXP_COMPLEX, "complex", VH_SPAN(complex, real, imag)},
    {SEXP_IPORT, "input-port", VH_SPAN(port, name, fd)},
    {SEXP_OPORT, "output-port", VH_SPAN(port, name, fd)},
    {SEXP_EXCEPTION, "exception", VH_SPAN(exception, kind, stack_trace)},
    {SEXP_PROCEDURE, "procedure", VH_SPAN(procedure, bc, vars)},
    {SEXP_MACRO, "macro", VH_SPAN(macro, proc, aux)},
    {SEXP_SYNCLO, "synclo", VH_SPAN(synclo, env, rename)},
#if SEXP_USE_STABLE_ABI || SEXP_USE_RENAME_BINDINGS
    {SEXP_ENV, "env", VH_SPAN(env, parent, renames)},
#else
    {SEXP_ENV, "env", VH_SPAN(env, parent, bindings)},
#endif
    {SEXP_BYTECODE, "bytecode", VH_SPAN(bytecode, name, source)},
    {SEXP_LAMBDA, "lambda", VH_SPAN(lambda, name, source)},
    {SEXP_CND, "cnd", VH_SPAN(cnd, test, source)},
    {SEXP_REF, "ref", VH_SPAN(ref, name, source)},
    {SEXP_SET, "set", VH_SPAN(set, var, source)},
    {SEXP_SET_SYN, "set-syn", VH_SPAN(set_syn, var, source)},
    {SEXP_SEQ, "seq", VH_SPAN(seq, ls, source)},
    {SEXP_LIT, "lit", VH_SPAN(lit, value, source)},
#if SEXP_USE_STABLE_ABI || SEXP_USE_DL
    {SEXP_CONTEXT, "context", VH_SPAN(context, stack, dl)},
#else
    {SEXP_CONTEXT, "context", VH_SPAN(context, stack, result)},
#endif
    {SEXP_PROMISE, "promise", VH_SPAN(promise, value, value)},
  };
  size_t k;
  for (k = 0; k < sizeof(want) / sizeof(want[0]); k++) {
    sexp t = sexp_type_by_index(ctx, want[k].tag);
    if (!t || !sexp_typep(t)) continue;
    if ((long)sexp_type_field_len_base(t) != want[k].slots || (long)sexp_type_field_base(t) != want[k].base) {
      snprintf(buf, buflen, "type descriptor of %s declares %ld traced slots from offset %ld, the struct has %ld from offset %ld",
               want[k].name, (long)sexp_type_field_len_base(t), (long)sexp_type_field_base(t), want[k].slots, want[k].base);
      return buf;
    }
  }
  return NULL;
}

/* returns 1 if the heap is well formed; fills optional statistics */
struct vh_heap_stats { size_t total, free_bytes, live_bytes, live_objects, free_chunks, segments; };

static int vh_check_heap(sexp ctx, int after_sweep, struct vh_heap_stats *st) {
  sexp_heap h;
  sexp p, end, t, *slots, v;
  sexp_free_list q, r;
  sexp_heap vh;
  size_t size, i, nsegs = 0, idx;
  sexp_sint_t len;
  int prev_free;
  unsigned char **starts;
  static int audited = 0;
  if (!audited) {
    char abuf[300];
    audited = 1;
    if (vh_audit_type_table(ctx, abuf, sizeof(abuf))) VH_FAIL("%s", abuf);
  }
  struct vh_heap_stats s;
  memset(&s, 0, sizeof(s));
  for (h = sexp_context_heap(ctx); h; h = h->next) nsegs++;
  starts = (unsigned char **)calloc(nsegs, sizeof(*starts));
  /* pass 1: tiling and free list */
  for (h = sexp_context_heap(ctx), idx = 0; h; h = h->next, idx++) {
    starts[idx] = (unsigned char *)calloc(h->size / 32 + 2, 1);
    s.segments++;
    s.total += h->size;
    if ((char *)h->free_list != h->data) VH_FAIL("free list head is not the segment sentinel");
    if (h->free_list->size != 0) VH_FAIL("sentinel size %lu != 0", (unsigned long)h->free_list->size);
    /* free list strictly address ordered, in range, multiples of 32, non overlapping */
    for (q = h->free_list, r = q->next; r; q = r, r = r->next) {
      if ((char *)r < (char *)sexp_heap_first_block(h) || (char *)r >= (char *)sexp_heap_end(h))
        VH_FAIL("free chunk %p outside its segment", (void *)r);
      if (((sexp_uint_t)r) & 31) VH_FAIL("free chunk %p misaligned", (void *)r);
      if (r->size == 0 || (r->size & 31)) VH_FAIL("free chunk %p has size %lu", (void *)r, (unsigned long)r->size);
      if ((char *)r + r->size > (char *)sexp_heap_end(h)) VH_FAIL("free chunk %p overruns the segment", (void *)r);
      if (q != h->free_list && (char *)q + q->size > (char *)r)
        VH_FAIL("free list not sorted / overlapping at %p", (void *)r);
      if (after_sweep && q != h->free_list && (char *)q + q->size == (char *)r)
        VH_FAIL("adjacent free chunks %p and %p not coalesced after sweep", (void *)q, (void *)r);
    }
    p = sexp_heap_first_block(h);
    end = sexp_heap_end(h);
    q = h->free_list;
    prev_free = 0;
    while (p < end) {
      for (r = q->next; r && ((char *)r < (char *)p); q = r, r = r->next)
        ;
      if ((char *)r == (char *)p) {
        s.free_bytes += r->size;
        s.free_chunks++;
        p = (sexp)(((char *)p) + r->size);
        prev_free = 1;
        continue;
      }
      if (r && (char *)q != (char *)h->free_list && (char *)q + q->size > (char *)p)
        VH_FAIL("object %p lies inside free chunk %p", (void *)p, (void *)q);
      if (sexp_pointer_tag(p) >= (sexp_uint_t)sexp_context_num_types(ctx))
        VH_FAIL("object %p has invalid tag %u", (void *)p, (unsigned)sexp_pointer_tag(p));
      size = sexp_heap_align(sexp_allocated_bytes(ctx, p));
      if (size == 0 || (char *)p + size > (char *)end)
        VH_FAIL("object %p (tag %u) has size %lu overrunning the segment", (void *)p, (unsigned)sexp_pointer_tag(p), (unsigned long)size);
      if (r && (char *)p + size > (char *)r)
        VH_FAIL("object %p (tag %u, %lu bytes) overlaps free chunk %p", (void *)p, (unsigned)sexp_pointer_tag(p), (unsigned long)size, (void *)r);
      if (after_sweep && sexp_markedp(p)) VH_FAIL("object %p still marked after sweep", (void *)p);
      starts[idx][((char *)p - (char *)h->data) / 32] = 1;
      s.live_bytes += size;
      s.live_objects++;
      p = (sexp)(((char *)p) + size);
      prev_free = 0;
    }
    if (p != end) VH_FAIL("chunks do not tile the segment: walk ended at %p, end %p", (void *)p, (void *)end);
  }
  (void)prev_free;
  if (s.free_bytes + s.live_bytes + s.segments * sexp_heap_align(sexp_free_chunk_size) != s.total)
    VH_FAIL("free %lu + live %lu + sentinels != total %lu", (unsigned long)s.free_bytes, (unsigned long)s.live_bytes, (unsigned long)s.total);
  /* pass 2: every slot of every live object designates the start of a live object */
  if (after_sweep) {
    for (h = sexp_context_heap(ctx); h; h = h->next) {
      p = sexp_heap_first_block(h);
      end = sexp_heap_end(h);
      q = h->free_list;
      while (p < end) {
        for (r = q->next; r && ((char *)r < (char *)p); q = r, r = r->next)
          ;
        if ((char *)r == (char *)p) { p = (sexp)(((char *)p) + r->size); continue; }
        size = sexp_heap_align(sexp_allocated_bytes(ctx, p));
        t = sexp_object_type(ctx, p);
        len = sexp_type_num_slots_of_object(t, p);
        slots = (sexp *)(((char *)p) + sexp_type_field_base(t));
        for (i = 0; (sexp_sint_t)i < len; i++) {
          v = slots[i];
          if (!v || !sexp_pointerp(v)) continue;
          vh = vh_heap_of(ctx, v);
          if (!vh) continue;            /* static object outside the heap */
          {
            size_t k = 0; sexp_heap hh;
            for (hh = sexp_context_heap(ctx); hh != vh; hh = hh->next) k++;
            if ((((char *)v - (char *)vh->data) & 31) || !starts[k][((char *)v - (char *)vh->data) / 32])
              VH_FAIL("slot %lu of live object %p (tag %u) holds %p which is not the start of a live object",
                      (unsigned long)i, (void *)p, (unsigned)sexp_pointer_tag(p), (void *)v);
          }
        }
        /* weak slots and the value slot of an ephemeron: whatever survived the collection was not reset, so it must be live
           (an ephemeron whose key is alive keeps its value alive) */
        if (sexp_type_num_weak_slots_of_object(t, p) > 0) {
          sexp *wv = (sexp *)(((char *)p) + sexp_type_weak_base(t));
          size_t wlen = sexp_type_num_weak_slots_of_object(t, p) + sexp_type_weak_len_extra(t);
          for (i = 0; i < wlen; i++) {
            v = wv[i];
            if (!v || !sexp_pointerp(v)) continue;
            vh = vh_heap_of(ctx, v);
            if (!vh) continue;
            {
              size_t k = 0; sexp_heap hh;
              for (hh = sexp_context_heap(ctx); hh != vh; hh = hh->next) k++;
              if ((((char *)v - (char *)vh->data) & 31) || !starts[k][((char *)v - (char *)vh->data) / 32])
                VH_FAIL("weak/ephemeron slot %lu of live object %p (tag %u) holds %p which is not the start of a live object",
                        (unsigned long)i, (void *)p, (unsigned)sexp_pointer_tag(p), (void *)v);
            }
          }
        }
        p = (sexp)(((char *)p) + size);
      }
    }
  }
  for (i = 0; i < nsegs; i++) free(starts[i]);
  free(starts);
  if (st) *st = s;
  return 1;
}

static void vh_after_gc(sexp ctx) {
  if (vh_in_gc > 0) vh_in_gc--;
  if (vh_heapcheck) {
    vh_heapcheck_runs++;
    if (!vh_check_heap(ctx, 1, NULL) && vh_heapcheck > 1) {
      /* triage mode: stop at the first malformed heap */
      fprintf(stderr, "\n;;HEAPCHECK-FAIL %s\n", vh_heapcheck_msg);
      fflush(stderr);
      _exit(11);
    }
  }
  if (vh_poison) vh_poison_free_chunks(sexp_context_heap(ctx));
}

/* ---------------------------------------------------------------- instruction budget */
static long vh_budget = 0;        /* 0 = unlimited */
static long vh_instrs = 0;
static long vh_budget_hits = 0;

static sexp_sint_t vh_on_instr_budget(sexp ctx, unsigned char *ip, sexp_sint_t fuel) {
  if (vh_budget && ++vh_instrs > vh_budget) {
    vh_instrs = 0;
    vh_budget_hits++;
    sexp_context_interruptp(ctx) = 1;
    return 1;
  }
  return fuel;
}

static void vh_install_gc_hooks(void) {
  sexp_verif.want_gc = vh_want_gc;
  sexp_verif.before_carve = vh_before_carve;
  sexp_verif.after_alloc = vh_after_alloc;
  sexp_verif.before_gc = vh_before_gc;
  sexp_verif.after_gc = vh_after_gc;
  sexp_verif.on_make_heap = vh_on_make_heap;
  sexp_verif.on_free_heap = vh_on_free_heap;
}

/* "every" | "at:K" | "nth:N" | "win:A:B" | "none" */
static int vh_parse_gc(const char *s) {
  if (!s || !*s || !strcmp(s, "none")) { vh_gc_mode = VH_GC_NONE; return 1; }
  if (!strcmp(s, "every")) { vh_gc_mode = VH_GC_EVERY; return 1; }
  if (!strncmp(s, "at:", 3)) { vh_gc_mode = VH_GC_AT; vh_gc_k = atol(s + 3); return 1; }
  if (!strncmp(s, "nth:", 4)) { vh_gc_mode = VH_GC_NTH; vh_gc_k = atol(s + 4); return 1; }
  if (!strncmp(s, "win:", 4)) {   /* win:A:B = before every allocation k with A <= k < B */
    const char *c = strchr(s + 4, ':');
    if (!c) return 0;
    vh_gc_mode = VH_GC_WIN; vh_gc_k = atol(s + 4); vh_gc_k2 = atol(c + 1); return 1;
  }
  return 0;
}

#endif
