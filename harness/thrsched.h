/* thrsched.h -- controlled green-thread scheduling and virtual time (C11), plus the
 * instruction budget.  Included by evalbatch.c.
 *
 * A schedule is a comma separated list of deviations  "<i>" | "<i>T" : at the i-th *visible*
 * instruction (counted from arming, over all threads) the running thread's time slice is ended
 * before the instruction executes (a pre-emption); with T the virtual clock is first advanced by
 * one second, so every pending timeout fires.  Everywhere else the slice is unbounded: threads
 * switch only where they block, yield or terminate.  The real scheduler decides who runs next.
 *
 * Visible instructions are those that read or write memory another thread can reach, perform I/O
 * or call foreign code; the rest only touch the thread's own stack and commute with other threads.
 */
#ifndef THRSCHED_H
#define THRSCHED_H
#define _GNU_SOURCE
#include <dlfcn.h>
#include <sys/time.h>
#include <time.h>

static long long vh_time_budget_ns = 0, vh_time_deadline_ns = 0;
static int vh_last_budget_kind = 0;     /* which budget fired last: 0 none, 1 instructions, 2 CPU time */
static int ts_vclock_on = 0;
static long long ts_vclock_usec = 1000000000LL * 1000000LL;
static int ts_sched_on = 0;
static int ts_armed = 0;
#define TS_MAX_DEV 16
static long ts_dev_at[TS_MAX_DEV];
static int ts_dev_timer[TS_MAX_DEV];
static int ts_ndev = 0, ts_next_dev = 0;
static long ts_vis = 0;          /* visible points seen since arming */
static long ts_all_instrs = 0;   /* instructions since arming */
static long ts_horizon = 0;      /* 0 = none */
static long ts_naps_idle = 0;    /* consecutive naps with no instruction in between */
static long ts_last_nap_instr = -1;
static long ts_preempts_done = 0;
static unsigned char *ts_skip_ip = NULL;
static sexp ts_skip_ctx = NULL;
#define TS_MAX_THREADS 32
static sexp ts_threads[TS_MAX_THREADS];
static int ts_nthreads = 0;
static char *ts_trace = NULL;
static long ts_trace_len = 0, ts_trace_cap = 0;
static int ts_trace_on = 0;

static int ts_thread_id(sexp ctx) {
  int i;
  /* a green thread is identified by its stack: eval contexts of one thread share it */
  ctx = sexp_context_stack(ctx);
  for (i = 0; i < ts_nthreads; i++) if (ts_threads[i] == ctx) return i;
  if (ts_nthreads < TS_MAX_THREADS) { ts_threads[ts_nthreads] = ctx; return ts_nthreads++; }
  return TS_MAX_THREADS - 1;
}

static void ts_trace_put(char a, char b) {
  if (ts_trace_len + 2 >= ts_trace_cap) {
    ts_trace_cap = ts_trace_cap ? ts_trace_cap * 2 : 4096;
    ts_trace = (char *)realloc(ts_trace, ts_trace_cap);
  }
  ts_trace[ts_trace_len++] = a;
  ts_trace[ts_trace_len++] = b;
}

static int ts_visible(unsigned char op) {
  switch (op) {
  case SEXP_OP_FCALL0: case SEXP_OP_FCALL1: case SEXP_OP_FCALL2: case SEXP_OP_FCALL3:
  case SEXP_OP_FCALL4: case SEXP_OP_FCALLN:
  case SEXP_OP_GLOBAL_REF: case SEXP_OP_GLOBAL_KNOWN_REF: case SEXP_OP_PARAMETER_REF:
  case SEXP_OP_VECTOR_REF: case SEXP_OP_VECTOR_SET: case SEXP_OP_BYTES_REF: case SEXP_OP_BYTES_SET:
  case SEXP_OP_STRING_REF: case SEXP_OP_STRING_SET: case SEXP_OP_STRING_LENGTH:
  case SEXP_OP_STRING_CURSOR_NEXT: case SEXP_OP_STRING_CURSOR_PREV: case SEXP_OP_STRING_CURSOR_END:
  case SEXP_OP_SLOT_REF: case SEXP_OP_SLOT_SET: case SEXP_OP_SLOTN_REF: case SEXP_OP_SLOTN_SET:
  case SEXP_OP_CAR: case SEXP_OP_CDR: case SEXP_OP_SET_CAR: case SEXP_OP_SET_CDR:
  case SEXP_OP_WRITE_CHAR: case SEXP_OP_WRITE_STRING: case SEXP_OP_READ_CHAR: case SEXP_OP_PEEK_CHAR:
  case SEXP_OP_YIELD: case SEXP_OP_FORCE: case SEXP_OP_RAISE:
    return 1;
  }
  return 0;
}

static void ts_print_stats(void);

static void ts_abort(const char *why, int code) {
  fflush(stdout);
  printf("\n;;%s\n", why);
  ts_print_stats();
  fflush(stdout);
  _exit(code);
}

#define TS_BIG_FUEL (((sexp_sint_t)1) << 40)

static sexp_sint_t ts_on_instr(sexp ctx, unsigned char *ip, sexp_sint_t fuel) {
  int others, timers;
  sexp front, paused;
  /* wall-clock budget per call (checked every 256 instructions): a few instructions on huge operands can be very slow */
  if (vh_budget && vh_time_budget_ns && (vh_instrs & 255) == 255) {
    struct timespec ts;
    clock_gettime(CLOCK_PROCESS_CPUTIME_ID, &ts);   /* CPU time: independent of machine load */
    if ((long long)ts.tv_sec * 1000000000LL + ts.tv_nsec > vh_time_deadline_ns) { vh_instrs = vh_budget; vh_last_budget_kind = 2; }
  }
  /* instruction budget (per top-level form), delivered through the interrupt path */
  if (vh_budget && ++vh_instrs > vh_budget) {
    if (vh_last_budget_kind != 2) vh_last_budget_kind = 1;      /* 1: the instruction count ran out; 2: the CPU-time budget */
    vh_instrs = 0;
    vh_budget_hits++;
    if (vh_time_budget_ns) vh_budget = 0;   /* per-call budgets fire once: the handler runs unbudgeted */
    if (vh_budget_hits > 200000) ts_abort("BUDGET-ABORT", 9);
    sexp_context_interruptp(ctx) = 1;
    return 1;
  }
  if (!ts_armed || !ts_sched_on) return fuel;
  ts_all_instrs++;
  if (ts_horizon && ts_all_instrs > ts_horizon) ts_abort("HORIZON", 8);
  if (ts_skip_ip == ip && ts_skip_ctx == ctx) {   /* resumed at the pre-empted instruction */
    ts_skip_ip = NULL; ts_skip_ctx = NULL;
    return TS_BIG_FUEL;
  }
  if (!ts_visible(*ip)) return TS_BIG_FUEL;
  if (!sexp_applicablep(sexp_global(ctx, SEXP_G_THREADS_SCHEDULER))
      || sexp_truep(sexp_global(ctx, SEXP_G_ATOMIC_P)))
    return TS_BIG_FUEL;
  ts_vis++;
  front = sexp_global(ctx, SEXP_G_THREADS_FRONT);
  paused = sexp_global(ctx, SEXP_G_THREADS_PAUSED);
  others = sexp_pairp(front);
  timers = sexp_pairp(paused);
  if (ts_trace_on) {
    int id = ts_thread_id(ctx);
    ts_trace_put((others ? 'A' : 'a') + (id % 26), timers ? 't' : '.');
  }
  if (ts_next_dev < ts_ndev && ts_dev_at[ts_next_dev] == ts_vis) {
    if (ts_dev_timer[ts_next_dev]) ts_vclock_usec += 1000000;
    ts_next_dev++;
    ts_preempts_done++;
    ts_skip_ip = ip; ts_skip_ctx = ctx;
    return 1;     /* end the slice before this instruction */
  }
  return TS_BIG_FUEL;
}

static void ts_parse_schedule(const char *s) {
  /* "on" = controlled scheduling without deviations; otherwise list of deviations */
  ts_sched_on = 1;
  ts_trace_on = 1;
  ts_ndev = 0; ts_next_dev = 0;
  if (!strcmp(s, "on")) return;
  while (*s && ts_ndev < TS_MAX_DEV) {
    char *end;
    long v = strtol(s, &end, 10);
    if (end == s) break;
    ts_dev_at[ts_ndev] = v;
    ts_dev_timer[ts_ndev] = 0;
    if (*end == 'T') { ts_dev_timer[ts_ndev] = 1; end++; }
    ts_ndev++;
    if (*end == ',') end++;
    s = end;
  }
}

static void ts_arm(void) {
  const char *e;
  if ((e = getenv("VERIF_SCHED")) && !ts_sched_on) ts_parse_schedule(e);
  if ((e = getenv("VERIF_HORIZON"))) ts_horizon = atol(e);
  if (ts_sched_on && !ts_horizon) ts_horizon = 20000000;
  ts_armed = 1;
  ts_vis = 0; ts_all_instrs = 0; ts_nthreads = 0; ts_trace_len = 0;
}

static void ts_print_stats(void) {
  if (!ts_sched_on) return;
  printf(";;SCHED vis=%ld instrs=%ld preempts=%ld threads=%d vclock_ms=%lld\n", ts_vis, ts_all_instrs,
         ts_preempts_done, ts_nthreads, (ts_vclock_usec - 1000000000LL * 1000000LL) / 1000);
  if (ts_trace_on) {
    printf(";;TRACE ");
    if (ts_trace_len) fwrite(ts_trace, 1, ts_trace_len, stdout);
    printf("\n");
  }
}

/* ---------------------------------------------------------------- virtual time (interposed libc) */

int gettimeofday(struct timeval *tv, void *tz) {
  static int (*real)(struct timeval *, void *) = NULL;
  if (ts_vclock_on) {
    ts_vclock_usec += 1;
    if (tv) { tv->tv_sec = ts_vclock_usec / 1000000; tv->tv_usec = ts_vclock_usec % 1000000; }
    return 0;
  }
  if (!real) real = (int (*)(struct timeval *, void *))dlsym(RTLD_NEXT, "gettimeofday");
  return real(tv, tz);
}

int usleep(useconds_t usec) {
  static int (*real)(useconds_t) = NULL;
  if (ts_vclock_on) {
    ts_vclock_usec += usec ? usec : 1;
    if (ts_armed) {
      if (ts_last_nap_instr == ts_all_instrs) ts_naps_idle++; else ts_naps_idle = 0;
      ts_last_nap_instr = ts_all_instrs;
      if (ts_naps_idle > 200000) ts_abort("DEADLOCK", 7);
    }
    return 0;
  }
  if (!real) real = (int (*)(useconds_t))dlsym(RTLD_NEXT, "usleep");
  return real(usec);
}

#endif
