/* cllcheck -- exhaustive differential check of the portable 128-bit helpers of include/chibi/bignum.h
 * (SEXP_USE_CUSTOM_LONG_LONGS=1, struct emulation) against native __int128 (C09).
 *
 * Operands: every 128-bit value whose four 32-bit limbs range over
 * {0,1,2,0x7FFFFFFF,0x80000000,0xFFFFFFFE,0xFFFFFFFF} (2401 values); all ordered pairs for the binary helpers,
 * all shift counts 0..127 for the shifts, the 49 single-word values for the word-sized second operands.
 * Output: "MISMATCH <helper> a=<hex> b=<hex> got=<hex> want=<hex>" lines and a final "STATS evaluations=N mismatches=M".
 */
#include <chibi/eval.h>
#include <chibi/bignum.h>
#include <stdio.h>
#include <stdint.h>

typedef unsigned __int128 u128;
typedef __int128 s128;

static const uint32_t L[7] = {0u, 1u, 2u, 0x7FFFFFFFu, 0x80000000u, 0xFFFFFFFEu, 0xFFFFFFFFu};
static u128 vals[2401];
static uint64_t words[49];
static long evals = 0, mism = 0;

static sexp_luint_t U(u128 v) { sexp_luint_t r; r.hi = (uint64_t)(v >> 64); r.lo = (uint64_t)v; return r; }
static sexp_lsint_t S(u128 v) { sexp_lsint_t r; r.hi = (int64_t)(uint64_t)(v >> 64); r.lo = (uint64_t)v; return r; }
static u128 FU(sexp_luint_t v) { return ((u128)v.hi << 64) | v.lo; }
static u128 FS(sexp_lsint_t v) { return ((u128)(uint64_t)v.hi << 64) | v.lo; }

static void report(const char *h, u128 a, u128 b, u128 got, u128 want) {
  mism++;
  if (mism <= 30)
    printf("MISMATCH %s a=%016llx%016llx b=%016llx%016llx got=%016llx%016llx want=%016llx%016llx\n", h,
           (unsigned long long)(a >> 64), (unsigned long long)a, (unsigned long long)(b >> 64), (unsigned long long)b,
           (unsigned long long)(got >> 64), (unsigned long long)got, (unsigned long long)(want >> 64), (unsigned long long)want);
}
#define CHECK(h, a, b, got, want) do { evals++; if ((u128)(got) != (u128)(want)) report(h, a, b, got, want); } while (0)

int main(void) {
  int i, j, k, l, n = 0, nw = 0, sh;
  for (i = 0; i < 7; i++) for (j = 0; j < 7; j++) for (k = 0; k < 7; k++) for (l = 0; l < 7; l++)
    vals[n++] = ((u128)L[i] << 96) | ((u128)L[j] << 64) | ((u128)L[k] << 32) | L[l];
  for (i = 0; i < 7; i++) for (j = 0; j < 7; j++) words[nw++] = ((uint64_t)L[i] << 32) | L[j];
  for (i = 0; i < n; i++) {
    u128 a = vals[i];
    CHECK("lsint_negate", a, 0, FS(lsint_negate(S(a))), (u128)(-(s128)a));
    CHECK("lsint_lt_0", a, 0, lsint_lt_0(S(a)), ((s128)a) < 0);
    CHECK("luint_is_fixnum", a, 0, luint_is_fixnum(U(a)), a <= (u128)SEXP_MAX_FIXNUM);
    CHECK("lsint_is_fixnum", a, 0, lsint_is_fixnum(S(a)), ((s128)SEXP_MIN_FIXNUM <= (s128)a) && ((s128)a <= (s128)SEXP_MAX_FIXNUM));
    CHECK("sexp_lsint_fits_sint", a, 0, sexp_lsint_fits_sint(S(a)), (s128)(sexp_sint_t)(s128)a == (s128)a);
    CHECK("sexp_luint_fits_uint", a, 0, sexp_luint_fits_uint(U(a)), (u128)(sexp_uint_t)a == a);
    CHECK("luint_to_uint", a, 0, luint_to_uint(U(a)), (sexp_uint_t)a);
    CHECK("lsint_to_sint", a, 0, (u128)(uint64_t)lsint_to_sint(S(a)), (u128)(uint64_t)(sexp_sint_t)(s128)a);
    CHECK("luint_to_uint_hi", a, 0, luint_to_uint_hi(U(a)), (sexp_uint_t)(a >> 64));
    CHECK("lsint_to_sint_hi", a, 0, (u128)(uint64_t)lsint_to_sint_hi(S(a)), (u128)(uint64_t)(sexp_sint_t)(((s128)a) >> 64));
    for (sh = 0; sh < 128; sh++) {
      CHECK("luint_shl", a, sh, FU(luint_shl(U(a), sh)), a << sh);
      CHECK("luint_shr", a, sh, FU(luint_shr(U(a), sh)), a >> sh);
    }
    for (j = 0; j < nw; j++) {
      uint64_t w = words[j];
      CHECK("luint_add_uint", a, w, FU(luint_add_uint(U(a), w)), a + w);
      CHECK("luint_mul_uint", a, w, FU(luint_mul_uint(U(a), w)), a * w);
      CHECK("lsint_mul_sint", a, w, FS(lsint_mul_sint(S(a), (sexp_sint_t)w)), (u128)((s128)a * (s128)(sexp_sint_t)w));
      if (w) CHECK("luint_div_uint", a, w, FU(luint_div_uint(U(a), w)), a / w);
    }
    for (j = 0; j < n; j++) {
      u128 b = vals[j];
      CHECK("luint_add", a, b, FU(luint_add(U(a), U(b))), a + b);
      CHECK("luint_sub", a, b, FU(luint_sub(U(a), U(b))), a - b);
      CHECK("luint_and", a, b, FU(luint_and(U(a), U(b))), a & b);
      CHECK("luint_lt", a, b, luint_lt(U(a), U(b)), a < b);
      CHECK("luint_eq", a, b, luint_eq(U(a), U(b)), a == b);
      if (b) CHECK("luint_div", a, b, FU(luint_div(U(a), U(b))), a / b);
    }
  }
  printf("STATS evaluations=%ld mismatches=%ld values=%d\n", evals, mism, n);
  return mism ? 1 : 0;
}
