/* heapmc -- explicit-state exploration of the real allocator/collector (C10).
 *
 *   heapmc <depth> <first-op|-1> <lasso 0|1> [heap-bytes]
 *
 * A state is an operation history replayed on a fresh context (heaps cannot be copied).  Operations:
 *   alloc(slot, shape)  allocate an object of the given shape into root slot `slot` (dropping what was there)
 *   link(i, j)          store the object of slot j into the first field of the object of slot i
 *   clear(slot)         drop the root reference
 *   gc                  full collection
 * Breadth-first search with de-duplication on a canonical key holding everything that can influence the
 * future: the exact (free|live, size) tiling of every heap segment, which chunks the root slots designate and
 * the link edges between chunks.  After every transition the heap-walk checker (verifhooks.h) runs; it also
 * runs, in its strict after-sweep form, at the end of every collection the allocator triggers by itself.
 * After an explicit gc the live bytes must equal the boot constant plus the bytes reachable in the model.
 * With lasso=1 every state of the last frontier is then churned periodically until its key repeats
 * (bounded for ever: the allocator is deterministic) or the heap grew in 4 consecutive periods (violation).
 *
 * Output: lines "VIOLATION <history> :: <message>", and a final "STATS states=.. transitions=.. ..." line.
 */
#include "verifhooks.h"
#include <stdint.h>
#include <stdarg.h>

#define NSLOTS 3
#define MAXDEPTH 12
enum { OP_ALLOC, OP_LINK, OP_CLEAR, OP_GC };
/* shapes: bytes of 1,2,3,4,64 chunks, pair, vector(2) 1 chunk, vector(6) 2 chunks, bytes larger than the heap */
enum { SH_B1, SH_B2, SH_B3, SH_B4, SH_B64, SH_PAIR, SH_V2, SH_V6, SH_HUGE, SH_HUGE3, NSHAPES };
static int alloc_failed = 0;   /* set when an allocation returned an exception: the heap has no size limit, so none may */

typedef struct { unsigned char kind, a, b; } op_t;
static op_t alphabet[128];
static int nops = 0;

static size_t heap_bytes = 64 * 1024;   /* SEXP_MINIMUM_HEAP_SIZE on 64-bit: smaller values select the 2 MB default */
static sexp roots;      /* vector of NSLOTS, preserved */
static long violations = 0;

static void build_alphabet(void) {
  int s, sh, i, j;
  for (s = 0; s < NSLOTS; s++)
    for (sh = 0; sh < NSHAPES; sh++) { alphabet[nops].kind = OP_ALLOC; alphabet[nops].a = s; alphabet[nops].b = sh; nops++; }
  for (i = 0; i < NSLOTS; i++)
    for (j = 0; j < NSLOTS; j++)
      if (i != j) { alphabet[nops].kind = OP_LINK; alphabet[nops].a = i; alphabet[nops].b = j; nops++; }
  for (s = 0; s < NSLOTS; s++) { alphabet[nops].kind = OP_CLEAR; alphabet[nops].a = s; alphabet[nops].b = 0; nops++; }
  alphabet[nops].kind = OP_GC; alphabet[nops].a = alphabet[nops].b = 0; nops++;
}

static const char *shape_name[] = {"b1", "b2", "b3", "b4", "b64", "pair", "v2", "v6", "huge"};

static void print_hist(FILE *f, const unsigned char *h, int n) {
  int i;
  for (i = 0; i < n; i++) {
    op_t o = alphabet[h[i]];
    switch (o.kind) {
    case OP_ALLOC: fprintf(f, "%salloc(%d,%s)", i ? " " : "", o.a, shape_name[o.b]); break;
    case OP_LINK: fprintf(f, "%slink(%d,%d)", i ? " " : "", o.a, o.b); break;
    case OP_CLEAR: fprintf(f, "%sclear(%d)", i ? " " : "", o.a); break;
    case OP_GC: fprintf(f, "%sgc", i ? " " : ""); break;
    }
  }
}

static sexp alloc_shape(sexp ctx, int sh) {
  size_t hdr = sexp_sizeof(bytes);
  switch (sh) {
  case SH_B1: return sexp_make_bytes(ctx, sexp_make_fixnum(32 - hdr - 1), SEXP_VOID);
  case SH_B2: return sexp_make_bytes(ctx, sexp_make_fixnum(64 - hdr - 1), SEXP_VOID);
  case SH_B3: return sexp_make_bytes(ctx, sexp_make_fixnum(96 - hdr - 1), SEXP_VOID);
  case SH_B4: return sexp_make_bytes(ctx, sexp_make_fixnum(128 - hdr - 1), SEXP_VOID);
  case SH_B64: return sexp_make_bytes(ctx, sexp_make_fixnum(64 * 32 - hdr - 1), SEXP_VOID);
  case SH_PAIR: return sexp_cons(ctx, SEXP_NULL, SEXP_NULL);
  case SH_V2: return sexp_make_vector(ctx, sexp_make_fixnum(2), SEXP_FALSE);
  case SH_V6: return sexp_make_vector(ctx, sexp_make_fixnum(6), SEXP_FALSE);
  case SH_HUGE: return sexp_make_bytes(ctx, sexp_make_fixnum(heap_bytes + 4096), SEXP_VOID);
  case SH_HUGE3: return sexp_make_bytes(ctx, sexp_make_fixnum(5 * heap_bytes + 4096), SEXP_VOID);   /* more than twice any segment so far */
  }
  return SEXP_FALSE;
}

static void apply_op(sexp ctx, op_t o) {
  sexp x, y;
  switch (o.kind) {
  case OP_ALLOC:
    sexp_vector_set(roots, sexp_make_fixnum(o.a), SEXP_FALSE);
    x = alloc_shape(ctx, o.b);
    if (sexp_exceptionp(x)) { x = SEXP_FALSE; alloc_failed = o.b + 1; }      /* out of memory: nothing allocated */
    sexp_vector_set(roots, sexp_make_fixnum(o.a), x);
    break;
  case OP_LINK:
    x = sexp_vector_ref(roots, sexp_make_fixnum(o.a));
    y = sexp_vector_ref(roots, sexp_make_fixnum(o.b));
    if (sexp_pairp(x)) sexp_car(x) = y;
    else if (sexp_vectorp(x)) sexp_vector_set(x, SEXP_ZERO, y);
    break;
  case OP_CLEAR:
    sexp_vector_set(roots, sexp_make_fixnum(o.a), SEXP_FALSE);
    break;
  case OP_GC:
    sexp_gc(ctx, NULL);
    break;
  }
}

/* ---- canonical key ---------------------------------------------------------------------------- */
static char keybuf[1 << 20];
static size_t keylen;
static void kput(const char *fmt, ...) {
  va_list ap;
  va_start(ap, fmt);
  keylen += vsnprintf(keybuf + keylen, sizeof(keybuf) - keylen - 1, fmt, ap);
  va_end(ap);
}

static long chunk_index(sexp ctx, sexp x) {   /* global index of the chunk that starts at x, -1 if not an object start */
  sexp_heap h;
  long idx = 0;
  for (h = sexp_context_heap(ctx); h; h = h->next) {
    sexp p = sexp_heap_first_block(h), end = sexp_heap_end(h);
    sexp_free_list q = h->free_list, r;
    while (p < end) {
      for (r = q->next; r && ((char *)r < (char *)p); q = r, r = r->next) ;
      if ((char *)r == (char *)p) { p = (sexp)((char *)p + r->size); idx++; continue; }
      if (p == x) return idx;
      p = (sexp)((char *)p + sexp_heap_align(sexp_allocated_bytes(ctx, p)));
      idx++;
    }
  }
  return -1;
}

static size_t boot_live = 0;

static size_t model_live_bytes(sexp ctx) {   /* bytes reachable from the root slots through link edges */
  sexp seen[64]; int n = 0, i, j;
  sexp stack[64]; int sp = 0;
  size_t total = 0;
  for (i = 0; i < NSLOTS; i++) { sexp x = sexp_vector_ref(roots, sexp_make_fixnum(i)); if (sexp_pointerp(x)) stack[sp++] = x; }
  while (sp) {
    sexp x = stack[--sp];
    for (j = 0; j < n; j++) if (seen[j] == x) break;
    if (j < n) continue;
    seen[n++] = x;
    total += sexp_heap_align(sexp_allocated_bytes(ctx, x));
    if (sexp_pairp(x)) { if (sexp_pointerp(sexp_car(x))) stack[sp++] = sexp_car(x); }
    else if (sexp_vectorp(x)) { if (sexp_pointerp(sexp_vector_data(x)[0])) stack[sp++] = sexp_vector_data(x)[0]; }
  }
  return total;
}

static void make_key(sexp ctx) {
  sexp_heap h;
  int i;
  keylen = 0;
  for (h = sexp_context_heap(ctx); h; h = h->next) {
    sexp p = sexp_heap_first_block(h), end = sexp_heap_end(h);
    sexp_free_list q = h->free_list, r;
    kput("S%lu:", (unsigned long)h->size);
    while (p < end) {
      for (r = q->next; r && ((char *)r < (char *)p); q = r, r = r->next) ;
      if ((char *)r == (char *)p) { kput("F%lu,", (unsigned long)r->size); p = (sexp)((char *)p + r->size); continue; }
      {
        size_t sz = sexp_heap_align(sexp_allocated_bytes(ctx, p));
        /* the type tag matters for the future only through its size and slots: pairs/vectors carry a link */
        kput("L%lu", (unsigned long)sz);
        if (sexp_pairp(p) && sexp_pointerp(sexp_car(p))) {
          long t = chunk_index(ctx, sexp_car(p));
          if (t >= 0) { int k; for (k = 0; k < NSLOTS; k++) if (0) ; kput(">%ld", t); }
        }
        if (sexp_vectorp(p) && sexp_vector_length(p) > 0 && p != roots && sexp_pointerp(sexp_vector_data(p)[0])
            && p != sexp_context_globals(ctx)) {
          long t = chunk_index(ctx, sexp_vector_data(p)[0]);
          if (t >= 0 && sexp_vector_length(p) <= 6) kput(">%ld", t);
        }
        kput(",");
        p = (sexp)((char *)p + sz);
      }
    }
    kput("|");
  }
  for (i = 0; i < NSLOTS; i++) {
    sexp x = sexp_vector_ref(roots, sexp_make_fixnum(i));
    kput("R%ld%s,", sexp_pointerp(x) ? chunk_index(ctx, x) : -1L, sexp_pairp(x) ? "p" : sexp_vectorp(x) ? "v" : "");
  }
}

static uint64_t fnv(const char *s, size_t n, uint64_t h) {
  size_t i;
  for (i = 0; i < n; i++) { h ^= (unsigned char)s[i]; h *= 1099511628211ULL; }
  return h;
}

/* ---- visited set (two independent 64-bit hashes) ---------------------------------------------- */
static uint64_t *vis_a, *vis_b;
static size_t vis_cap = 0, vis_n = 0;
static int visited_add(uint64_t a, uint64_t b) {
  size_t i;
  if (!a) a = 1;
  if (vis_n * 2 >= vis_cap) {
    size_t ncap = vis_cap ? vis_cap * 2 : (1 << 16), j;
    uint64_t *na = calloc(ncap, 8), *nb = calloc(ncap, 8);
    for (j = 0; j < vis_cap; j++) if (vis_a[j]) {
      size_t k = vis_a[j] & (ncap - 1);
      while (na[k]) k = (k + 1) & (ncap - 1);
      na[k] = vis_a[j]; nb[k] = vis_b[j];
    }
    free(vis_a); free(vis_b); vis_a = na; vis_b = nb; vis_cap = ncap;
  }
  i = a & (vis_cap - 1);
  while (vis_a[i]) { if (vis_a[i] == a && vis_b[i] == b) return 0; i = (i + 1) & (vis_cap - 1); }
  vis_a[i] = a; vis_b[i] = b; vis_n++;
  return 1;
}

/* ---- replay ----------------------------------------------------------------------------------- */
static sexp fresh(void) {
  sexp ctx = sexp_make_context(NULL, heap_bytes, 0);
  roots = sexp_make_vector(ctx, sexp_make_fixnum(NSLOTS), SEXP_FALSE);
  sexp_preserve_object(ctx, roots);
  sexp_gc(ctx, NULL);
  return ctx;
}

static void violation(const unsigned char *h, int n, const char *msg) {
  violations++;
  if (violations <= 40) { printf("VIOLATION "); print_hist(stdout, h, n); printf(" :: %s\n", msg); fflush(stdout); }
}

/* replays history h[0..n), checking invariants after every step; returns the context */
static sexp replay(const unsigned char *h, int n, int check_from) {
  struct vh_heap_stats st;
  sexp ctx = fresh();
  int i;
  char msg[700];
  for (i = 0; i < n; i++) {
    long fails_before = vh_heapcheck_fail;
    alloc_failed = 0;
    apply_op(ctx, alphabet[h[i]]);
    if (i < check_from) continue;
    if (alloc_failed) {
      snprintf(msg, sizeof(msg), "allocation of shape %d failed although the heap may grow without limit (max size 0)", alloc_failed - 1);
      violation(h, i + 1, msg);
    }
    if (vh_heapcheck_fail != fails_before) {
      snprintf(msg, sizeof(msg), "heap malformed after a collection: %s", vh_heapcheck_msg);
      violation(h, i + 1, msg);
    }
    if (!vh_check_heap(ctx, alphabet[h[i]].kind == OP_GC, &st)) {
      snprintf(msg, sizeof(msg), "heap malformed: %s", vh_heapcheck_msg);
      violation(h, i + 1, msg);
      vh_heapcheck_fail = fails_before;
    } else if (alphabet[h[i]].kind == OP_GC) {
      size_t want = boot_live + model_live_bytes(ctx);
      if (st.live_bytes != want) {
        snprintf(msg, sizeof(msg), "after gc %lu live bytes, but boot constant %lu + reachable %lu = %lu (unreachable storage kept, or reachable storage lost)",
                 (unsigned long)st.live_bytes, (unsigned long)boot_live, (unsigned long)(want - boot_live), (unsigned long)want);
        violation(h, i + 1, msg);
      }
    }
  }
  return ctx;
}

int main(int argc, char **argv) {
  int depth = argc > 1 ? atoi(argv[1]) : 4;
  int first = argc > 2 ? atoi(argv[2]) : -1;
  int lasso = argc > 3 ? atoi(argv[3]) : 0;
  unsigned char *frontier, *next;
  size_t nfront, nnext, capnext, i;
  long transitions = 0, lasso_runs = 0, lasso_max_period = 0, replays = 0;
  int d, o;
  struct vh_heap_stats st;
  sexp ctx;
  if (argc > 4) heap_bytes = atol(argv[4]);
  if (depth > MAXDEPTH) depth = MAXDEPTH;
  vh_poison = VH_ASAN;
  vh_heapcheck = 1;
  vh_install_gc_hooks();
  build_alphabet();
  sexp_scheme_init();
  ctx = fresh();
  vh_check_heap(ctx, 1, &st);
  boot_live = st.live_bytes;
  make_key(ctx);
  visited_add(fnv(keybuf, keylen, 1469598103934665603ULL), fnv(keybuf, keylen, 88172645463325252ULL));
  sexp_destroy_context(ctx);

  frontier = calloc(1, MAXDEPTH);
  nfront = 1;          /* the empty history */
  for (d = 0; d < depth; d++) {
    capnext = 1024; nnext = 0;
    next = malloc(capnext * MAXDEPTH);
    for (i = 0; i < nfront; i++) {
      unsigned char *h = frontier + i * MAXDEPTH;
      for (o = 0; o < nops; o++) {
        unsigned char hh[MAXDEPTH];
        if (d == 0 && first >= 0 && o != first) continue;
        memcpy(hh, h, d);
        hh[d] = o;
        ctx = replay(hh, d + 1, d);
        replays++;
        transitions++;
        make_key(ctx);
        if (visited_add(fnv(keybuf, keylen, 1469598103934665603ULL), fnv(keybuf, keylen, 88172645463325252ULL))) {
          if (nnext == capnext) { capnext *= 2; next = realloc(next, capnext * MAXDEPTH); }
          memcpy(next + nnext * MAXDEPTH, hh, d + 1);
          nnext++;
        }
        sexp_destroy_context(ctx);
      }
    }
    free(frontier);
    frontier = next; nfront = nnext;
    fprintf(stderr, "depth %d: frontier %lu, states %lu, transitions %ld\n", d + 1, (unsigned long)nfront, (unsigned long)vis_n, transitions);
  }

  if (lasso) {
    /* churn every state of the last frontier until its key repeats */
    for (i = 0; i < nfront; i++) {
      unsigned char *h = frontier + i * MAXDEPTH;
      uint64_t seen[40]; size_t totals[40]; int np = 0, p, grow = 0, cyc = 0, sh;
      ctx = replay(h, depth, depth);
      for (p = 0; p < 40 && !cyc; p++) {
        size_t total = 0; sexp_heap hp;
        sexp keep = sexp_vector_ref(roots, SEXP_ZERO);
        for (sh = 0; sh < SH_HUGE; sh++) {     /* allocate and drop one object of every (non-huge) shape */
          op_t a; a.kind = OP_ALLOC; a.a = 0; a.b = sh;
          apply_op(ctx, a);
        }
        sexp_vector_set(roots, SEXP_ZERO, SEXP_FALSE);
        (void)keep;
        sexp_gc(ctx, NULL);
        if (!vh_check_heap(ctx, 1, &st)) { violation(h, depth, vh_heapcheck_msg); break; }
        for (hp = sexp_context_heap(ctx); hp; hp = hp->next) total += hp->size;
        make_key(ctx);
        seen[np] = fnv(keybuf, keylen, 1469598103934665603ULL); totals[np] = total;
        for (sh = 0; sh < np; sh++) if (seen[sh] == seen[np]) { cyc = 1; if (np - sh > lasso_max_period) lasso_max_period = np - sh; }
        if (np > 0 && totals[np] > totals[np - 1]) grow++; else grow = 0;
        if (grow >= 4) { violation(h, depth, "heap grew in 4 consecutive churn periods although live data is constant"); break; }
        np++;
      }
      if (!cyc && grow < 4 && p >= 40) violation(h, depth, "no periodic heap state after 40 churn periods");
      lasso_runs++;
      sexp_destroy_context(ctx);
    }
  }
  printf("STATS states=%lu transitions=%ld replays=%ld depth=%d alphabet=%d frontier=%lu lasso_runs=%ld lasso_max_period=%ld heapchecks=%ld boot_live=%lu violations=%ld\n",
         (unsigned long)vis_n, transitions, replays, depth, nops, (unsigned long)nfront, lasso_runs, lasso_max_period, vh_heapcheck_runs,
         (unsigned long)boot_live, violations);
  return violations ? 1 : 0;
}
