/* ephmc -- explicit-state exploration of ephemeron / weak-key histories on the real collector (C16).
 *
 *   ephmc <depth>
 *
 * Roots owned by the harness: key slots K0,K1 and ephemeron slots E0,E1 in one preserved vector.  Operations:
 *   newkey(i)                         K[i] := fresh pair
 *   neweph(e, k, v)                   E[e] := (make-ephemeron K[k] value) (k = 2, 3: the key is an immediate -- the fixnum 42 / the empty
 *                                       list -- which can never become unreachable, so the value lives as long as the ephemeron) with value kind v in
 *                                       0 fresh pair   1 K[1-k]   2 the ephemeron object of E[1-e]   3 (list K[k]) (value references its own key)
 *                                       4 (list K[1-k]): once K[1-k] loses its root it is reachable only through this value
 *   dropkey(i) dropeph(e)             clear the root
 *   gc                                full collection
 * The reference model (reachability with ephemeron semantics, computed on the harness's own shadow graph) says which
 * keys are strongly reachable.  Checked after every operation: an ephemeron is never broken while its key is reachable
 * in the model; after a gc it is broken exactly when the model says the key was unreachable at that gc; while the key is
 * live the value read through the ephemeron is the object that was stored (contents intact; ASan + poisoned free
 * memory turn a swept value into a report).  BFS over histories with de-duplication on the shadow graph.
 */
#include "verifhooks.h"
#include <stdint.h>

#define MAXD 10
enum { O_NEWKEY, O_NEWEPH, O_DROPKEY, O_DROPEPH, O_GC };
typedef struct { unsigned char kind, a, b, c; } op_t;
static op_t alphabet[64];
static int nops = 0;

/* shadow graph: objects are numbered; an object is a key, a value pair, or an ephemeron */
#define MAXOBJ 64
typedef struct {
  int kind;            /* 1 key pair, 2 plain value pair, 3 ephemeron, 4 pair holding a key, 5 immediate key */
  sexp ptr;            /* address (never dereferenced unless the model says it is live) */
  int key, val;        /* for ephemerons: object numbers (val may be -1) */
  int ref;             /* for kind 4: the key it holds */
  int tag;             /* number stored in the car, to check contents */
  int broken;          /* model: broken at some earlier gc */
} obj_t;
static obj_t objs[MAXOBJ];
static int nobjs;
static int rootK[2], rootE[2];   /* object numbers or -1 */
static sexp roots;
static long violations = 0;

static int with_immediates = 0;   /* 1: the alphabet also has ephemerons whose key is an immediate */
static void build_alphabet(void) {
  int i, e, k, v;
  for (i = 0; i < 2; i++) { alphabet[nops].kind = O_NEWKEY; alphabet[nops].a = i; nops++; }
  for (e = 0; e < 2; e++) for (k = 0; k < 2; k++) for (v = 0; v < 5; v++) {
    alphabet[nops].kind = O_NEWEPH; alphabet[nops].a = e; alphabet[nops].b = k; alphabet[nops].c = v; nops++;
  }
  if (with_immediates) for (e = 0; e < 2; e++) for (k = 2; k < 4; k++) for (v = 0; v < 3; v++) {   /* immediate keys */
    alphabet[nops].kind = O_NEWEPH; alphabet[nops].a = e; alphabet[nops].b = k; alphabet[nops].c = v; nops++;
  }
  for (i = 0; i < 2; i++) { alphabet[nops].kind = O_DROPKEY; alphabet[nops].a = i; nops++; }
  for (i = 0; i < 2; i++) { alphabet[nops].kind = O_DROPEPH; alphabet[nops].a = i; nops++; }
  alphabet[nops].kind = O_GC; nops++;
}

static void print_hist(const unsigned char *h, int n) {
  int i;
  for (i = 0; i < n; i++) {
    op_t o = alphabet[h[i]];
    switch (o.kind) {
    case O_NEWKEY: printf("%snewkey(%d)", i ? " " : "", o.a); break;
    case O_NEWEPH: printf("%sneweph(E%d,key=K%d,value=%s)", i ? " " : "", o.a, o.b,
                          o.c == 0 ? "fresh" : o.c == 1 ? "otherkey" : o.c == 2 ? "othereph" : o.c == 4 ? "list-of-other-key" : "list-of-own-key"); break;
    case O_DROPKEY: printf("%sdropkey(%d)", i ? " " : "", o.a); break;
    case O_DROPEPH: printf("%sdropeph(%d)", i ? " " : "", o.a); break;
    case O_GC: printf("%sgc", i ? " " : ""); break;
    }
  }
}

static int newobj(int kind, sexp p) {
  objs[nobjs].kind = kind; objs[nobjs].ptr = p; objs[nobjs].key = objs[nobjs].val = objs[nobjs].ref = -1;
  objs[nobjs].tag = 1000 + nobjs; objs[nobjs].broken = 0;
  return nobjs++;
}

static void setroot(int idx, int obj) {   /* vector layout: K0 K1 E0 E1 */
  sexp_vector_set(roots, sexp_make_fixnum(idx), obj >= 0 ? objs[obj].ptr : SEXP_FALSE);
}

/* model reachability: live[] over objects */
static void model_live(int *live) {
  int changed, i;
  memset(live, 0, sizeof(int) * MAXOBJ);
  for (i = 0; i < 2; i++) { if (rootK[i] >= 0) live[rootK[i]] = 1; if (rootE[i] >= 0) live[rootE[i]] = 1; }
  do {
    changed = 0;
    for (i = 0; i < nobjs; i++) {
      if (!live[i]) continue;
      if (objs[i].kind == 4 && objs[i].ref >= 0 && !live[objs[i].ref]) { live[objs[i].ref] = 1; changed = 1; }
      if (objs[i].kind == 3 && objs[i].key >= 0 && objs[objs[i].key].kind == 5 && !live[objs[i].key]) { live[objs[i].key] = 1; changed = 1; }
      if (objs[i].kind == 3 && !objs[i].broken && objs[i].key >= 0 && live[objs[i].key]
          && objs[i].val >= 0 && !live[objs[i].val]) { live[objs[i].val] = 1; changed = 1; }
    }
  } while (changed);
}

static int apply_op(sexp ctx, op_t o) {    /* returns 0 if the operation is not enabled in this state */
  sexp p, v;
  int n, vn, other;
  switch (o.kind) {
  case O_NEWKEY:
    p = sexp_cons(ctx, SEXP_ZERO, SEXP_NULL);
    n = newobj(1, p); sexp_car(p) = sexp_make_fixnum(objs[n].tag);
    rootK[o.a] = n; setroot(o.a, n);
    return 1;
  case O_NEWEPH:
    if (o.b >= 2) {          /* immediate key */
      int kn;
      sexp imm = (o.b == 2) ? sexp_make_fixnum(42) : SEXP_NULL;
      vn = -1;
      if (o.c == 0) {
        v = sexp_cons(ctx, SEXP_ZERO, SEXP_NULL);
        vn = newobj(2, v); sexp_car(v) = sexp_make_fixnum(objs[vn].tag);
        sexp_vector_set(roots, sexp_make_fixnum(4), v);
      } else if (o.c == 1) {
        if (rootK[0] < 0) return 0;
        vn = rootK[0]; v = objs[vn].ptr;
      } else {
        other = rootE[1 - o.a];
        if (other < 0) return 0;
        vn = other; v = objs[vn].ptr;
      }
      p = sexp_make_ephemeron(ctx, imm, v);
      sexp_vector_set(roots, sexp_make_fixnum(4), SEXP_FALSE);
      kn = newobj(5, imm);
      n = newobj(3, p); objs[n].key = kn; objs[n].val = vn;
      rootE[o.a] = n; setroot(2 + o.a, n);
      return 1;
    }
    if (rootK[o.b] < 0) return 0;
    vn = -1;
    if (o.c == 0) {
      v = sexp_cons(ctx, SEXP_ZERO, SEXP_NULL);
      vn = newobj(2, v); sexp_car(v) = sexp_make_fixnum(objs[vn].tag);
      sexp_vector_set(roots, sexp_make_fixnum(4), v);      /* temporary root while the ephemeron is allocated */
    } else if (o.c == 1) {
      if (rootK[1 - o.b] < 0) return 0;
      vn = rootK[1 - o.b]; v = objs[vn].ptr;
    } else if (o.c == 2) {
      other = rootE[1 - o.a];
      if (other < 0) return 0;
      vn = other; v = objs[vn].ptr;
    } else if (o.c == 4) {     /* a list holding the OTHER key: that key may later be reachable only through this value */
      if (rootK[1 - o.b] < 0) return 0;
      v = sexp_cons(ctx, objs[rootK[1 - o.b]].ptr, SEXP_NULL);
      vn = newobj(4, v); objs[vn].ref = rootK[1 - o.b];
      sexp_vector_set(roots, sexp_make_fixnum(4), v);
    } else {
      v = sexp_cons(ctx, objs[rootK[o.b]].ptr, SEXP_NULL);
      vn = newobj(4, v); objs[vn].ref = rootK[o.b];
      sexp_vector_set(roots, sexp_make_fixnum(4), v);
    }
    p = sexp_make_ephemeron(ctx, objs[rootK[o.b]].ptr, v);
    sexp_vector_set(roots, sexp_make_fixnum(4), SEXP_FALSE);
    n = newobj(3, p); objs[n].key = rootK[o.b]; objs[n].val = vn;
    rootE[o.a] = n; setroot(2 + o.a, n);
    return 1;
  case O_DROPKEY:
    if (rootK[o.a] < 0) return 0;
    rootK[o.a] = -1; setroot(o.a, -1);
    return 1;
  case O_DROPEPH:
    if (rootE[o.a] < 0) return 0;
    rootE[o.a] = -1; setroot(2 + o.a, -1);
    return 1;
  case O_GC: {
    int live[MAXOBJ], i;
    model_live(live);
    sexp_gc(ctx, NULL);
    /* model: every live ephemeron whose key was unreachable at this collection is now broken */
    for (i = 0; i < nobjs; i++)
      if (objs[i].kind == 3 && live[i] && !objs[i].broken && objs[i].key >= 0 && !live[objs[i].key])
        objs[i].broken = 1;
    return 1;
  }
  }
  return 0;
}

static char vmsg[600];
static const unsigned char *cur_h; static int cur_n;
static void violation(const char *msg) {
  violations++;
  if (violations <= 40) { printf("VIOLATION "); print_hist(cur_h, cur_n); printf(" :: %s\n", msg); fflush(stdout); }
}

/* compare the implementation with the model for everything reachable from the roots */
static void check_state(sexp ctx, int after_gc) {
  int live[MAXOBJ], i;
  model_live(live);
  for (i = 0; i < nobjs; i++) {
    sexp e, k, v;
    if (objs[i].kind != 3 || !live[i]) continue;
    e = objs[i].ptr;
    if (!sexp_ephemeronp(e)) { snprintf(vmsg, sizeof(vmsg), "live ephemeron #%d is no longer an ephemeron object", i); violation(vmsg); continue; }
    k = sexp_ephemeron_key(e); v = sexp_ephemeron_value(e);
    if (!objs[i].broken) {
      /* key reachable (or not yet collected): must not be reported broken, key and value are the stored objects */
      if (live[objs[i].key]) {
        if (sexp_brokenp(e) || k != objs[objs[i].key].ptr) {
          snprintf(vmsg, sizeof(vmsg), "ephemeron #%d reported broken (or key changed) although its key is strongly reachable", i); violation(vmsg); continue;
        }
        if (objs[objs[i].key].kind != 5 && (!sexp_pairp(k) || sexp_car(k) != sexp_make_fixnum(objs[objs[i].key].tag))) {
          snprintf(vmsg, sizeof(vmsg), "key of ephemeron #%d is corrupted", i); violation(vmsg); continue;
        }
        if (objs[i].val >= 0) {
          obj_t *vo = &objs[objs[i].val];
          if (v != vo->ptr) { snprintf(vmsg, sizeof(vmsg), "value of ephemeron #%d changed while its key is alive", i); violation(vmsg); continue; }
          /* touch the value: it must still be the object that was stored */
          if ((vo->kind == 1 || vo->kind == 2) && (!sexp_pairp(v) || sexp_car(v) != sexp_make_fixnum(vo->tag))) {
            snprintf(vmsg, sizeof(vmsg), "value of ephemeron #%d was reclaimed or overwritten while its key is alive (tag %s)", i,
                     sexp_pairp(v) ? "differs" : "not a pair");
            violation(vmsg); continue;
          }
          if (vo->kind == 4 && (!sexp_pairp(v) || sexp_car(v) != objs[vo->ref].ptr)) {
            snprintf(vmsg, sizeof(vmsg), "value (list key) of ephemeron #%d was reclaimed or overwritten while its key is alive", i); violation(vmsg); continue;
          }
          if (vo->kind == 3 && !sexp_ephemeronp(v)) {
            snprintf(vmsg, sizeof(vmsg), "value (an ephemeron) of ephemeron #%d was reclaimed while its key is alive", i); violation(vmsg); continue;
          }
        }
      }
    } else if (after_gc || 1) {
      /* model says broken: after the collection that made the key unreachable the implementation must say so too */
      if (!sexp_brokenp(e) || k != SEXP_FALSE) {
        snprintf(vmsg, sizeof(vmsg), "ephemeron #%d is not broken after a full collection although its key became unreachable", i); violation(vmsg);
      }
    }
  }
}

/* canonical key of the model state (history independent) */
static char keybuf[4096];
static size_t make_key(void) {
  int live[MAXOBJ], i, n = 0, id[MAXOBJ], next = 0;
  model_live(live);
  /* number live objects in order of first reach from roots K0 K1 E0 E1 for canonical form */
  for (i = 0; i < MAXOBJ; i++) id[i] = -1;
  for (i = 0; i < 2; i++) if (rootK[i] >= 0 && id[rootK[i]] < 0) id[rootK[i]] = next++;
  for (i = 0; i < 2; i++) if (rootE[i] >= 0 && id[rootE[i]] < 0) id[rootE[i]] = next++;
  for (i = 0; i < nobjs; i++) if (live[i] && id[i] < 0) id[i] = next++;
  n += snprintf(keybuf + n, sizeof(keybuf) - n, "K%d,%d E%d,%d|", rootK[0] >= 0 ? id[rootK[0]] : -1, rootK[1] >= 0 ? id[rootK[1]] : -1,
                rootE[0] >= 0 ? id[rootE[0]] : -1, rootE[1] >= 0 ? id[rootE[1]] : -1);
  for (i = 0; i < nobjs; i++) {
    if (!live[i]) continue;
    n += snprintf(keybuf + n, sizeof(keybuf) - n, "%d:%d", id[i], objs[i].kind);
    if (objs[i].kind == 3)
      n += snprintf(keybuf + n, sizeof(keybuf) - n, "k%d%sv%d%s", (objs[i].key >= 0 && live[objs[i].key]) ? id[objs[i].key] : -1,
                    objs[i].broken ? "B" : ((objs[i].key >= 0 && !live[objs[i].key]) ? "D" : ""),
                    (objs[i].val >= 0 && live[objs[i].val]) ? id[objs[i].val] : -1, "");
    if (objs[i].kind == 4) n += snprintf(keybuf + n, sizeof(keybuf) - n, "r%d", objs[i].ref >= 0 ? id[objs[i].ref] : -1);
    if (objs[i].kind == 5) n += snprintf(keybuf + n, sizeof(keybuf) - n, "i%d", objs[i].ptr == SEXP_NULL ? 1 : 0);
    n += snprintf(keybuf + n, sizeof(keybuf) - n, ";");
  }
  return n;
}

static uint64_t fnv(const char *s, size_t n, uint64_t h) { size_t i; for (i = 0; i < n; i++) { h ^= (unsigned char)s[i]; h *= 1099511628211ULL; } return h; }
static uint64_t *vis_a, *vis_b; static size_t vis_cap = 0, vis_n = 0;
static int visited_add(uint64_t a, uint64_t b) {
  size_t i;
  if (!a) a = 1;
  if (vis_n * 2 >= vis_cap) {
    size_t ncap = vis_cap ? vis_cap * 2 : (1 << 14), j; uint64_t *na = calloc(ncap, 8), *nb = calloc(ncap, 8);
    for (j = 0; j < vis_cap; j++) if (vis_a[j]) { size_t k = vis_a[j] & (ncap - 1); while (na[k]) k = (k + 1) & (ncap - 1); na[k] = vis_a[j]; nb[k] = vis_b[j]; }
    free(vis_a); free(vis_b); vis_a = na; vis_b = nb; vis_cap = ncap;
  }
  i = a & (vis_cap - 1);
  while (vis_a[i]) { if (vis_a[i] == a && vis_b[i] == b) return 0; i = (i + 1) & (vis_cap - 1); }
  vis_a[i] = a; vis_b[i] = b; vis_n++;
  return 1;
}

static int multi_segment = 0;   /* 1: the heap has a second (last) segment and the objects of the history live in the first one */

static sexp fresh(void) {
  sexp ctx = sexp_make_eval_context(NULL, NULL, NULL, 256 * 1024, 0);
  roots = sexp_make_vector(ctx, sexp_make_fixnum(5), SEXP_FALSE);
  sexp_preserve_object(ctx, roots);
  if (multi_segment) {
    /* an object larger than the heap forces a new segment; once it is dropped, first-fit allocation returns to segment one,
       so every collection of the history has to reach its fix-point across segments */
    sexp big = sexp_make_bytes(ctx, sexp_make_fixnum(512 * 1024), SEXP_VOID);
    (void)big;
    sexp_gc(ctx, NULL);
    if (!sexp_context_heap(ctx)->next) { fprintf(stderr, "ephmc: no second heap segment\n"); exit(3); }
  }
  nobjs = 0; rootK[0] = rootK[1] = rootE[0] = rootE[1] = -1;
  return ctx;
}

/* returns 0 if some operation of the history is not enabled */
static int replay(sexp *pctx, const unsigned char *h, int n, int check_from) {
  sexp ctx = fresh();
  int i;
  *pctx = ctx;
  for (i = 0; i < n; i++) {
    if (!apply_op(ctx, alphabet[h[i]])) return 0;
    if (i >= check_from) { cur_h = h; cur_n = i + 1; check_state(ctx, alphabet[h[i]].kind == O_GC); }
  }
  return 1;
}

int main(int argc, char **argv) {
  int depth = argc > 1 ? atoi(argv[1]) : 5, d, o;
  unsigned char *frontier, *next; size_t nfront, nnext, capnext, i;
  long transitions = 0, gcs = 0;
  sexp ctx;
  if (depth > MAXD) depth = MAXD;
  if (argc > 2) multi_segment = atoi(argv[2]);
  if (argc > 3) with_immediates = atoi(argv[3]);
  vh_poison = VH_ASAN; vh_heapcheck = 1;
  vh_install_gc_hooks();
  build_alphabet();
  sexp_scheme_init();
  frontier = calloc(1, MAXD); nfront = 1;
  for (d = 0; d < depth; d++) {
    capnext = 1024; nnext = 0; next = malloc(capnext * MAXD);
    for (i = 0; i < nfront; i++) {
      for (o = 0; o < nops; o++) {
        unsigned char hh[MAXD]; size_t kl; int ok;
        memcpy(hh, frontier + i * MAXD, d); hh[d] = o;
        ok = replay(&ctx, hh, d + 1, d);
        if (ok) {
          transitions++;
          if (alphabet[o].kind == O_GC) gcs++;
          kl = make_key();
          if (visited_add(fnv(keybuf, kl, 1469598103934665603ULL), fnv(keybuf, kl, 88172645463325252ULL))) {
            if (nnext == capnext) { capnext *= 2; next = realloc(next, capnext * MAXD); }
            memcpy(next + nnext * MAXD, hh, d + 1); nnext++;
          }
        }
        if (vh_heapcheck_fail) { cur_h = hh; cur_n = d + 1; violation(vh_heapcheck_msg); vh_heapcheck_fail = 0; }
        sexp_destroy_context(ctx);
      }
    }
    free(frontier); frontier = next; nfront = nnext;
    fprintf(stderr, "depth %d: frontier %lu states %lu transitions %ld\n", d + 1, (unsigned long)nfront, (unsigned long)vis_n, transitions);
  }
  printf("STATS states=%lu transitions=%ld depth=%d alphabet=%d gc_transitions=%ld violations=%ld\n", (unsigned long)vis_n, transitions, depth, nops, gcs, violations);
  return violations ? 1 : 0;
}
