/* ctxmc -- independent contexts: isolation and parallel OS threads (C13).
 *
 *   ctxmc solo <w>                       print the output of workload w run alone (baseline)
 *   ctxmc threads <n> <rounds>           n free-running pthreads, each: create context, load the standard environment,
 *                                        import libraries (incl. C-backed ones), run its workload (with collections), destroy;
 *                                        prints per-thread "T<i> <output>" lines (used under TSan and ASan)
 *   ctxmc sched <n> <schedule|-> [trace] the same bodies under a cooperative scheduler: exactly one thread runs; control is
 *                                        handed over only at *visible points* = interposed libc calls that touch process-wide state
 *                                        (dlopen/dlsym/dlclose, fopen/fclose/open/close, getenv, malloc of heap-sized blocks) and at
 *                                        thread start/end.  <schedule> = comma separated global point indices at which the running
 *                                        thread is pre-empted (the next thread in round-robin order continues).
 *   ctxmc iso <seqA> <seqB> <interleaving>   two (or three) contexts in ONE thread; seqX are strings of operation letters, the
 *                                        interleaving is a string over {a,b,c} saying whose next operation runs; after every
 *                                        operation every live context evaluates the probe; prints "P <ctx> <step> <probe>" lines.
 */
#define _GNU_SOURCE
#include <chibi/eval.h>
#include <pthread.h>
#include <dlfcn.h>
#include <stdio.h>
#include <stdlib.h>
#include <string.h>
#include <unistd.h>
#include <fcntl.h>
#include <stdarg.h>

#define NW 4
static const char *workloads[NW] = {
  /* bignums + strings */
  "(import (scheme base) (scheme write))"
  "(define (fact n) (if (= n 0) 1 (* n (fact (- n 1)))))"
  "(define (go) (let loop ((i 0) (acc '())) (if (= i 400) (length acc) (loop (+ i 1) (cons (number->string (fact (+ 20 (modulo i 30)))) (if (> (length acc) 50) '() acc))))))"
  "(let ((p (open-output-string))) (write (list 'w0 (go) (fact 25) (string-length (number->string (fact 200)))) p) (get-output-string p))",
  /* hash tables + sort (C-backed libraries) */
  "(import (scheme base) (scheme write) (srfi 69) (srfi 95))"
  "(define h (make-hash-table equal?))"
  "(do ((i 0 (+ i 1))) ((= i 3000)) (hash-table-set! h (number->string (* i 7919)) (list i)))"
  "(do ((i 0 (+ i 2))) ((>= i 3000)) (hash-table-delete! h (number->string (* i 7919))))"
  "(let ((p (open-output-string))) (write (list 'w1 (hash-table-size h) (hash-table-ref/default h \"7919\" #f) (list-tail (sort (map car (hash-table-values h)) <) 1495)) p) (get-output-string p))",
  /* string ports, symbols, json, bit operations */
  "(import (scheme base) (scheme write) (scheme read) (chibi json) (srfi 151))"
  "(define (sym i) (string->symbol (string-append \"sym-w2-\" (number->string i))))"
  "(define syms (let loop ((i 0) (a '())) (if (= i 500) a (loop (+ i 1) (cons (sym i) a)))))"
  "(define j (string->json \"{\\\"a\\\": [1, 2.5, \\\"x\\\", null], \\\"b\\\": {\\\"c\\\": true}}\"))"
  "(let ((p (open-output-string))) (write (list 'w2 (length syms) (eq? (sym 7) (sym 7)) (json->string j) (bitwise-and (expt 2 100) (- (expt 2 101) 1)) (read (open-input-string \"(a #(1 2) \\\"s\\\")\"))) p) (get-output-string p))",
  /* closures, continuations, records, dynamic-wind; many collections */
  "(import (scheme base) (scheme write))"
  "(define-record-type point (make-point x y) point? (x px) (y py))"
  "(define (gen n) (let loop ((i 0) (acc '())) (if (= i n) acc (loop (+ i 1) (cons (make-point i (lambda () (* i i))) acc)))))"
  "(define total (let loop ((r 0) (s 0)) (if (= r 60) s (loop (+ r 1) (+ s (apply + (map (lambda (p) ((py p))) (gen 200))))))))"
  "(define k-result (call/cc (lambda (k) (dynamic-wind (lambda () #f) (lambda () (k 'escaped)) (lambda () #f)))))"
  "(let ((p (open-output-string))) (write (list 'w3 total k-result (point? (make-point 1 2)) (px (make-point 1 2))) p) (get-output-string p))",
};

static void die(const char *m) { fprintf(stderr, "ctxmc: %s\n", m); _exit(3); }

/* evaluates every form of src in ctx; returns malloc'd copy of the last value if it is a string, else its written form */
static char *eval_forms(sexp ctx, sexp env, const char *src) {
  sexp_gc_var4(in, x, res, s);
  char *out;
  sexp_gc_preserve4(ctx, in, x, res, s);
  s = sexp_c_string(ctx, src, -1);
  in = sexp_open_input_string(ctx, s);
  res = SEXP_VOID;
  for (;;) {
    x = sexp_read(ctx, in);
    if (x == SEXP_EOF) break;
    if (sexp_exceptionp(x)) { res = x; break; }
    res = sexp_eval(ctx, x, env);
    if (sexp_exceptionp(res)) break;
  }
  if (sexp_exceptionp(res)) {
    sexp msg = sexp_exception_message(res);
    out = malloc(300);
    snprintf(out, 300, "EXCEPTION %s", sexp_stringp(msg) ? sexp_string_data(msg) : "?");
  } else if (sexp_stringp(res)) {
    out = strndup(sexp_string_data(res), sexp_string_size(res));
  } else {
    s = sexp_write_to_string(ctx, res);
    out = sexp_stringp(s) ? strndup(sexp_string_data(s), sexp_string_size(s)) : strdup("?");
  }
  sexp_gc_release4(ctx);
  return out;
}

static sexp make_script_env(sexp ctx) {
  /* like `chibi-scheme file.scm`: standard environment loaded, then an environment where only `import` is bound */
  sexp e, env, sym, tmp;
  e = sexp_load_standard_env(ctx, sexp_context_env(ctx), SEXP_SEVEN);
  if (sexp_exceptionp(e)) die("loading the standard environment failed");
  sexp_load_standard_ports(ctx, e, stdin, stdout, stderr, 1);
  env = sexp_make_env(ctx);
  sexp_context_env(ctx) = env;
  sexp_set_parameter(ctx, sexp_global(ctx, SEXP_G_META_ENV), sexp_global(ctx, SEXP_G_INTERACTION_ENV_SYMBOL), env);
  sym = sexp_intern(ctx, "repl-import", -1);
  tmp = sexp_env_ref(ctx, sexp_global(ctx, SEXP_G_META_ENV), sym, SEXP_VOID);
  sym = sexp_intern(ctx, "import", -1);
  sexp_env_define(ctx, env, sym, tmp);
  return env;
}

static int letters = 0;                      /* threads mode: letters written to stdout per thread and round */
static __thread int my_letter = -1;
static char *run_workload(int w, size_t heap) {
  sexp ctx = sexp_make_eval_context(NULL, NULL, NULL, heap, 0);
  sexp env;
  char *out;
  if (!ctx) die("no context");
  env = make_script_env(ctx);
  out = eval_forms(ctx, env, workloads[w % NW]);
  if (letters > 0 && my_letter >= 0) {
    /* free-running mode: every context also writes its own letter to the process-wide stdout through its standard port; the
       caller counts the letters (independent contexts share the C stream, whose locking is the library's business) */
    char buf[300];
    snprintf(buf, sizeof(buf), "(import (scheme base) (scheme write)) (let ((c (integer->char %d))) (do ((i 0 (+ i 1))) ((= i %d)) (write-char c)) (newline) (flush-output-port))",
             97 + my_letter, letters);
    free(eval_forms(ctx, env, buf));
  }
  sexp_destroy_context(ctx);
  return out;
}

/* ---------------------------------------------------------------- cooperative scheduler over interposed libc */
static int coop = 0;                 /* scheduler active */
static int nthreads = 0;
static volatile int current = -1;    /* thread holding the token */
static int finished[32];
static long point = 0;               /* global visible point counter */
static long sched_at[64]; static int nsched = 0, next_sched = 0;
static pthread_mutex_t mu = PTHREAD_MUTEX_INITIALIZER;
static pthread_cond_t cv = PTHREAD_COND_INITIALIZER;
static __thread int my_id = -1;
static char trace[1 << 16]; static int ntrace = 0, want_trace = 0;
static __thread int in_hook = 0;

static void hand_over_from(int id) {
  int i, nxt = -1;
  for (i = 1; i <= nthreads; i++) { int c = (id + i) % nthreads; if (!finished[c]) { nxt = c; break; } }
  current = nxt;
  pthread_cond_broadcast(&cv);
}

static void visible_point(char what) {
  if (!coop || my_id < 0 || in_hook) return;
  in_hook = 1;
  pthread_mutex_lock(&mu);
  point++;
  if (want_trace && ntrace < (int)sizeof(trace) - 2) { trace[ntrace++] = 'a' + my_id; (void)what; }
  if (next_sched < nsched && sched_at[next_sched] == point) {
    next_sched++;
    hand_over_from(my_id);
    while (current != my_id) pthread_cond_wait(&cv, &mu);
  }
  pthread_mutex_unlock(&mu);
  in_hook = 0;
}

static void thread_begin(int id) {
  my_id = id;
  if (!coop) return;
  pthread_mutex_lock(&mu);
  while (current != id) pthread_cond_wait(&cv, &mu);
  pthread_mutex_unlock(&mu);
}

static void thread_end(int id) {
  if (!coop) return;
  in_hook = 1;
  pthread_mutex_lock(&mu);
  finished[id] = 1;
  hand_over_from(id);
  pthread_mutex_unlock(&mu);
  my_id = -1;
}

/* interposed libc entry points (the executable's definitions win over libc's for the shared libraries too);
   the real functions are resolved once, before any thread exists */
static void *(*real_dlopen)(const char *, int);
static int (*real_dlclose)(void *);
static FILE *(*real_fopen)(const char *, const char *);
static int (*real_fclose)(FILE *);
static char *(*real_getenv)(const char *);
__attribute__((constructor)) static void resolve_real(void) {
  real_dlopen = dlsym(RTLD_NEXT, "dlopen");
  real_dlclose = dlsym(RTLD_NEXT, "dlclose");
  real_fopen = dlsym(RTLD_NEXT, "fopen");
  real_fclose = dlsym(RTLD_NEXT, "fclose");
  real_getenv = dlsym(RTLD_NEXT, "getenv");
}
void *dlopen(const char *f, int flags) {
  if (!real_dlopen) resolve_real();
  visible_point('o');
  return real_dlopen(f, flags);
}
int dlclose(void *h) {
  if (!real_dlclose) resolve_real();
  visible_point('c');
  return real_dlclose(h);
}
FILE *fopen(const char *path, const char *mode) {
  if (!real_fopen) resolve_real();
  visible_point('f');
  return real_fopen(path, mode);
}
int fclose(FILE *f) {
  if (!real_fclose) resolve_real();
  visible_point('F');
  return real_fclose(f);
}
char *getenv(const char *name) {
  if (!real_getenv) resolve_real();
  visible_point('e');
  return real_getenv(name);
}

/* ---------------------------------------------------------------- threads mode */
static char *results[32];
static int rounds = 1;

static void *thread_body(void *arg) {
  int id = (int)(long)arg, r;
  my_letter = id;
  thread_begin(id);
  for (r = 0; r < rounds; r++) {
    char *out = run_workload(id + r, (id % 2) ? 256 * 1024 : 0);
    if (results[id]) free(results[id]);
    results[id] = out;
  }
  thread_end(id);
  return NULL;
}

/* ---------------------------------------------------------------- isolation mode */
static const char *PROBE =
  "(let ((p (open-output-string)))"
  " (write (list (guard (e (#t 'unbound)) (eval 'shared-name (interaction-environment)))"
  "              (guard (e (#t 'unbound)) (eval 'only-here (interaction-environment)))"
  "              (guard (e (#t 'no-type)) (eval '(thing? (make-thing 1)) (interaction-environment)))"
  "              (guard (e (#t 'no-table)) (eval '(hash-table-ref/default tbl 'k 'none) (interaction-environment)))"
  "              (eq? (string->symbol \"fresh-sym\") 'fresh-sym)"
  "              (+ (expt 2 70) 1) (string-append \"a\" \"b\") (vector-length (make-vector 10 0))"
  "              (guard (e (#t 'no-feature)) (if (memq 'my-feature (features)) 'feature 'no-feature))"
  "              (guard (e (#t 'no-rs)) (eval '(list (random-source? rs) (exact-integer? ((random-source-make-integers rs) 10)) (exact-integer? (random-integer 10))) (interaction-environment)))"
  "              (guard (e (#t 'no-st)) (eval '(list (file-directory? st) (integer? (time-year tm))) (interaction-environment)))"
  "              (guard (e (#t 'no-port)) (eval '(let ((d (duplicate-file-descriptor kept-fd))) (if d (begin (close-file-descriptor d) 'descriptor-open) 'descriptor-closed)) (interaction-environment)))) p)"
  " (get-output-string p))";

static const char *iso_op(char c, int who) {
  static char buf[400];
  switch (c) {
  case 'd': snprintf(buf, sizeof(buf), "(define shared-name '(defined-by %d))", who); return buf;
  case 'o': snprintf(buf, sizeof(buf), "(define only-here%s %d)", "", who * 100); return buf;
  case 't': return "(define-record-type thing (make-thing v) thing? (v thing-v))";
  case 'h': snprintf(buf, sizeof(buf), "(import (srfi 69)) (define tbl (make-hash-table eq?)) (hash-table-set! tbl 'k 'from-%d)", who); return buf;
  case 'g': return "(let loop ((i 0) (a '())) (if (< i 30000) (loop (+ i 1) (cons (make-vector 20 i) (if (> i 29000) a '()))) (length a)))";
  case 's': return "(define fs (map (lambda (i) (string->symbol (string-append \"fresh-sym\" (number->string i)))) '(1 2 3 4 5 6 7 8)))";
  case 'm': return "(set! shared-name 'mutated)";
  /* libraries whose shared objects register C types: the type ids a context hands out depend on what it loaded before, and the
     loaded code is shared by every context of the process.  r: a random source (srfi 27); c: two other C-typed libraries */
  case 'r': return "(import (srfi 27)) (define rs (make-random-source)) (random-source-pseudo-randomize! rs 1 2)";
  case 'c': return "(import (chibi filesystem) (chibi time)) (define st (file-status \"/\")) (define tm (seconds->time 86400))";
  /* descriptors are process-wide: f opens a descriptor-backed port, reads and closes it explicitly (the descriptor object lives on
     until a collection); k opens a file and keeps it open - the probe reads from it */
  case 'f': return "(import (scheme base) (chibi filesystem) (chibi io)) (define tmp-port (open-input-file-descriptor (open \"/proc/self/status\" open/read))) (read-char tmp-port) (close-input-port tmp-port) (set! tmp-port #f)";
  case 'k': return "(import (scheme base) (chibi filesystem) (chibi io)) (define kept-fd (open \"/proc/self/status\" open/read)) (define kept-port (open-input-file-descriptor kept-fd))";
  }
  return "#f";
}

int main(int argc, char **argv) {
  int i;
  if (argc < 2) die("usage");
  sexp_scheme_init();
  if (!strcmp(argv[1], "solo")) {
    char *o = run_workload(atoi(argv[2]), argc > 3 ? atol(argv[3]) : 0);
    printf("S%d %s\n", atoi(argv[2]), o);
    return 0;
  }
  if (!strcmp(argv[1], "threads") || !strcmp(argv[1], "sched")) {
    pthread_t th[32];
    nthreads = atoi(argv[2]);
    if (nthreads > 32) nthreads = 32;
    if (!strcmp(argv[1], "threads")) {
      rounds = argc > 3 ? atoi(argv[3]) : 1;
      letters = argc > 4 ? atoi(argv[4]) : 0;
    } else {
      const char *s = argc > 3 ? argv[3] : "-";
      coop = 1; current = 0;
      want_trace = argc > 4;
      while (*s && *s != '-' && nsched < 64) {
        char *end; long v = strtol(s, &end, 10);
        if (end == s) break;
        sched_at[nsched++] = v; s = (*end == ',') ? end + 1 : end;
      }
    }
    for (i = 0; i < nthreads; i++) pthread_create(&th[i], NULL, thread_body, (void *)(long)i);
    for (i = 0; i < nthreads; i++) pthread_join(th[i], NULL);
    for (i = 0; i < 3; i++) if (fcntl(i, F_GETFD) == -1) printf("STDCLOSED %d after the threads ended\n", i);
    for (i = 0; i < nthreads; i++) printf("T%d %s\n", i, results[i] ? results[i] : "(null)");
    if (coop) { printf("POINTS %ld\n", point); if (want_trace) { trace[ntrace] = 0; printf("TRACE %s\n", trace); } }
    return 0;
  }
  if (!strcmp(argv[1], "iso")) {
    /* iso <seqA> <seqB> [<seqC>] <interleaving>: contexts are created lazily at their first operation, destroyed by 'x' */
    const char *seq[3] = {argv[2], argv[3], argc > 5 ? argv[4] : ""};
    const char *il = argv[argc - 1];
    sexp ctx[3] = {NULL, NULL, NULL}, env[3] = {NULL, NULL, NULL};
    int pos[3] = {0, 0, 0}, step = 0, dead[3] = {0, 0, 0};
    for (; *il; il++, step++) {
      int w = *il - 'a', j;
      char c;
      if (w < 0 || w > 2 || !seq[w][pos[w]]) continue;
      c = seq[w][pos[w]++];
      if (!ctx[w] && !dead[w]) {
        ctx[w] = sexp_make_eval_context(NULL, NULL, NULL, (w == 1) ? 300 * 1024 : 0, 0);
        env[w] = make_script_env(ctx[w]);
        free(eval_forms(ctx[w], env[w], "(import (scheme base) (scheme write) (scheme eval) (scheme repl))"));
      }
      if (c == 'x') {
        if (ctx[w]) { sexp_destroy_context(ctx[w]); ctx[w] = NULL; dead[w] = 1; }
      } else if (ctx[w]) {
        char *r = eval_forms(ctx[w], env[w], iso_op(c, w));
        if (!strncmp(r, "EXCEPTION", 9) && getenv("CTXMC_DEBUG")) fprintf(stderr, "op %c in context %d: %s\n", c, w, r);
        free(r);
      }
      /* the standard descriptors belong to the process, not to a context: no operation of any context - creating or
         destroying one included - may close them */
      for (j = 0; j < 3; j++)
        if (fcntl(j, F_GETFD) == -1) printf("STDCLOSED %d after step %d (operation %c of context %d)\n", j, step, c, w);
      for (j = 0; j < 3; j++)
        if (ctx[j]) { char *p = eval_forms(ctx[j], env[j], PROBE); printf("P %d %d %s\n", j, pos[j], p); free(p); }
    }
    for (i = 0; i < 3; i++) if (ctx[i]) sexp_destroy_context(ctx[i]);
    return 0;
  }
  die("unknown mode");
  return 0;
}
