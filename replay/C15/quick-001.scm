(import (scheme base) (scheme write) (scheme char) (scheme inexact) (scheme complex) (scheme read) (srfi 69)
        (rename (only (chibi) equal?) (equal? native-equal?)))

(define-record-type Point (make-point x y) point? (x point-x) (y point-y set-point-y!))
(define-record-type Qoint (make-qoint x y) qoint? (x qoint-x) (y qoint-y))

(define write write-simple)
(define (tf r) (cond ((eq? r #t) #\t) ((eq? r #f) #\f) (else #\?)))
(define-syntax c (syntax-rules () ((_ e) (guard (x (#t #\E)) (tf e)))))
(define-syntax put
  (syntax-rules ()
    ((_ i e) (guard (x (#t (vector-set! X i (list 'route-error i)) (display ";;ROUTE-ERROR ") (write i) (display " ")
                           (write (if (error-object? x) (error-object-message x) x)) (newline)))
               (vector-set! X i e)))))

;; nesting in the FIRST slot that the comparison cannot skip (the last slots are fresh, not eq?, pairs)
(define (nest-first-list n leaf) (let lp ((i 0) (acc leaf)) (if (= i n) acc (lp (+ i 1) (list acc 0)))))
(define (nest-first-vector n leaf) (let lp ((i 0) (acc leaf)) (if (= i n) acc (lp (+ i 1) (vector acc (list 0))))))
;; nesting in the LAST slot
(define (nest-last-list n leaf) (let lp ((i 0) (acc leaf)) (if (= i n) acc (lp (+ i 1) (cons 0 acc)))))
(define (nest-last-vector n leaf) (let lp ((i 0) (acc leaf)) (if (= i n) acc (lp (+ i 1) (vector 0 acc)))))
;; width: n fresh pointer elements, only the last differs
(define (wide-list n leaf) (let lp ((i 1) (acc (list leaf))) (if (>= i n) acc (lp (+ i 1) (cons (string #\a) acc)))))
(define (wide-vector n leaf) (let ((v (make-vector n #f))) (do ((i 0 (+ i 1))) ((= i n)) (vector-set! v i (string #\a))) (vector-set! v (- n 1) leaf) v))
(define (leaf-a) (list (string #\a)))
(define (leaf-b) (list (string #\b)))
(define-syntax t
  (syntax-rules ()
    ((_ name mk n)
     (let ((a (mk n (leaf-a))) (a2 (mk n (leaf-a))) (b (mk n (leaf-b))))
       (display name) (write-char #\space) (write n) (write-char #\space)
       (write-char (c (native-equal? a a2))) (write-char (c (native-equal? a b))) (write-char (c (native-equal? b a)))
       (write-char #\space)
       (write-char (c (equal? a a2))) (write-char (c (equal? a b))) (write-char (c (equal? b a)))
       (write-char #\space)
       (write-char (c (eqv? a a2))) (write-char (c (eqv? a a)))
       (write-char #\space)
       (write-char (c (= (hash a) (hash a2))))
       (newline)))))
(define-syntax all
  (syntax-rules ()
    ((_ n) (begin (t "first-list" nest-first-list n) (t "first-vector" nest-first-vector n)
                  (t "last-list" nest-last-list n) (t "last-vector" nest-last-vector n)
                  (t "wide-list" wide-list n) (t "wide-vector" wide-vector n)))))
(all 10001)
;; expected per line: tff tff ft t
;; observed alone: first-list 10001 ttt tff ft t
first-vector 10001 ttt tff ft t
last-list 10001 tff tff ft t
last-vector 10001 tff tff ft t
wide-list 10001 tff tff ft t
wide-vector 10001 tff tff ft t
