;; C15(b) eq? table, SRFI 69 names, pre-filled with 122 entries; history: hash-table-update! (no thunk) K0
;; keys: K0,K1 = two (list 1 2), K2/K3 = two "key" strings, K4/K5 = two symbols sharing a bucket of hash-by-identity
(import (scheme base) (scheme write) (scheme char) (srfi 69))
(define write write-simple)
(define (p x) (write x) (write-char #\space))
(define (u) (write-string "_ "))
(define-syntax pe (syntax-rules () ((_ e) (guard (x (#t (write-string "E "))) (p e)))))
(define-syntax pe* (syntax-rules () ((_ e) (guard (x (#t (write-string "E "))) e))))
(define-syntax ue (syntax-rules () ((_ e) (guard (x (#t (write-string "E "))) e (u)))))
(define (f+ x) (+ x 10))
(define NFILL 122)
(define (MK) (make-hash-table eq?))
(define F (let ((v (make-vector NFILL #f))) (do ((i 0 (+ i 1))) ((= i NFILL) v) (vector-set! v i (string->symbol (string-append "f" (number->string i)))))))
(define K (vector (list 1 2) (list 1 2) "key" (let ((s (string-copy "k\x20ac;y"))) (string-set! s 1 #\e) s) #f #f))
(define CLS '#(0 1 2 3 4 5))
;; two keys that share a bucket: search the candidates for a pair whose hashes agree modulo the largest
;; bucket count possible (the bucket counts are 23*2^n)
(define NC 400)
(define C (let ((v (make-vector NC #f))) (do ((i 0 (+ i 1))) ((= i NC) v) (vector-set! v i (string->symbol (string-append "c" (number->string i)))))))
(define H (let ((v (make-vector NC #f))) (do ((i 0 (+ i 1))) ((= i NC) v) (vector-set! v i (hash-by-identity (vector-ref C i) 11776)))))
(define COLLIDE-MOD
  (let try ((m 11776))
    (if (< m 23)
        0
        (let ((hit (let lpi ((i 0))
                     (and (< i NC)
                          (or (let lpj ((j (+ i 1)))
                                (and (< j NC)
                                     (if (= (modulo (vector-ref H i) m) (modulo (vector-ref H j) m)) (cons i j) (lpj (+ j 1)))))
                              (lpi (+ i 1)))))))
          (if hit
              (begin (vector-set! K 4 (vector-ref C (car hit))) (vector-set! K 5 (vector-ref C (cdr hit))) m)
              (try (quotient m 2)))))))
(write-string ";;COLLIDE ") (write COLLIDE-MOD)
(write-string " ") (write (list (hash-by-identity (vector-ref K 4) 23) (hash-by-identity (vector-ref K 5) 23) (hash-by-identity (vector-ref K 4) 46) (hash-by-identity (vector-ref K 5) 46)))
(newline)
(define (k j) (vector-ref K j))
(define (kindex key) (let lp ((j 0)) (cond ((= j 6) #f) ((eq? key (vector-ref K j)) j) (else (lp (+ j 1))))))
(define T #f)
(define OLDS '())
(define (other) (let ((o (MK))) (hash-table-set! o (k 1) 7) (hash-table-set! o (k 5) 8) o))
(define (insert-sorted v ls) (cond ((null? ls) (list v)) ((and (number? v) (number? (car ls)) (> v (car ls))) (cons (car ls) (insert-sorted v (cdr ls)))) (else (cons v ls))))
(define d-slots (make-vector 6 '()))
(define d-fc 0) (define d-fs 0) (define d-bad '())
(define (dump-start) (vector-fill! d-slots '()) (set! d-fc 0) (set! d-fs 0) (set! d-bad '()))
(define (dump-entry key v)
  (cond ((and (exact-integer? v) (>= v 1000) (< v (+ 1000 NFILL)) (eqv? key (vector-ref F (- v 1000))))
         (set! d-fc (+ d-fc 1)) (set! d-fs (+ d-fs v)))
        ((kindex key) => (lambda (j) (let ((c (vector-ref CLS j))) (vector-set! d-slots c (insert-sorted v (vector-ref d-slots c))))))
        (else (set! d-bad (cons (cons key v) d-bad)))))
(define (dump-finish)
  (do ((c 0 (+ c 1))) ((= c 6))
    (for-each (lambda (v) (write c) (write-char #\:) (write v) (write-char #\;)) (vector-ref d-slots c)))
  (write-char #\F) (write d-fc) (write-char #\:) (write d-fs)
  (if (pair? d-bad) (begin (write-char #\?) (write d-bad)))
  (write-char #\space))
(define (dump-alist al)
  (dump-start) (for-each (lambda (e) (dump-entry (car e) (cdr e))) al) (dump-finish))
(define (dump-table t)
  (dump-start) (hash-table-walk t dump-entry) (dump-finish))
;; medium check: every filler is looked up (count and sum of those found with their value); no bucket walk
(define (medium-check t)
  (let lp ((i 0) (n 0) (s 0))
    (if (< i NFILL)
        (let ((v (hash-table-ref/default t (vector-ref F i) 'gone)))
          (if (eqv? v (+ 1000 i)) (lp (+ i 1) (+ n 1) (+ s v)) (lp (+ i 1) n s)))
        (begin (write-char #\M) (write n) (write-char #\:) (write s) (write-char #\space)))))
;; light check used on large tables when the operation cannot have touched the fillers: three filler probes
(define (light-check t)
  (write-char #\L)
  (if (> NFILL 0)
      (for-each (lambda (i) (write (hash-table-ref/default t (vector-ref F i) 'gone)) (write-char #\,))
                (list 0 (quotient NFILL 2) (- NFILL 1))))
  (write-char #\space))
(define OPS (vector
  (lambda (j) (hash-table-set! T (k j) (+ j 1)) (u)) ; 0 set
  (lambda (j) (p (hash-table-ref T (k j) (lambda () 'nf)))) ; 1 ref
  (lambda (j) (pe (hash-table-ref T (k j)))) ; 2 refx
  (lambda (j) (p (hash-table-ref/default T (k j) 'd))) ; 3 refd
  (lambda (j) (p (hash-table-exists? T (k j)))) ; 4 has
  (lambda (j) (hash-table-delete! T (k j)) (u)) ; 5 del
  (lambda (j) (hash-table-update! T (k j) f+ (lambda () 0)) (u)) ; 6 upd
  (lambda (j) (ue (hash-table-update! T (k j) f+))) ; 7 updx
  (lambda (j) (hash-table-update!/default T (k j) f+ 0) (u)) ; 8 updd
  (lambda (j) (hash-table-update! T (k 4) f+ (lambda () (hash-table-size T))) (u)) ; 9 updz
  (lambda (j) (p (hash-table-size T))) ; 10 size
  (lambda (j) (set! OLDS (cons T OLDS)) (set! T (hash-table-copy T)) (u)) ; 11 copy
  (lambda (j) (set! T (hash-table-merge! T (other))) (u)) ; 12 merge
  (lambda (j) (pe* (dump-alist (hash-table->alist T)))) ; 13 alist
  (lambda (j) (pe (hash-table-fold T (lambda (k v a) (+ v a)) 0))) ; 14 fold
  (lambda (j) (pe* (let ((al '())) (hash-table-walk T (lambda (k v) (set! al (cons (cons k v) al)))) (dump-alist al)))) ; 15 walk
  (lambda (j) (pe* (dump-alist (map (lambda (x) (cons x (hash-table-ref/default T x 'gone))) (hash-table-keys T))))) ; 16 keys
  (lambda (j) (pe (apply + (hash-table-values T)))) ; 17 vals
))
(define (do-op code) ((vector-ref OPS (quotient code 8)) (remainder code 8)))
(define (run-one r)
  ;; r = #(rotation dump-mode mutator-code-or--1 prefix-code ...)
  (set! T (MK)) (set! OLDS '())
  (do ((i 0 (+ i 1))) ((= i NFILL)) (hash-table-set! T (vector-ref F i) (+ 1000 i)))
  (do ((i 3 (+ i 1))) ((= i (vector-length r))) (do-op (vector-ref r i)))
  (write-string "| ")
  (if (>= (vector-ref r 2) 0) (do-op (vector-ref r 2)))
  (write-string "| ")
  (let* ((rd (if (>= (vector-ref r 2) 0) LIGHT-READS READS)) (n (vector-length rd)) (rot (vector-ref r 0)))
    (do ((i 0 (+ i 1))) ((= i n)) (do-op (vector-ref rd (modulo (+ i rot) n)))))
  (write-string "| ")
  (case (vector-ref r 1)
    ((1) (pe* (dump-table T))
         (for-each (lambda (o) (write-char #\/) (pe* (dump-table o))) (reverse OLDS)))
    ((2) (pe* (medium-check T))
         (for-each (lambda (o) (write-char #\/) (pe* (medium-check o))) (reverse OLDS)))
    (else (pe* (light-check T)))))
(define (run-all runs)
  (do ((i 0 (+ i 1))) ((= i (vector-length runs)))
    (guard (x (#t (write-string "!X ") (write (if (error-object? x) (error-object-message x) x))))
      (run-one (vector-ref runs i)))
    (newline)))

(define READS '#(8 9 10 11 12 13 16 17 18 19 20 21 24 25 26 27 28 29 32 33 34 35 36 37 80 104 112 120 128 136))
(define LIGHT-READS '#(8 9 10 11 12 13 80))
(run-all '#(
#(5 0 56 )
))
;; expected: | E | nf 122 nf nf nf nf nf | L1000,1061,1121,
;; tokens: results of the history ops | result of the last op | reads: ref.K5 size.K0 ref.K0 ref.K1 ref.K2 ref.K3 ref.K4 | contents as class:value; F<fillers>:<sum>
;; observed: | E | nf 123 (not-found) nf nf nf nf | L1000,1061,1121,
