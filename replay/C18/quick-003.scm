(import (scheme base) (scheme write) (srfi 133))
(let ((a (vector 0)) (b (vector )))
  (write (vector-count < a b)))
(newline)
;; expected: 0
