(import (scheme base) (scheme write) (chibi base64) (chibi quoted-printable) (chibi uri))

(define hex-tab
  (let ((v (make-vector 256)) (d "0123456789abcdef"))
    (do ((i 0 (+ i 1))) ((= i 256) v)
      (vector-set! v i (string (string-ref d (quotient i 16)) (string-ref d (remainder i 16)))))))
(define (put-hex bv)
  (let ((n (bytevector-length bv)))
    (do ((i 0 (+ i 1))) ((= i n))
      (write-string (vector-ref hex-tab (bytevector-u8-ref bv i))))))
(define (put x)
  (cond ((bytevector? x) (write-char #\b) (put-hex x))
        ((string? x) (write-char #\s) (put-hex (string->utf8 x)))
        (else (write-char #\?))))
(define (sp) (write-char #\space))
(define-syntax try
  (syntax-rules () ((_ e) (guard (x (#t (write-char #\E))) (put e)))))
;; round trip: '=' when the decoded value equals the original, else the dump
(define-syntax rt
  (syntax-rules () ((_ orig e) (guard (x (#t (write-char #\E)))
                                 (let ((r e)) (if (equal? r orig) (write-char #\=) (put r)))))))
;; encode once, dump the encoding, then '=' when decoding it gives the original back (else the dump);
;; "E -" when the encoder itself raised
(define-syntax codec
  (syntax-rules ()
    ((_ orig enc-expr e dec-expr)
     (guard (x (#t (write-char #\E) (sp) (write-char #\-)))
       (let ((e enc-expr))
         (put e) (sp)
         (guard (x (#t (write-char #\E)))
           (let ((r dec-expr)) (if (equal? r orig) (write-char #\=) (put r)))))))))
(define (touch r)
  (cond ((bytevector? r) (write-char #\b) (write (bytevector-length r)))
        ((string? r) (write-char #\s) (write (string-length r)))
        (else (write-char #\o))))
(define-syntax tot
  (syntax-rules () ((_ e) (guard (x (#t (write-char #\E))) (touch e)))))
(define (latin1 bv)
  (let* ((n (bytevector-length bv)) (o (open-output-string)))
    (do ((i 0 (+ i 1))) ((= i n) (get-output-string o))
      (write-char (integer->char (bytevector-u8-ref bv i)) o))))
(define (digits->bytes al i len)
  (let ((k (vector-length al)) (bv (make-bytevector len 0)))
    (let lp ((i i) (p (- len 1)))
      (if (< p 0) bv
          (begin (bytevector-u8-set! bv p (vector-ref al (remainder i k)))
                 (lp (quotient i k) (- p 1)))))))
(define (digits->string al i len)
  (let ((k (vector-length al)))
    (let lp ((i i) (n len) (acc '()))
      (if (= n 0) (apply string-append acc)
          (lp (quotient i k) (- n 1) (cons (vector-ref al (remainder i k)) acc))))))
(define INPUTS (vector ""
"A"
" "
"\xe9;"
"\xff;"
"\x100;"
"\x20ac;"
"\xfffd;"
"\x10000;"
"\x1f600;"
"\x10ffff;"
"AA"
"A "
"A\xe9;"
"A\xff;"
"A\x100;"
"A\x20ac;"
"A\xfffd;"
"A\x10000;"
"A\x1f600;"
"A\x10ffff;"
" A"
"  "
" \xe9;"
" \xff;"
" \x100;"
" \x20ac;"
" \xfffd;"
" \x10000;"
" \x1f600;"
" \x10ffff;"
"\xe9;A"
"\xe9; "
"\xe9;\xe9;"
"\xe9;\xff;"
"\xe9;\x100;"
"\xe9;\x20ac;"
"\xe9;\xfffd;"
"\xe9;\x10000;"
"\xe9;\x1f600;"
"\xe9;\x10ffff;"
"\xff;A"
"\xff; "
"\xff;\xe9;"
"\xff;\xff;"
"\xff;\x100;"
"\xff;\x20ac;"
"\xff;\xfffd;"
"\xff;\x10000;"
"\xff;\x1f600;"
"\xff;\x10ffff;"
"\x100;A"
"\x100; "
"\x100;\xe9;"
"\x100;\xff;"
"\x100;\x100;"
"\x100;\x20ac;"
"\x100;\xfffd;"
"\x100;\x10000;"
"\x100;\x1f600;"
"\x100;\x10ffff;"
"\x20ac;A"
"\x20ac; "
"\x20ac;\xe9;"
"\x20ac;\xff;"
"\x20ac;\x100;"
"\x20ac;\x20ac;"
"\x20ac;\xfffd;"
"\x20ac;\x10000;"
"\x20ac;\x1f600;"
"\x20ac;\x10ffff;"
"\xfffd;A"
"\xfffd; "
"\xfffd;\xe9;"
"\xfffd;\xff;"
"\xfffd;\x100;"
"\xfffd;\x20ac;"
"\xfffd;\xfffd;"
"\xfffd;\x10000;"
"\xfffd;\x1f600;"
"\xfffd;\x10ffff;"
"\x10000;A"
"\x10000; "
"\x10000;\xe9;"
"\x10000;\xff;"
"\x10000;\x100;"
"\x10000;\x20ac;"
"\x10000;\xfffd;"
"\x10000;\x10000;"
"\x10000;\x1f600;"
"\x10000;\x10ffff;"
"\x1f600;A"
"\x1f600; "
"\x1f600;\xe9;"
"\x1f600;\xff;"
"\x1f600;\x100;"
"\x1f600;\x20ac;"
"\x1f600;\xfffd;"
"\x1f600;\x10000;"
"\x1f600;\x1f600;"
"\x1f600;\x10ffff;"
"\x10ffff;A"
"\x10ffff; "
"\x10ffff;\xe9;"
"\x10ffff;\xff;"
"\x10ffff;\x100;"
"\x10ffff;\x20ac;"
"\x10ffff;\xfffd;"
"\x10ffff;\x10000;"
"\x10ffff;\x1f600;"
"\x10ffff;\x10ffff;"))

(define (case-at i)
  (let ((ls (vector-ref INPUTS i)))
    (try (uri-encode ls)) (sp) (rt ls (uri-decode (uri-encode ls)))))

(define FLUSH #t)
(do ((i 5 (+ i 1))) ((= i 6))
  (write-char #\>)
  (case-at i)
  (newline)
  (if FLUSH (flush-output-port)))
