#!/usr/bin/env python3
"""Regenerates MANIFEST.json from the table below (kept here so that the manifest stays valid and in step)."""
import json, os, subprocess
VERIF = os.path.dirname(os.path.dirname(os.path.abspath(__file__)))

CHECKS = {
    # id: (category, technique, text, note, design_ref)
    "C04": ("exploration", "bounded-exhaustive enumeration of operand lattice pairs against a Python int/Fraction oracle",
            "Every ordered pair of a 220-value (thorough: 328) integer boundary lattice x 22 binary operations, every pair of a rational "
            "lattice, every lattice value x radix 2..36 both ways, exact<->inexact on representable values, a fixed 1000-4000 bit family "
            "and triples for variadic folds are evaluated by the real interpreter and compared digit for digit (plus canonical-form tag: "
            "fixnum iff it fits, ratio in lowest terms) with CPython integers/Fractions. Exhaustive over the stated lattice, nothing beyond it.",
            "Trusts CPython big integers and the decimal reader/writer that carries operands; lattice values only.", "DESIGN.md §4 C04"),
}

NOT_YET = {}


def main():
    props = [json.loads(l) for l in open(os.path.join(VERIF, "properties.jsonl"))]
    try:
        commits = subprocess.run(["git", "-C", "/repo", "log", "--format=%h %s", "--grep=^verif hook"], stdout=subprocess.PIPE,
                                 text=True).stdout.strip().split("\n")
        commits = [c.split()[0] for c in commits if c]
    except Exception:
        commits = []
    checks = []
    for pid, (cat, tech, text, note, ref) in sorted(CHECKS.items()):
        checks.append({
            "property_id": pid,
            "quick_cmd": "./check %s quick" % pid,
            "thorough_cmd": "./check %s thorough" % pid,
            "evidence_file": "/verif/evidence/%s.json" % pid,
            "replay_cmd_template": "./check %s --replay {path}" % pid,
            "engine": "mc/props/%s.py" % pid.lower(),
            "level_claimed": {"category": cat, "text": text, "design_ref": ref},
            "level_note": note,
            "technique": tech,
        })
    na = []
    for p in props:
        if p["id"] not in CHECKS:
            na.append({"property_id": p["id"], "reason": NOT_YET.get(p["id"], "check not built yet in this round; the planned bounded-exhaustive design is in DESIGN.md §4 " + p["id"])})
    m = {
        "version": 1,
        "setup_cmd": "python3 mc/build.py opt asan nosimp cll tsan",
        "hooks": {
            "guard": "CHIBI_VERIF",
            "enable": "mc/build.py compiles /repo's working tree out-of-tree into /verif/build/<variant>/ with -DCHIBI_VERIF=1; harnesses install the call-outs of include/chibi/verif.h",
            "baseline_off_cmd": "mc/baseline.sh /repo",
            "source_commits": commits,
            "add_only": True,
        },
        "engines": [
            {"name": "evalbatch", "path": "harness/evalbatch.c", "serves_properties": sorted(CHECKS), "kind_free_text": "embedding driver + fork server: one context, every form evaluated through the C API, GC schedule / poisoning / instruction budget / thread schedule through the CHIBI_VERIF call-outs"},
            {"name": "mc", "path": "mc/", "serves_properties": sorted(CHECKS), "kind_free_text": "Python enumerators, reference models and explorers"},
        ],
        "checks": checks,
        "not_applicable": na,
        "notes": "See DESIGN.md. known_findings.json lists genuine defects (fixed ones suppress nothing).",
    }
    with open(os.path.join(VERIF, "MANIFEST.json"), "w") as fh:
        json.dump(m, fh, indent=1)


if __name__ == "__main__":
    main()
