#!/usr/bin/env python3
"""Regenerates MANIFEST.json from the table below (kept here so that the manifest stays valid and in step)."""
import json, os, subprocess
VERIF = os.path.dirname(os.path.dirname(os.path.abspath(__file__)))

CHECKS = {
    # id: (category, technique, text, note, design_ref)
    "C04": ("exploration", "bounded-exhaustive enumeration of operand lattice pairs against a Python int/Fraction oracle",
            "Every ordered pair of a 220-value (thorough: 328) integer boundary lattice x 22 binary operations, every pair of a rational "
            "lattice, a family of rounding ties and near-ties (k+1/2, k+1/4, k+3/4, k+1/2 +- 1/(2^64+1) for even and odd k at every limb boundary) through the rounding operations, every lattice value x radix 2..36 both ways, exact<->inexact on representable values, a fixed 1000-4000 bit family "
            "and triples for variadic folds are evaluated by the real interpreter and compared digit for digit (plus canonical-form tag: "
            "fixnum iff it fits, ratio in lowest terms) with CPython integers/Fractions. Exhaustive over the stated lattice, nothing beyond it.",
            "Trusts CPython big integers and the decimal reader/writer that carries operands; lattice values only.", "DESIGN.md §4 C04"),
}

CHECKS.update({
    "C17": ("exploration", "bounded-exhaustive enumeration of operand/shift/field lattices against Python two's-complement integers",
            "Every ordered pair of the integer boundary lattice x 12 binary bitwise operations of SRFI 151, every value x shift and bit-index "
            "lattice (both directions across word multiples), every value x (start,end) field lattice x 8 field operations, replace / "
            "bitwise-if / n-ary folds over the small lattice cubed and a fixed 1000-4000 bit family, compared with CPython's unbounded "
            "two's-complement integers, including the canonical fixnum/bignum form of each result.",
            "Trusts CPython integers; lattice values only; an empty field for bit-field-rotate and 3-argument bitwise-eqv are not asserted.",
            "DESIGN.md §4 C17"),
    "C02": ("fault_enumeration", "exhaustive enumeration of forced-collection points (every allocation index, all-positions, every n-th) on the real interpreter under ASan with poisoned free memory",
            "For each workload (closures/lists, procedures outliving their environment, 101 kinds of C-made error object incl. bad arguments "
            "to FFI stubs, strings and ports, bignums/ratios/flonums, continuations/dynamic-wind/exceptions/parameters, "
            "eval + syntax-rules, hash tables/sort/bit ops, json/reader/writer/files/FFI stubs, SRFI-18 threads, FFI stub libraries and custom ports (clibs), "
            "AST/type introspection, disassembler, ephemerons and C sort callbacks (cast), stack growth inside C callbacks (growstack), two micro workloads) the "
            "collection schedule is the only thing varied: a collection before every allocation, every n-th, and one collection before "
            "allocation k for every k (micro workloads; all workloads in the thorough tier; strided otherwise), for several initial heap sizes. "
            "Oracle: output byte-identical to the schedule-free baseline and no AddressSanitizer report, with every free chunk and the slack "
            "after every object poisoned so that a swept object that is still used faults at its first touch.",
            "Workloads fix the programs; the boot window before the language is loaded is not scheduled; trusts ASan + the poisoning plugin.",
            "DESIGN.md §4 C02"),
    "C11": ("model_checking", "stateless model checking of the real VM and SRFI-18 scheduler under a controlled scheduler with iterative pre-emption bounding (CHESS style) and a virtual clock",
            "14 drivers (2-5 green threads sharing one mutex / condition variable / counter: lock-increment-unlock, producer-consumer with "
            "mutex-unlock!+condvar, broadcast, timed lock and timed wait racing their events, joins with and without timeout, two joiners "
            "of one thread next to an older waiter, terminate of a blocked thread, sleeps, a sleeper whose last wait was on the object another "
            "thread waits for (mutex and condition variable), per-thread parameters and dynamic-wind, yield storm). Every schedule with at most k deviations "
            "(k=2 quick, up to 3 thorough) is executed on the implementation; a deviation ends the running thread's time slice before a chosen "
            "visible instruction, optionally after advancing the virtual clock so that pending timeouts fire. Checked on every execution: "
            "critical-section occupancy never exceeds one, every waiter resumes, every started thread finishes and join delivers its "
            "result, no deadlock or livelock (no runnable thread / watchdog), and the mutex-protected drivers print the same final state.",
            "Pre-emption is only placed before instructions that touch shared memory, do I/O or call foreign code; the next thread is chosen by "
            "the real scheduler; gettimeofday/usleep are interposed by the harness executable.", "DESIGN.md §4 C11"),
    "C03": ("exploration", "bounded-exhaustive program enumeration checked against an independent definitional (CEK) interpreter",
            "Every variable-capture skeleton (12 binder kinds x 11 roles incl. captured+mutated, mutated-only, shadowed, forward-referenced "
            "internal define, rest parameters, escaping closures x depth <= 4 x position, and all role pairs for two variables of one frame) "
            "and every derived-form expression up to a size bound (cond/=>/else, case, and/or/when/unless, do, named let, nested quasiquote "
            "with splicing, apply, values/call-with-values, arity errors), the scope matrix of the binding forms when the bound name or loop "
            "name has an outer binding, forward references between internal definitions through every kind of <init>, case with flonum / "
            "bignum / ratio keys, and programs with top-level forms (redefinition uses the old value, R7RS 5.3.1) is compiled and run by the real interpreter and evaluated by the "
            "reference machine mc/models/refscheme.py; printed value, observation trace and error outcome must agree.",
            "The oracle is my reading of R7RS encoded in refscheme.py; operand evaluation order and unspecified values are factored out.",
            "DESIGN.md §4 C03"),
    "C06": ("model_checking", "exhaustive enumeration of control scripts up to a node bound, each executed on the implementation and on a reference machine implementing the R7RS wind/handler/parameter model",
            "All scripts with <= 4 nodes (quick; 5 thorough, plus one more node over a reduced alphabet) over dynamic-wind, parameterize "
            "(with and without converter), with-exception-handler whose handler returns / escapes through a captured continuation / "
            "re-raises, guard with and without a matching clause, capture and bounded invocation of two continuations (from inside, from "
            "outside and generator-style re-entry after the extent was left), raise, raise-continuable and parameter reads. The recorded "
            "event trace (before/after thunks, handler entries with the parameter value they see, values returned to raise-continuable, "
            "values delivered to captured continuations) must equal the trace of the reference machine.",
            "Oracle: refscheme.py (R7RS 6.10, 4.2.6, 6.11, reference guard of 7.3); continuation use inside before/after thunks and "
            "cross-thread continuations are excluded.", "DESIGN.md §4 C06"),
    "C10": ("model_checking", "explicit-state breadth-first exploration of alloc/link/clear/gc histories on the real allocator with a heap-walk invariant checker, plus lasso (cycle) detection for boundedness",
            "harness/heapmc.c drives sexp_alloc/sexp_gc of a bare context: all histories to depth 4 (quick) / 5 (thorough) over 40 "
            "operations (10 object shapes from one chunk to five times the heap into 3 root slots, link, clear, gc; no allocation may fail, the heap has no size limit) from several initial heap "
            "sizes, de-duplicated on the exact tiling of every heap segment plus the root/link graph. After every transition and every "
            "collection: chunks tile each segment exactly, the free list is address-ordered, non-overlapping, 32-byte granular and fully "
            "coalesced after a sweep, no mark bit survives, every slot of every live object designates the start of a live object, and after "
            "gc the live bytes equal the boot constant plus the model's reachable bytes. Every final-frontier state is churned until its heap "
            "state repeats (bounded for ever). The same checker runs at every collection of 10 workloads and the repository's own test files, "
            "and churn programs with bounded live data (mixed object kinds; requests in ascending, descending and alternating sizes, so that a collection is triggered by a request larger than every single dead object) must reach a heap-size fixpoint and stay below a fixed bound.",
            "The checker shares the type table with the collector; states are identified by two 64-bit hashes of the key.", "DESIGN.md §4 C10"),
    "C09": ("exploration", "bounded-exhaustive differential enumeration across build variants (default vs SEXP_USE_SIMPLIFY=0 vs SEXP_USE_CUSTOM_LONG_LONGS=1) plus exhaustive helper-level comparison with native __int128",
            "Every program of the C03 generators and of a generator aimed at what the simplifier touches (all-literal arithmetic incl. "
            "fixnum overflow, division by zero and non-numeric literals; constant-bound lets with shadowing, assignment, capture, non-use; "
            "literal and propagated tests; value-only statements next to effectful ones in non-tail positions; rest parameters unused / read / "
            "only assigned / captured) is run on the default build and on a build without the simplification pass, the arithmetic ones also on "
            "the 128-bit-emulation build; outputs must be identical. harness/cllcheck.c compares all 20 portable 128-bit helpers with native "
            "__int128 on all pairs of a 2401-value limb lattice and all shift counts (3.6e7 evaluations).",
            "The default build is the reference side (C03 ties it to R7RS); unbound variables in value-only positions are excluded.",
            "DESIGN.md §4 C09"),
    "C05": ("exploration", "bounded-exhaustive enumeration of tail-context compositions with a stack-top invariant, and of recursion depths over a boundary lattice",
            "All nestings (depth <= 2 quick, 3 thorough) of 24 tail contexts (if arms, cond clause/else/=>, case clause/else/=>, and, or, when, "
            "unless, let, let*, letrec, letrec*, let-values, let*-values, begin, do result, named let, lambda body, case-lambda clause, internal "
            "define body) around a loop call for 5 callee shapes (self, mutual, variadic, apply with 0/1 leading arguments): the VM's "
            "published stack top sampled inside the loop at iterations 1,2,3,50 must be constant from the second iteration on, and every "
            "single context also runs 3e5 (1e7 thorough) iterations. Non-tail recursion over a depth lattice (around every stack doubling, up "
            "to 2e6) x frame shapes: exact sum or exactly the out-of-stack error object, monotone in depth, and the same context evaluates a "
            "fixed probe program correctly afterwards.",
            "Relies on the VM publishing its stack top before foreign calls; call/cc and call-with-values are not among the property's contexts.",
            "DESIGN.md §4 C05"),
    "C07": ("exploration", "bounded-exhaustive metamorphic enumeration: every admissible consistent renaming of user variables in a library of macro-use programs",
            "32 macro-use templates (syntax-rules binding-introducing / free-reference / nested ellipsis / literals / macro-defining macro, "
            "er-, sc- and rsc-macro-transformer versions, let-syntax, letrec-syntax, nested uses, user variables in the position where a macro "
            "- also cond, case, guard - looks for a literal, compound ellipsis templates of a let-syntax / letrec-syntax defined under the user's bindings) x 6 binding forms x {first, second, both} "
            "user variable x every admissible target among 76 names (fresh names, every identifier occurring in a macro template or "
            "transformer, core keywords incl. _ and ..., standard procedures). The renamed program must print exactly what the original "
            "prints, and the original must print the hand-derived value. Family forward-*: macros (syntax-rules, er, sc; call and value position) that insert a global defined only after the use site was compiled x 3 binding sites x renamings of the user variable to that very name.",
            "A target is skipped when the user code itself mentions that identifier or when it would shadow a keyword needed to classify the "
            "definitions of the same body (both are outside what R7RS defines).", "DESIGN.md §4 C07"),
    "C14": ("model_checking", "explicit-state exploration of the import-set algebra: every import-set expression up to a nesting bound executed by the real library system and compared name by name with a set-algebra model",
            "States are identifier maps reached from the export set of a generated library (plain exports, an export renamed from a private "
            "name, a prefixed name) by only / except (all subsets of size <= 3 / 2, and the two import sets that expose nothing), rename (single, double, swap, "
            "chain), prefix and drop-prefix (one exported name is spelled exactly like the prefix), nesting depth 3 (quick) / 4 (thorough); every expression is handed to `environment` and queried for every name "
            "of the universe (original, private, renamed, prefixed, unrelated). A fixed scenario checks that private helpers behind an exported "
            "macro stay invisible while the macro works (also through a re-exporting library and a nested macro), that re-exports denote the "
            "exporting library's binding, and that all importers share one instance of a library's state (body evaluated once). Scenario 2: exported macros of every transformer kind (syntax-rules, er, sc with and without free names, rsc, anaphoric) that use private definitions and wrap user code x 4 routes by which the importer holds other bindings under the same names (76 lines).",
            "Import sets that are an error in R7RS (absent identifier, duplicates) are not generated; drop-prefix is modelled from its documentation.",
            "DESIGN.md §4 C14"),
    "C16": ("model_checking", "explicit-state exploration of ephemeron / port histories with a collection possible at every position, against a reachability model",
            "harness/ephmc.c explores every history of <= 6 (7 thorough) operations over 27 operations (new key, new ephemeron with value = "
            "fresh object / other key / other ephemeron / list holding its own key / list holding the other key, drop key, drop ephemeron, gc; one level shallower over 39 operations, the 12 extra ones creating ephemerons with an immediate key) on the real collector under "
            "ASan with freed memory poisoned, once with a one-segment heap and once (one level shallower) with a second, last segment while the "
            "objects live in the first; after every step: never broken while the key is strongly reachable, broken after the collection "
            "that finds it unreachable, value intact while the key lives. scheme/weak/fds.scm runs every history of <= 5 port operations "
            "(open, read, close, drop, gc) checking the number of open descriptors after every step, 700 unclosed unreferenced ports under "
            "RLIMIT_NOFILE=64, and ports held only as ephemeron values; scheme/weak/fds2.scm runs every history of <= 4 operations over two "
            "slots x {file port, port on a descriptor object, bare descriptor object closed explicitly, descriptor object whose close(2) fails because its number was closed by raw number}: nothing reachable is ever closed "
            "(exact lower bound, readability), nothing unreachable stays open beyond a small lag.",
            "The harness owns all roots; /proc/self/fd is the descriptor oracle; weak hash tables are not exported by the pinned (chibi weak).",
            "DESIGN.md §4 C16"),
})

CHECKS.update({
    "C01": ("exploration", "bounded-exhaustive enumeration of primitive calls, reader inputs and nesting depths on an AddressSanitizer build with the Scheme heap poisoned outside live objects",
            "(1) every procedure exported by the 14 R7RS-small libraries (found by introspection, 343 procedures) plus the string-cursor "
            "primitives applied to every argument tuple over a 67-value alphabet (arity <= 2; a 12-value core for a third argument): each call "
            "must end in a value or an exception object caught by guard, and after every batch a fixed probe program must evaluate as in a "
            "pristine context; (2) read, (scheme read), string->number (radix 2, 10, 16) and eval on all byte strings up to length 3 (4 thorough) "
            "over a 38-symbol reader alphabet incl. invalid UTF-8 bytes (a guarded eval must return exactly once); (2b) every sequence of <= 3 "
            "datum-label tokens (#N=x, #N#) over a 23-value label lattice through both readers with a functional oracle; (2c) strings, "
            "|symbols|, plain symbols, integers, decimals, #\\x characters and bytevectors at every length of a lattice around the reader's "
            "buffer sizes (2^6..2^10, 1200), ending in every kind of escape or multi-byte character; (3) 16 nesting / length families for read, "
            "write, equal?, eval, append, apply (also from a frame some hundred calls deep) up to depth 10^6 on the ASan and the plain build: a "
            "value or a catchable error, never a signal. Violations are an AddressSanitizer report, a fatal signal, abort, a C-level hang, a "
            "call that exhausts 300000 VM instructions although every argument is small (non-termination), a wrong datum, or a probe mismatch.",
            "Calls that legitimately do not terminate or that exhaust memory by contract (e.g. make-vector 2^62) are skipped by a listed rule; "
            "a C stack overflow seen only under ASan's inflated frames is not counted when the plain build ends cleanly.", "DESIGN.md §4 C01"),
    "C13": ("model_checking", "explicit-state exploration of interleaved operation sequences on 2-3 contexts against a solo baseline, plus stateless exploration of OS-thread schedules (pre-emption bounded) at interposed process-wide libc calls, plus a free-running ThreadSanitizer pass",
            "harness/ctxmc.c: (a) two contexts (three in thorough) in one OS thread, every pair of per-context operation sequences over "
            "{define shared name, define private name, record type, import C-backed library + table, allocate through collections, intern "
            "symbols, mutate, destroy} x every interleaving, plus 20 pairs of sequences that load libraries registering C types in different orders and use their objects; after every operation each live context's probe must equal the probe of a context "
            "that lived alone through the same own operations (ASan build). (b) 2-3 pthreads each create a context, load the standard "
            "environment, import libraries, run a collecting workload and destroy it under a cooperative scheduler whose scheduling points are "
            "the interposed dlopen/dlclose/fopen/fclose/getenv calls: every schedule with <= 1 (2 thorough) pre-emptions; outputs equal the "
            "solo baseline. (c) the same bodies free-running under ThreadSanitizer with 2..16 threads: no race report.",
            "sexp_scheme_init() is called once before the threads start; (c) is a detector pass that justifies the choice of scheduling points, "
            "not an enumeration.", "DESIGN.md §4 C13"),
})

CHECKS.update({
    "C08": ("exploration", "bounded-exhaustive metamorphic enumeration read(write(x)) ~ x over constructor-built data spaces through every writer x reader pair, and all short texts through both readers against a datum-grammar recogniser",
            "Data are built inside Scheme by constructors (never through the reader): doubles by bit pattern over an exponent x mantissa "
            "boundary lattice incl. subnormals, infinities, NaNs; every Unicode scalar value as character, 1-character string and "
            "1-character symbol; all strings and symbols up to length 3 (4 thorough) over a 20-character quoting alphabet, each symbol also inside a list, a pair and a vector; integer/rational lattices; a "
            "complex grid; small bytevectors; all trees to a depth; all rooted graphs of <= 3 (4 thorough) pair/vector nodes incl. sharing and "
            "cycles. Each is written by native write, (scheme write) write and write-shared; every distinct text is read by native read and "
            "(scheme read) and compared with the original by a structural comparison in the driver (flonums by their 64 bits, graphs by "
            "bisimulation). All texts up to length 3 (4 thorough) over a 30-symbol reader alphabet: where a conservative recogniser of the R7RS 7.1 grammar "
            "says the text is a datum, both readers must return structurally equal values; elsewhere only totality is required.",
            "The recogniser is conservative (texts it does not recognise are only checked for totality); write-simple on cyclic data is "
            "excluded (non-terminating by specification).", "DESIGN.md §4 C08"),
    "C12": ("model_checking", "explicit-state breadth-first exploration of string operation histories on the real implementation against a list-of-code-points model, de-duplicated on observed representation facts",
            "Initial states: every content of length <= 3 (4 thorough) over {1,2,3,4-byte characters} x 15 construction routes (literal, "
            "make-string, string, list->string, string-append, substring (offset strings), string-copy, utf8->string, ports, symbol->string, "
            "utf8->string! sharing a bytevector at an offset, ...). From every state every operation with every in-range argument "
            "(string-set! with width change, string-fill!, string-copy! incl. overlapping self-copy, substring, append, list/vector/utf8 "
            "round trips with ranges, string ports incl. a real file, cursors, comparisons, immutable strings) is applied; histories of length "
            "<= 2 (3 thorough), de-duplicated on (code points, byte length, store length, offset, immutable flag, producer class) as observed "
            "on the implementation. After every step the code point list, length and bytes must equal the model and be well-formed UTF-8; "
            "run under ASan with the heap slack poisoned. Plus all 1 112 064 scalar values through char/string/utf8/port round trips with a "
            "per-block checksum, and all triples over 21 contents for the ordering predicates.",
            "Alphabet of 4+4 characters; successors holding an alternate character are checked but not expanded (symmetry).", "DESIGN.md §4 C12"),
})

CHECKS.update({
    "C15": ("model_checking", "bounded-exhaustive coherence matrix over (abstract value, construction route) instances plus explicit-state exploration of hash-table operation histories against an association-map model",
            "(a) every ordered pair of instances of a catalogue of abstract values x construction routes (integers around the fixnum/bignum "
            "boundary through different arithmetic paths, ratios, flonums incl. -0.0/NaN, complex, characters, strings by 20 routes incl. "
            "width-changing string-set! and a byte store shared at an offset, symbols, nested lists/vectors/bytevectors/records) is decided by "
            "native equal?, (scheme base) equal?, eqv?, hash, string-hash, string-ci-hash and compared with abstract identity; reflexivity, "
            "symmetry, transitivity and equal? => same hash are checked on the matrix; a cyclic family (oracle: bisimulation) and a depth "
            "family around the 10000-level bound. (b) explicit-state exploration of table histories: all sequences of state-changing operations of length <= 4 "
            "from nearly empty tables, <= 3 / 2 from small / large pre-filled ones (one more each in the thorough tier; SRFI 125: one "
            "less), over 6 collision-forcing keys from tables pre-filled to 19 sizes on both sides of every growth threshold up to 512, 5 equivalences "
            "(eq?, eqv?, equal?, string=?, string-ci=?), SRFI 69 and SRFI 125 names, every observation (ref, size, keys, values, walk, fold, "
            "copy) compared with mc/models/maps.py after every step.",
            "Keys and values are from a small alphabet; histories beyond the stated length are covered only through the pre-filled "
            "starting states. One known finding (string-ci-hash ASCII folding) is listed in known_findings.json.", "DESIGN.md §4 C15"),
    "C18": ("model_checking", "explicit-state exploration of container operation histories replayed on fresh objects against boring Python models, plus bounded-exhaustive enumeration of sort inputs with an independent checker",
            "(a) sorts: every sequence of length <= 8 over 3 keys tagged with positions plus seven adversarial families at every length "
            "0..300 (0..2000 thorough) through every SRFI 95 / SRFI 132 entry point (sort, sort!, list-sort, vector-sort(!), stable "
            "variants, merge(!), sorted?, delete-duplicates, median/selection); verdict (permutation, ordered, stable where promised, input "
            "untouched where promised) by a counting-sort based checker that shares nothing with the sort code. (b) containers: every "
            "operation history of length <= 4 (5 thorough) over a small collision-forcing alphabet for SRFI 113 sets/bags, 146 mappings "
            "and hashmaps, 117 list queues, 134 ideques, 101 random-access lists, (chibi iset): each history replayed on a fresh object "
            "and compared step by step with a Python set / Counter / dict / list model, every earlier persistent version re-observed after "
            "every step, and the red-black / size invariants validated. (c) the pure SRFI 1 / SRFI 133 procedures on all lists / vectors of "
            "length <= 4 over {0,1,2}. (d) larger persistent trees: (srfi 146) mappings and hashmaps of every size <= 33 (70 thorough) built in "
            "four insertion orders; every single deletion, insertion of an absent key and pop, and every ordered pair of deletions for sizes "
            "<= 12 (24), each compared in full (alist, size, every lookup, min/max, fold order, the earlier version unchanged) with a sorted "
            "association list.",
            "Element alphabets are small; comparison procedures are total orders or the stated weak orders only.", "DESIGN.md §4 C18"),
    "C19": ("exploration", "bounded-exhaustive enumeration of codec inputs (round trips against CPython reference codecs) and of hostile texts on an ASan build",
            "enc: base64 / quoted-printable / uri-encode on every byte string of a finite family through every variant (bytevector, "
            "string, port), compared with CPython base64 / quopri / urllib and checked for RFC legality, decode(encode(x)) = x. hostile: every "
            "decoder on every string of length <= 6 over 10-symbol hostile alphabets (ASan, watchdog): a value or a catchable error. json: "
            "every value of depth <= 3 over an atom set written, parsed by CPython strict json and read back; every \\uXXXX escape and "
            "surrogate pair; every text up to length 4 (5) over a 22-symbol alphabet and every token string up to 4 (5) tokens against CPython "
            "json (only RFC 8259-valid texts are asserted), nesting to 10^5. csv: every table <= 2x2 (3x2) over 6 (9) cells written and parsed "
            "back under the documented grammars. acc: every (scheme bytevector) / (chibi bytevector) / (srfi 160) numeric accessor x "
            "endianness x every offset in [-1, len] x a value lattice against int.from_bytes / struct (out-of-range must raise). utf: "
            "utf8/utf16/utf32 conversions on every byte string <= 3 (4) over a 26-byte alphabet against CPython's strict decoders.",
            "CPython's codecs are the reference; JSON numbers beyond 2^53 and texts invalid under RFC 8259 are not asserted. One known "
            "finding (uri-encode above U+00FF) is listed in known_findings.json.", "DESIGN.md §4 C19"),
})

CHECKS.update({
    "C20": ("exploration", "bounded-exhaustive enumeration of (SRE, subject) pairs against a Brzozowski-derivative oracle cross-checked by two further independent deciders",
            "SRE strata, each enumerated completely: A = the 8 leaves \"a\" \"b\" any (/ \"ab\") (~ \"a\") \"\" bol eol; D1 = every unary operator "
            "* + ? (= 2 x) (** 1 2 x) ($ x) (-> n x) (w/nocase x) over A and (: x y) (or x y) over AxA; D2 = all terms of depth 2 "
            "(unary(D1), binary(D1,A), binary(A,D1); binary(D1,D1) and operator chains of depth 3 in the thorough tier); terms mentioning "
            "e-acute / E-acute; repetition bounds (** m n x), (= k x), (>= k x) over leaves and bodies holding submatches; case-folding flags; 4 slow (w/nocase (or ..class..)) terms. Subjects: all 121 strings of length <= 4 over {a, b, newline} "
            "plus 15 fixed strings with upper case and multi-byte characters (lengths 5-6 in the thorough tier). Each pair is run through "
            "regexp-matches and regexp-search on the real interpreter (each SRE compiled once). Asserted: regexp-matches non-#f iff the "
            "whole subject is in L(sre); regexp-search non-#f iff some substring read in its place is in L(sre); span 0 and every "
            "numbered / named submatch span delimit text in the language of the corresponding sub-SRE and nest.",
            "Which match is reported (leftmost/longest, which iteration of a repeated submatch) is not asserted; every expected value is "
            "cross-checked between the derivative oracle, a set-of-positions evaluator and Python re before it is used.", "DESIGN.md §4 C20"),
})

NOT_YET = {}


def main():
    props = [json.loads(l) for l in open(os.path.join(VERIF, "properties.jsonl"))]
    try:
        commits = subprocess.run(["git", "-C", "/repo", "log", "--format=%h %s", "--grep=^verif hook"], stdout=subprocess.PIPE,
                                 text=True).stdout.strip().split("\n")
        commits = [c.split()[0] for c in commits if c]
    except Exception:
        commits = []
    checks = []
    for pid, (cat, tech, text, note, ref) in sorted(CHECKS.items()):
        checks.append({
            "property_id": pid,
            "quick_cmd": "./check %s quick" % pid,
            "thorough_cmd": "./check %s thorough" % pid,
            "evidence_file": "/verif/evidence/%s.json" % pid,
            "replay_cmd_template": "./check %s --replay {path}" % pid,
            "engine": "mc/props/%s.py" % pid.lower(),
            "level_claimed": {"category": cat, "text": text, "design_ref": ref},
            "level_note": note,
            "technique": tech,
        })
    na = []
    for p in props:
        if p["id"] not in CHECKS:
            na.append({"property_id": p["id"], "reason": NOT_YET.get(p["id"], "check not built yet in this round; the planned bounded-exhaustive design is in DESIGN.md §4 " + p["id"])})
    m = {
        "version": 1,
        "setup_cmd": "python3 mc/build.py opt asan nosimp cll tsan",
        "hooks": {
            "guard": "CHIBI_VERIF",
            "enable": "mc/build.py compiles /repo's working tree out-of-tree into /verif/build/<variant>/ with -DCHIBI_VERIF=1; harnesses install the call-outs of include/chibi/verif.h",
            "baseline_off_cmd": "mc/baseline.sh /repo",
            "source_commits": commits,
            "add_only": True,
        },
        "engines": [
            {"name": "evalbatch", "path": "harness/evalbatch.c", "serves_properties": sorted(CHECKS), "kind_free_text": "embedding driver + fork server: one context, every form evaluated through the C API, GC schedule / poisoning / instruction budget / thread schedule through the CHIBI_VERIF call-outs"},
            {"name": "mc", "path": "mc/", "serves_properties": sorted(CHECKS), "kind_free_text": "Python enumerators, reference models and explorers"},
        ],
        "checks": checks,
        "not_applicable": na,
        "notes": "See DESIGN.md. known_findings.json lists genuine defects (fixed ones suppress nothing).",
    }
    with open(os.path.join(VERIF, "MANIFEST.json"), "w") as fh:
        json.dump(m, fh, indent=1)


if __name__ == "__main__":
    main()
