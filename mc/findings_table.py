#!/usr/bin/env python3
"""Prints known_findings.json as the markdown table embedded in DESIGN.md §5 (between the BEGIN/END markers) and rewrites it."""
import json, os, re, subprocess
VERIF = os.path.dirname(os.path.dirname(os.path.abspath(__file__)))
d = json.load(open(os.path.join(VERIF, "known_findings.json")))
rows = ["| property | status | commit(s) | what failed |", "|---|---|---|---|"]
for f in sorted(d["findings"], key=lambda f: (f["property"], f["id"])):
    what = re.sub(r"^(fixed|known): property=\S+ ([0-9a-f]{7}( [0-9a-f]{7})* )?", "", f["what"]).replace("|", "\\|")
    rows.append("| %s | %s | %s | %s |" % (f["property"], f["status"], f.get("commit", "—") or "—", what))
table = "\n".join(rows)
p = os.path.join(VERIF, "DESIGN.md")
s = open(p).read()
b, e = "<!-- BEGIN findings table (mc/findings_table.py) -->", "<!-- END findings table -->"
if b in s:
    s = s[:s.index(b) + len(b)] + "\n" + table + "\n" + s[s.index(e):]
    open(p, "w").write(s)
print(table)
