#!/bin/sh
# usage: mc/mutant.sh <patch.diff> <check-id> [tier]
# Applies a patch to a scratch git worktree of /repo (never to /repo itself), runs one check against it with a private
# build directory, prints the tail of the output, and removes the worktree and its build output.
set -e
PATCH=$(readlink -f "$1"); ID=$2; TIER=${3:-quick}
W=$(mktemp -d /var/tmp/chibi-mutant.XXXXXX)
trap 'git -C /repo worktree remove --force "$W/src" >/dev/null 2>&1 || true; rm -rf "$W"' EXIT
git -C /repo worktree add --detach "$W/src" HEAD >/dev/null 2>&1
git -C "$W/src" apply "$PATCH"
cd /verif
VERIF_REPO="$W/src" VERIF_BUILD="$W/build" VERIF_NO_EVIDENCE=1 timeout ${MUTANT_TIMEOUT:-1500} ./check "$ID" "$TIER" 2>&1 | grep -v "VIOLATION candidate" | tail -${MUTANT_TAIL:-15} | cut -c1-400
