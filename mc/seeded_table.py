#!/usr/bin/env python3
"""Rewrites the table of seeded changes in DESIGN.md §9 from seeded/*/meta.json."""
import json, os, glob
VERIF = os.path.dirname(os.path.dirname(os.path.abspath(__file__)))
rows = ["| seeded change | files | what it breaks | repository tests | demonstration differs | verdict of the property's check |", "|---|---|---|---|---|---|"]
for mp in sorted(glob.glob(os.path.join(VERIF, "seeded", "*", "meta.json"))):
    m = json.load(open(mp))
    checks = m.get("checks", {})
    verdicts = []
    for k in sorted(checks):
        c = checks[k]
        verdicts.append("%s: **%s** (%d VIOLATION lines, %ss)" % (k, c["verdict"], c["violation_lines"], c["wall_s"]))
    hist = m.get("history", "")
    rows.append("| `seeded/%s` | %s | %s | %s | %s | %s%s |" % (
        m["id"], ", ".join("`%s`" % f for f in m.get("files_touched", [])), (m.get("summary") or "").replace("|", "\\|")[:160],
        "pass" if m.get("confirmed_tests_pass", m.get("agent_reported_tests_pass")) else "FAIL",
        "yes" if m.get("confirmed_demo_differs") else ("(C demo / not re-run)" if not m.get("demo_files") or all(not f.endswith(".scm") for f in m["demo_files"]) else "no"),
        "; ".join(verdicts) or "not run", (" — " + hist) if hist else ""))
table = "\n".join(rows)
p = os.path.join(VERIF, "DESIGN.md")
s = open(p).read()
b, e = "<!-- BEGIN seeded table (mc/seeded_table.py) -->", "<!-- END seeded table -->"
if b in s:
    s = s[:s.index(b) + len(b)] + "\n" + table + "\n" + s[s.index(e):]
    open(p, "w").write(s)
print(table)
