"""Bounded-exhaustive program generators for the core language (C03, reused by C09).

Part A -- variable-capture skeletons: a nest of binder layers; one (or two) observed variables with a *role*
          each; everything else is filler.  All (kind x role x depth x position) cells and all role pairs for
          two variables of one frame are produced.
Part B -- derived-form expressions: all expressions with at most `size` non-atomic nodes over the derived
          forms, atoms from a small set; effects only in sequence positions, so the result does not depend
          on the order in which operands are evaluated.
Every program is the body of a thunk; the prelude's (run-case n thunk) prints  "#n <value> | <observations>".
"""
import itertools

PRELUDE = """
(define out '())
(define (obs x) (set! out (cons x out)) x)
(define (run-case n thunk)
  (set! out '())
  (let ((r (guard (e (#t 'ERR)) (thunk))))
    (display "#") (display n) (display " ")
    (write r) (display " | ") (write (reverse out)) (newline)))
"""

# ------------------------------------------------------------------------------------------ part A

ROLES = ["unused", "read", "read1", "read2", "set", "set1", "capmut", "mutonly", "shadow", "escape", "escape-counter"]


def role_code(v, role, tag):
    """statements observing variable v in the innermost body (tag makes observations distinguishable)"""
    t = "'%s" % tag
    if role == "unused":
        return []
    if role == "read":
        return ["(obs (list %s %s))" % (t, v)]
    if role == "read1":
        return ["((lambda () (obs (list %s %s))))" % (t, v)]
    if role == "read2":
        return ["((lambda () ((lambda () (obs (list %s %s))))))" % (t, v)]
    if role == "set":
        return ["(set! %s (list 'm %s))" % (v, v), "(obs (list %s %s))" % (t, v)]
    if role == "set1":
        return ["((lambda () (set! %s (list 'n %s))))" % (v, v), "(obs (list %s %s))" % (t, v)]
    if role == "capmut":
        return ["(let ((g (lambda () %s))) (set! %s (list 'c %s)) (obs (list %s (g))))" % (v, v, v, t)]
    if role == "mutonly":
        return ["(set! %s 7)" % v]
    if role == "shadow":
        return ["(let ((%s 55)) (obs (list %s 'inner %s)))" % (v, t, v), "(obs (list %s 'outer %s))" % (t, v)]
    return []


def role_result(v, role):
    """expression returned from the innermost body (closures that outlive their frame)"""
    if role == "escape":
        return "(lambda () %s)" % v
    if role == "escape-counter":
        return "(lambda () (set! %s (list 'k %s)) %s)" % (v, v, v)
    return None


# binder kinds: function (vars, inits, body) -> text.  `vars` are the variables this layer binds (1 or 2 observed
# ones plus its own fillers); inits are literal integer texts.
def k_lambda(vs, inits, body):
    return "((lambda (%s) %s) %s)" % (" ".join(vs), body, " ".join(inits))


def k_lambda_mid(vs, inits, body):   # observed variables in the middle of 3+ parameters
    return "((lambda (p0 %s p9) %s) 100 %s 900)" % (" ".join(vs), body, " ".join(inits))


def k_lambda_rest(vs, inits, body):  # first observed variable is the rest list
    if len(vs) == 1:
        return "((lambda (p0 . %s) %s) 100 %s 2)" % (vs[0], body, inits[0])
    return "((lambda (%s . %s) %s) %s %s 2)" % (vs[1], vs[0], body, inits[1], inits[0])


def k_lambda_restonly(vs, inits, body):
    if len(vs) == 1:
        return "((lambda %s %s) %s 3)" % (vs[0], body, inits[0])
    return "((lambda (%s . %s) %s) %s)" % (vs[1], vs[0], body, inits[1])    # empty rest list


def k_let(vs, inits, body):
    return "(let (%s) %s)" % (" ".join("(%s %s)" % p for p in zip(vs, inits)), body)


def k_letstar(vs, inits, body):
    return "(let* ((q0 1) %s) %s)" % (" ".join("(%s (+ q0 %s))" % p for p in zip(vs, inits)), body)


def k_letrec(vs, inits, body):
    return "(letrec (%s (helper (lambda () %s))) %s)" % (" ".join("(%s %s)" % p for p in zip(vs, inits)), vs[0], body)


def k_letrecstar(vs, inits, body):
    return "(letrec* (%s (w0 (list %s))) %s)" % (" ".join("(%s %s)" % p for p in zip(vs, inits)), vs[0], body)


def k_idefine(vs, inits, body):
    return "((lambda () %s %s))" % (" ".join("(define %s %s)" % p for p in zip(vs, inits)), body)


def k_idefine_fwd(vs, inits, body):   # internal defines with a forward reference from a procedure defined first
    return "((lambda () (define (peek) (list %s)) %s (obs (list 'peek (peek))) %s))" % (
        " ".join(vs), " ".join("(define %s %s)" % p for p in zip(vs, inits)), body)


def k_namedlet(vs, inits, body):
    # two iterations; the body runs in each with fresh bindings
    return "(let loop ((it 0) %s) (if (< it 2) (begin %s (loop (+ it 1) %s)) 'loop-done))" % (
        " ".join("(%s %s)" % p for p in zip(vs, inits)), body, " ".join("(list 'next %s)" % v for v in vs))


def k_do(vs, inits, body):
    return "(do ((it 0 (+ it 1)) %s) ((= it 2) 'do-done) %s)" % (
        " ".join("(%s %s (list 'step %s))" % (v, i, v) for v, i in zip(vs, inits)), body)


KINDS = {
    "lambda": k_lambda, "lambda-mid": k_lambda_mid, "lambda-rest": k_lambda_rest, "lambda-restonly": k_lambda_restonly,
    "let": k_let, "let*": k_letstar, "letrec": k_letrec, "letrec*": k_letrecstar, "idefine": k_idefine,
    "idefine-fwd": k_idefine_fwd, "named-let": k_namedlet, "do": k_do,
}
FILLER_QUICK = ["lambda", "let", "idefine"]
LOOPING = {"named-let", "do"}


def filler(kind, idx, body):
    v = "f%d" % idx
    return KINDS[kind]([v], [str(10 + idx)], "(begin (obs (list 'f%d %s)) %s)" % (idx, v, body))


def skeleton(layers, pos, kind, vars_roles):
    """layers: list of filler kinds for the non-observed layers (outermost first); the observed layer is inserted at
    index pos.  vars_roles: [(var, init, role)] for the observed layer.  Returns program body text."""
    stmts = []
    results = []
    for i, (v, init, role) in enumerate(vars_roles):
        stmts += role_code(v, role, "t%d" % i)
        r = role_result(v, role)
        if r:
            results.append(r)
    if results:
        inner_result = "(list %s)" % " ".join(results)
    else:
        inner_result = "(list 'val %s)" % " ".join(v for v, _, role in vars_roles if role not in ("mutonly", "unused"))
    inner = "(begin %s %s)" % (" ".join(stmts), inner_result) if stmts else inner_result
    # build from the inside out
    total = len(layers) + 1
    body = inner
    fi = len(layers)
    for li in range(total - 1, -1, -1):
        if li == pos:
            body = KINDS[kind]([v for v, _, _ in vars_roles], [i for _, i, _ in vars_roles], body)
        else:
            fi -= 1
            body = filler(layers[fi], fi, body)
    if results:
        # call the escaped closures after their frames are gone (twice each)
        looping = kind in LOOPING or any(l in LOOPING for l in layers)
        if looping:
            return None    # the loop kinds return a marker, not the closures
        return "(let ((cs %s)) (map (lambda (c) (let* ((a (c)) (b (c))) (list a b))) cs))" % body
    return body


def part_a(level):
    """level 0: quick, 1: thorough.  yields (descriptor, body text)"""
    fillers = FILLER_QUICK if level == 0 else ["lambda", "let", "idefine", "let*", "named-let", "lambda-rest"]
    maxd = 3 if level == 0 else 3
    kinds = list(KINDS)
    # single variable: every kind x role x depth x position x filler assignment
    for d in range(0, maxd + 1):
        for layers in itertools.product(fillers, repeat=d):
            if level == 0 and d == 3 and len(set(layers)) > 2:
                continue
            for pos in range(d + 1):
                for kind in kinds:
                    for role in ROLES:
                        body = skeleton(list(layers), pos, kind, [("v", "5", role)])
                        if body is not None:
                            yield (("A1", kind, role, d, pos, layers), body)
    # two variables of the same frame: all role pairs
    for d in range(0, 2 if level == 0 else 3):
        for layers in itertools.product(fillers[:3], repeat=d):
            for pos in range(d + 1):
                for kind in kinds:
                    for r1 in ROLES:
                        for r2 in ROLES:
                            body = skeleton(list(layers), pos, kind, [("v", "5", r1), ("w", "6", r2)])
                            if body is not None:
                                yield (("A2", kind, r1, r2, d, pos, layers), body)


# ------------------------------------------------------------------------------------------ part B

ATOMS = ["0", "1", "#f", "'a", "x", "'#f"]
ATOMS_SMALL = ["0", "#f", "x"]
LISTS = ["'()", "(list x)", "'(1 2)"]

# each form: (template with {0},{1}.. slots, number of slots); S = a sequenced observation
FORMS = [
    ("(if {0} {1} {2})", 3),
    ("(if {0} {1})", 2),
    ("(cond ({0} {1}) (else {2}))", 3),
    ("(cond ({0} => (lambda (t) (list 't t))) (else {1}))", 2),
    ("(cond ({0}) ({1} 'second))", 2),
    ("(case {0} ((0 1) {1}) ((a #f) 'sym) (else {2}))", 3),
    ("(case {0} ((1) 'one) (else => (lambda (t) (list 'else t))))", 1),
    ("(and {0} {1})", 2),
    ("(and)", 0),
    ("(or {0} {1})", 2),
    ("(or)", 0),
    ("(when {0} (obs 'w) {1})", 2),
    ("(unless {0} (obs 'u) {1})", 2),
    ("(let ((y {0})) (list y {1}))", 2),
    ("(let* ((y {0}) (z (list y))) (list z {1}))", 2),
    ("(begin (obs 'b) {0})", 1),
    ("`(1 ,{0} ,@(list {1}) end)", 2),
    ("`(a `(b ,(c ,{0}) ,@(d ,@(list {1}))))", 2),
    ("`#(v ,{0})", 1),
    ("`(,@'() . ,{0})", 1),
    ("(apply list {0} (list {1}))", 2),
    ("(apply list (list {0}))", 1),
    ("(apply (lambda (a . r) (list a r)) {0} {1} '(8 9))", 2),
    ("(apply + '())", 0),
    ("(call-with-values (lambda () (values {0} {1})) list)", 2),
    ("(call-with-values (lambda () (values)) list)", 0),
    ("(call-with-values (lambda () {0}) (lambda (a) (list 'one a)))", 1),
    ("(call-with-values (lambda () (values {0} {1} 3)) (lambda (a . r) (list a r)))", 2),
    ("(let-values (((a b) (values {0} {1})) ((c) (values 9))) (list a b c))", 2),
    ("((lambda (a b) (list a b)) {0})", 1),            # arity error
    ("((lambda (a) a) {0} {1})", 2),                    # arity error
    ("((lambda (a . r) (list a r)))", 0),               # arity error
    ("(do ((i 0 (+ i 1)) (acc '() (cons {0} acc))) ((= i 2) acc))", 1),
    ("(do ((i 0 (+ i 1))) ((= i 2) {0}) (obs i))", 1),
    ("(let loop ((i 0)) (if (< i 2) (begin (obs {0}) (loop (+ i 1))) {1}))", 2),
    ("(vector-ref (vector {0} {1}) 1)", 2),
    ("(car (list {0}))", 1),
    ("(not {0})", 1),
    ("(eq? {0} {1})", 2),
    ("(let ((f (lambda (a) (if a {0} {1})))) (list (f #t) (f #f)))", 2),
    ("(letrec ((ev? (lambda (n) (if (= n 0) {0} (od? (- n 1))))) (od? (lambda (n) (if (= n 0) {1} (ev? (- n 1)))))) (ev? 3))", 2),
]


def fill(template, n, choices):
    for combo in itertools.product(choices, repeat=n):
        yield template.format(*combo)


def part_b(level):
    """level 0: all forms with atoms (size 1) + all size-2 nestings with a reduced inner atom set;
    level 1: full inner atom set and size 3 along one spine."""
    atoms = ATOMS
    size1 = []
    for fi, (t, n) in enumerate(FORMS):
        for e in fill(t, n, atoms):
            size1.append((fi, e))
            yield (("B1", fi), e)
    inner_atoms = ATOMS_SMALL if level == 0 else ATOMS
    inner = []
    for fi, (t, n) in enumerate(FORMS):
        for e in fill(t, n, inner_atoms):
            inner.append((fi, e))
    defaults = ["0", "#f"] if level == 0 else ["0", "#f", "x"]
    for fo, (t, n) in enumerate(FORMS):
        for slot in range(n):
            for fi, e in inner:
                for d in defaults:
                    args = [d] * n
                    args[slot] = e
                    yield (("B2", fo, slot, fi), t.format(*args))
    if level >= 1:
        # size 3 along one spine: outer(slot <- mid(slot0 <- inner))
        small_inner = []
        for fi, (t, n) in enumerate(FORMS):
            for e in fill(t, n, ["0", "x"]):
                small_inner.append((fi, e))
        for fo, (t, n) in enumerate(FORMS):
            if n == 0:
                continue
            for fm, (tm, nm) in enumerate(FORMS):
                if nm == 0:
                    continue
                for fi, e in small_inner[::3]:
                    margs = ["#f"] * nm
                    margs[0] = e
                    oargs = ["0"] * n
                    oargs[n - 1] = tm.format(*margs)
                    yield (("B3", fo, fm, fi), t.format(*oargs))


def wrap_b(expr):
    return "(let ((x 5)) %s)" % expr


def part_d(level):
    """Scope matrix of the binding forms: which binding an <init>, <step> or body expression refers to when the name being bound
    (or the loop name) also has an outer binding, and forward references between internal definitions through every kind of
    <init> (R7RS 4.2.2, 4.2.4, 5.3.2)."""
    def clos(e):      # a value printed without procedures
        return "(let ((v %s)) (if (procedure? v) 'proc v))" % e
    outer = "(let ((n 'outer-n) (w 'outer-w) (loop 'outer-loop)) %s)"
    forms = [
        # named let: <init>s are evaluated outside the scope of the loop name AND of the loop variables
        "(let loop ((a loop)) %s)" % clos("a"),
        "(let loop ((a (list loop n))) a)",
        "(let loop ((n w) (w n)) (list n w))",
        "(let loop ((n (list n)) (i 0)) (if (< i 2) (loop (list 'again n) (+ i 1)) (list n %s)))" % clos("loop"),
        "(let n ((i n)) (list i %s))" % clos("n"),
        "(let n ((w n) (k 0)) (if (< k 1) (n (list w 'x) (+ k 1)) (list w k)))",
        "((lambda (loop) (let loop ((a loop) (k 0)) (if (= k 0) (loop (list a) 1) a))) 'param-loop)",
        "(let ((loop (lambda (x) (list 'outer-proc x)))) (let loop ((a (loop 1)) (k 0)) (if (= k 0) (loop (list a) 1) a)))",
        # let / let* / letrec / letrec*
        "(let ((n w) (w n)) (list n w))",
        "(let* ((n w) (w n)) (list n w))",
        "(let* ((n (list n)) (n (list n 2))) n)",
        "(letrec ((n (lambda () w)) (w 'inner-w)) (n))",
        "(letrec* ((w 'inner-w) (n (list w))) n)",
        "(let () (define n (list w)) (define w2 n) (list n w2))",
        # do: <init>s outside, <step>s and <test> inside
        "(do ((n (list n) (list 'step n)) (i 0 (+ i 1))) ((= i 2) n))",
        "(do ((n w (list n w)) (w n (list w n)) (i 0 (+ i 1))) ((= i 1) (list n w)))",
        "(do ((i 0 (+ i 1)) (acc '() (cons (lambda () i) acc))) ((= i 3) (map (lambda (f) (f)) acc)))",
        # case-lambda / lambda shadowing its own name
        "(letrec ((n (lambda (n) (if (symbol? n) n 'other)))) (n 'arg))",
        "((lambda (n) ((lambda (n) n) (list n))) n)",
    ]
    for i, f in enumerate(forms):
        yield (("D-scope", i), outer % f)
    # case: the key is compared with eqv?, also when a clause has a single datum and when the key is a number that lives in the heap
    keys = ["1.5", "18446744073709551616", "1/3", "2", "-4611686018427387905", "#\\a", "'sym", "\"s\"", "'()", "(+ 1 0.5)", "(* 4294967296 4294967296)", "(/ 2 6)"]
    for k in keys:
        yield (("D-case", k), "(list (case %s ((1.5) 'flo) ((18446744073709551616) 'big) ((1/3) 'ratio) ((2) 'two) ((-4611686018427387905) 'negbig) ((#\\a) 'char) ((sym) 'symbol) ((\"s\") 'string) ((()) 'nil) (else 'other)) "
               "(case %s ((0 1.5 7) 'flo) ((18446744073709551616 3) 'big) ((1/3 1/2) 'ratio) ((2 4) 'two) (else => (lambda (x) (list 'else x)))) "
               "(case %s ((1.5) => (lambda (x) (list 'f x))) ((2) => (lambda (x) (list 't x))) (else 'other)))" % (k, k, k))
    # forward references between internal definitions: the closure that refers to a later definition sits in every kind of <init>
    inits = {
        "lambda": "(define (get) (list k0 (later)))",
        "let-over-lambda": "(define get (let ((k 40)) (lambda () (list k (later)))))",
        "applied-lambda": "(define get ((lambda (k) (lambda () (list k (later)))) 41))",
        "in-list": "(define tbl (list (lambda () (list 'tbl (later))))) (define (get) ((car tbl)))",
        "in-vector": "(define tbl (vector 0 (lambda () (later)))) (define (get) ((vector-ref tbl 1)))",
        "nested-define": "(define (get) (define (inner) (later)) (list 'inner (inner)))",
        "if-init": "(define get (if k0 (lambda () (later)) (lambda () 'no)))",
        "cons-cell": "(define get (cdr (cons 1 (lambda () (cons 'c (later))))))",
    }
    laters = {
        "define-proc": "(define (later) (list 'later k0))",
        "define-lambda": "(define later (lambda () (list 'later k0)))",
        "define-let-lambda": "(define later (let ((z 2)) (lambda () (list 'later z))))",
    }
    trailing = {"none": "", "value-after": "(define z 0)", "proc-after": "(define (after) (get))", "both": "(define z 0) (define (after) (list z (get)))"}
    for ik, ini in sorted(inits.items()):
        for lk, lat in sorted(laters.items()):
            for tk, tr in sorted(trailing.items()):
                call = "(list (get) (get))" if "after" not in tr else "(list (get) (after))"
                yield (("D-fwd", ik, lk, tk), "((lambda (k0) %s %s %s %s) 7)" % (ini, lat, tr, call))
                yield (("D-fwd-top", ik, lk, tk), "(let () (define k0 7) %s %s %s %s)" % (ini, lat, tr, call))


def split_top(body):
    """a program of part E is 'top-level forms || expression': the forms are evaluated at the outermost level before the case"""
    if " || " in body:
        tops, expr = body.split(" || ", 1)
        return tops, expr
    return "", body


def part_e(level):
    """The outermost level (R7RS 5.3.1): definitions of already bound variables are assignments and may use the old value;
    procedures compiled earlier see the new value; a variable may be redefined as syntax and back."""
    progs = [
        "(define V 1) (define V (+ V 1)) || V",
        "(define V 1) (define V (+ V 1)) (define V (* V 10)) || V",
        "(define (V) 10) (define V (let ((old V)) (lambda () (+ 1 (old))))) || (V)",
        "(define V 5) (define (get-V) V) (define V (list V 'again)) || (list V (get-V))",
        "(define V 'a) (define (get-V) V) (set! V 'b) (define V (list V)) || (list V (get-V))",
        "(define V (lambda (n) (if (= n 0) 'done (V (- n 1))))) (define V (let ((prev V)) (lambda (n) (list 'wrapped (prev n))))) || (V 2)",
        "(define V 1) (define W V) (define V (+ V W)) (define W (+ V W)) || (list V W)",
        "(define V '(1)) (define V (cons 0 V)) (define V (cons -1 V)) || V",
        "(define V 1) (define (use) (+ V 1)) (define V 10) || (use)",
        "(define V (vector 1 2)) (define V (vector-length V)) || V",
        "(define V 3) (define V (let loop ((i V) (acc '())) (if (= i 0) acc (loop (- i 1) (cons i acc))))) || V",
        "(define (V x) (* x 2)) (define (V x) (+ 1 (* x 2))) || (V 5)",
        "(define V 1) (begin (define V (+ V 1)) (define W (+ V 1))) || (list V W)",
    ]
    for i, p in enumerate(progs):
        # unique names per program: the forms are evaluated in one shared top-level environment
        yield (("E-top", i), p.replace("get-V", "get-v%d" % i).replace("V", "tv%d" % i).replace("W", "tw%d" % i).replace("use", "use%d" % i))


def all_programs(level):
    for d, body in part_a(level):
        yield d, body
    for d, e in part_b(level):
        yield d, wrap_b(e)
    for d, body in part_d(level):
        yield d, body
    for d, body in part_e(level):
        yield d, body


# ------------------------------------------------------------------------------------------ part C (C09)
# programs rich in what the simplifier touches: all-literal arithmetic (incl. overflowing, dividing by zero,
# non-numeric literals), constant-bound lets (shadowed / assigned / captured / unused), literal and propagated tests,
# value-only statements in non-tail sequence positions next to effectful ones, rest parameters.

ARITH_OPS = ["+", "-", "*", "/", "quotient", "remainder", "<", "<=", "=", "eq?"]
ARITH_LITS = ["0", "1", "-1", "2", "7", "4611686018427387903", "-4611686018427387904", "4611686018427387904",
              "1.5", "1/2", "\"s\"", "#\\a", "#t", "'sym", "'()"]
ARITH_LITS_SMALL = ["0", "2", "-1", "4611686018427387903", "1.5", "#t"]


def part_c(level):
    lits = ARITH_LITS
    for op in ARITH_OPS:
        for a in lits:
            for b in lits:
                yield (("C-arith", op), "(%s %s %s)" % (op, a, b))
    small = ARITH_LITS_SMALL if level == 0 else ARITH_LITS[:10]
    for op1 in ARITH_OPS[:6]:
        for op2 in ARITH_OPS[:6]:
            for a in small:
                for b in small:
                    for c in small[:4]:
                        yield (("C-arith2", op1, op2), "(%s (%s %s %s) %s)" % (op1, op2, a, b, c))
                        yield (("C-arith2r", op1, op2), "(%s %s (%s %s %s))" % (op1, c, op2, a, b))
    for op in ARITH_OPS[:4]:
        for a in small:
            yield (("C-unary", op), "(%s %s)" % (op, a))
            yield (("C-nullary", op), "(list (%s) (%s %s %s %s))" % (op if op in "+*" else "+", op, a, a, a))
    # constant-bound lets
    bodies = [
        "(+ a 1)", "(list a a)", "(let ((a 9)) (list a))", "(begin (set! a (list a)) a)", "((lambda () a))",
        "(let ((f (lambda () a))) (set! a 3) (list (f) a))", "'unused", "(if a 'yes 'no)", "(let ((b a)) (let ((a b)) (+ a b)))",
        "(let loop ((i 0)) (if (< i 2) (loop (+ i 1)) (list i a)))", "(* a (obs 2))", "(begin a (obs 'x) a)",
        "(list (quotient a 0))", "(lambda-test a)",
    ]
    inits = ["1", "0", "#f", "'#f", "'s", "\"str\"", "(obs 4)", "(+ 1 2)", "4611686018427387903", "(if #f #f)"]
    for b in bodies:
        for i in inits:
            body = b.replace("(lambda-test a)", "((lambda (x . r) (list x r a)) a)")
            yield (("C-let", b[:12]), "(let ((a %s)) %s)" % (i, body))
            yield (("C-let2", b[:12]), "(let ((z (obs 'z)) (a %s) (y 2)) (list z y %s))" % (i, body))
            yield (("C-let*", b[:12]), "(let* ((a %s) (c (list a))) (list c %s))" % (i, body))
    # literal and propagated tests
    tests = ["#t", "#f", "0", "'()", "(let ((t #f)) t)", "(let ((t 1)) (if t #f #t))", "(not 1)", "(< 1 2)", "(= 1 1.0)", "(eq? 'a 'a)",
             "(obs #f)", "(begin (obs 't) #t)"]
    # quoted constants are a different AST node (Lit) from self-evaluating ones: '#f must still count as false
    tests_q = ["'#f", "'#t", "'0", "(let ((t '#f)) t)", "(let ((t '#f)) (if t 1 #f))", "(quote #f)", "(not '#f)"]
    for t in tests_q:
        for t2 in ["#t", "'#f", "'x"]:
            yield (("C-ifq", t[:8]), "(if %s (begin (obs 'then) (if %s 1 2)) (begin (obs 'else) 3))" % (t, t2))
            yield (("C-condq", t[:8]), "(cond (%s 'a) (%s (obs 'b)) (else 'c))" % (t, t2))
            yield (("C-andq", t[:8]), "(list (and %s %s) (or %s %s) (when %s 'w) (unless %s 'u))" % (t, t2, t, t2, t, t))
            yield (("C-letq", t[:8]), "(let ((flag %s) (other %s)) (list (if flag 'on 'off) (if other (obs 'o1) (obs 'o2)) flag))" % (t, t2))
    for t in tests:
        for t2 in tests[:6]:
            yield (("C-if", t[:8]), "(if %s (begin (obs 'then) (if %s 1 2)) (begin (obs 'else) 3))" % (t, t2))
            yield (("C-cond", t[:8]), "(cond (%s 'a) (%s (obs 'b)) (else 'c))" % (t, t2))
            yield (("C-and", t[:8]), "(list (and %s %s) (or %s %s))" % (t, t2, t, t2))
    # constant folds that raise, in code that is compiled but not (yet) run, compiled at run time under a handler: the error
    # belongs to the run of that code, never to its compilation
    bad = ["(/ 1 0)", "(quotient 7 0)", "(+ 1 'a)", "(remainder 5 0)", "(* \"s\" 2)", "(< 1 'b)", "(- #t)"]
    for e in bad:
        for shape in ["(lambda () %s)", "(if #f %s 'untaken)", "(lambda (x) (if x 'yes %s))", "(let ((f (lambda () %s))) 'bound)", "(let ((f (lambda (x) (if x %s 'fine)))) (f #f))",
                      "(let ((f (lambda (x) (if x 'fine %s)))) (list (f #t)))", "((lambda (y) (let ((g (lambda () %s))) y)) 'arg)"]:
            form = shape % e
            yield (("C-foldraise", shape[:12]), "(let ((h 0)) (list (with-exception-handler (lambda (c) (set! h (+ h 1)) 'handled) "
                   "(lambda () (let ((v (eval '%s (environment '(scheme base))))) (if (procedure? v) 'procedure v)))) h))" % form)
            yield (("C-foldraise-guard", shape[:12]), "(guard (c (#t (list 'caught (error-object? c)))) (let ((v (eval '%s (environment '(scheme base))))) (if (procedure? v) 'procedure v)))" % form)
    # value-only statements in sequences
    stmts = ["1", "x", "(lambda () 1)", "(obs 's1)", "\"str\"", "(+ 1 2)", "(set! x (+ x 1))", "(if #f #f)", "'(q)", "(car (list (obs 's2)))"]
    for a in stmts:
        for b in stmts:
            yield (("C-seq",), "(let ((x 5)) (begin %s %s (list x)))" % (a, b))
            yield (("C-seq-body",), "(let ((x 5)) ((lambda () %s %s x)))" % (a, b))
            yield (("C-seq-tail",), "(let ((x 5)) (list (begin %s %s) x))" % (a, b))
    # rest parameters
    for use in ["'none", "r", "(begin (set! r 1) 'set)", "((lambda () r))", "(begin (set! r (list r)) r)", "(length r)", "(if #f r 'dead)"]:
        for args in ["", "1", "1 2 3"]:
            yield (("C-rest",), "(list 'pre ((lambda r %s) %s) 'post)" % (use, args))
            yield (("C-rest1",), "(list 'pre ((lambda (a . r) (list a %s)) 0 %s) 'post)" % (use, args))
            yield (("C-rest-def",), "(let () (define (f . r) %s) (list 'pre (f %s) (f %s 9) 'post))" % (use, args, args))


def c09_programs(level):
    for d, body in all_programs(level):
        yield d, body
    for d, body in part_c(level):
        yield d, body
