#!/usr/bin/env python3
"""Prints the prompt given to a fresh mutation-testing sub-agent for one property (property text only, nothing from /verif)."""
import json, sys, os
VERIF = os.path.dirname(os.path.dirname(os.path.abspath(__file__)))
pid = sys.argv[1]
n = int(sys.argv[2]) if len(sys.argv) > 2 else 2
p = [json.loads(l) for l in open(os.path.join(VERIF, "properties.jsonl")) if json.loads(l)["id"] == pid][0]
wt, out = "/tmp/mut/%s" % pid, "/tmp/mut/%s-out" % pid
import glob
prior = []
for mp in sorted(glob.glob(os.path.join(VERIF, "seeded", pid + "-m*", "meta.json"))):
    m = json.load(open(mp))
    prior.append("- " + (m.get("summary") or "")[:200] + " (" + ", ".join(m.get("files_touched", [])) + ")")
prior_txt = ("\nCHANGES ALREADY PROPOSED BY OTHERS (do not repeat these or close variants of them; look at other functions, other mechanisms of the property):\n" + "\n".join(prior) + "\n") if prior and len(sys.argv) > 3 else ""
rnd = sys.argv[3] if len(sys.argv) > 3 else ""
wt, out = ("/tmp/mut%s/%s" % (rnd, pid), "/tmp/mut%s/%s-out" % (rnd, pid)) if rnd else (wt, out)
print(f"""You are helping to evaluate how sensitive a (hidden) verification suite is. You get one semantic property of the Scheme interpreter chibi-scheme (C + Scheme libraries) and your own scratch git worktree of its repository. Your job: produce {n} DIFFERENT realistic source changes, each of which BREAKS the property, yet still compiles and still passes the repository's existing test suite.

THE PROPERTY ({pid}): {p['title']}
Statement: {p['statement']}
Quantified over: {p['quantifier']['text']}
Why the existing tests cannot settle it: {p['why_tests_cant']}
Code it is anchored in: {', '.join(p['anchors']['files'])}

{prior_txt}
YOUR WORKTREE: {wt} (a git worktree; work ONLY there and in {out}, which you create for results). Do NOT read, list or touch /repo or /verif or any other directory of this machine besides your worktree, {out} and system tools: you must work from the property text and the source alone.

Build + test suite (run from the worktree; the whole suite must still pass with each of your changes applied):
  cd {wt} && cmake -G Ninja -B _build -S . >/dev/null && cmake --build _build 2>&1 | tail -3 && ctest --test-dir _build -j6 --timeout 900 2>&1 | tail -8
The interpreter is then {wt}/_build/chibi-scheme; run programs with
  cd {wt} && ./_build/chibi-scheme -I _build/lib prog.scm        (use `timeout 120`)
(Files named include/chibi/verif.h and code inside `#if CHIBI_VERIF` / `#ifdef CHIBI_VERIF` are instrumentation call-outs that are compiled out by default: do not touch them.)

What makes a good change:
 - it is the kind of mistake a maintainer could plausibly make in a refactoring or an "optimisation": drop or misplace a root registration / preserve, an off-by-one at a boundary, the wrong comparison at a threshold, a check moved after the action it guards, a cursor advanced too early, a flag not restored on one path, an update published before the write it guards, a case of a dispatch merged with a neighbour, a carry/sign/limb slip that only matters for certain magnitudes, and so on;
 - it needs something SPECIFIC to manifest (a particular input shape, magnitude, schedule, collection point, history of operations) - not a blatant break that every use shows (that would fail the test suite anyway);
 - it genuinely violates the property as stated (wrong answers, corruption, lost wake-up, leak ... whatever the property forbids), and you can DEMONSTRATE that with a concrete program / command whose output differs between the original and the changed tree (or crashes / hangs only on the changed tree);
 - the {n} changes are in different functions and exercise different mechanisms of the property; keep each patch small (1-15 changed lines).

For each change i = 1..{n}:
 1. edit the worktree, rebuild, run the WHOLE test suite (command above) and make sure the summary says 100% tests passed (if a test fails, the change is not acceptable: pick another);
 2. write the demonstration program(s) into {out}/ and run them on the changed build and (after step 4) on the original build, keeping both outputs;
 3. save the change: `git -C {wt} diff > {out}/m<i>.patch` and write {out}/m<i>.md containing: one paragraph on what the change does and why it breaks the property, what specific circumstances are needed to see it, the exact demonstration command(s), the output on the original tree and on the changed tree, and the tail of the ctest summary with the change applied;
 4. `git -C {wt} checkout -- .` (and rebuild) before starting the next change, so that each patch applies to the pristine worktree on its own.
Do not commit anything. Leave the worktree pristine at the end (you may leave _build). Time box: about 45 minutes in total (hard limit 55 minutes: if you are past it, stop and report what you have). Final answer: for each change, the patch path, a two-sentence description and the demonstration command.""")
