#!/usr/bin/env python3
"""Build variants of /repo's *current working tree* into /verif/build/<variant>/.

A variant is: the 8 core files -> libchibi-scheme.so, main.c -> chibi-scheme, the 13 .stub files
run through tools/chibi-ffi by the freshly built interpreter, the 15 hand-written C libraries
(the same set CMakeLists.txt builds), and the /verif harnesses linked against that variant.

Rebuild is decided by a *content* hash of every file the build reads, not by mtimes.
"""
import hashlib, os, subprocess, sys, shutil, fcntl, time, glob
from concurrent.futures import ThreadPoolExecutor

REPO = os.environ.get("VERIF_REPO", "/repo")
VERIF = os.path.dirname(os.path.dirname(os.path.abspath(__file__)))
BUILD = os.environ.get("VERIF_BUILD") or os.path.join(VERIF, "build")

CORE = ["gc.c", "sexp.c", "bignum.c", "gc_heap.c", "opcodes.c", "vm.c", "eval.c", "simplify.c"]
STUBS = ["lib/chibi/crypto/crypto.stub", "lib/chibi/emscripten.stub", "lib/chibi/filesystem.stub",
         "lib/chibi/io/io.stub", "lib/scheme/bytevector.stub", "lib/srfi/144/math.stub",
         "lib/srfi/160/uvprims.stub", "lib/chibi/net.stub", "lib/chibi/process.stub",
         "lib/chibi/pty.stub", "lib/chibi/stty.stub", "lib/chibi/system.stub", "lib/chibi/time.stub"]
CLIBS = ["lib/chibi/weak.c", "lib/chibi/heap-stats.c", "lib/chibi/disasm.c", "lib/chibi/ast.c",
         "lib/chibi/json.c", "lib/srfi/18/threads.c", "lib/chibi/optimize/rest.c",
         "lib/chibi/optimize/profile.c", "lib/srfi/27/rand.c", "lib/srfi/151/bit.c",
         "lib/srfi/39/param.c", "lib/srfi/69/hash.c", "lib/srfi/95/qsort.c", "lib/srfi/98/env.c",
         "lib/scheme/time.c"]
EXTRA_LINK = {"lib/chibi/pty.stub": ["-lutil"]}

BASE_DEFS = ["-DSEXP_STATIC_LIBRARY=0", "-DSEXP_USE_DL=1", "-DSEXP_USE_INTTYPES=0",
             "-DSEXP_USE_NTPGETTIME=1", "-DCHIBI_VERIF=1"]

VARIANTS = {
    # name: (cc, cflags, ldflags)
    "asan": ("clang", ["-O1", "-g", "-fsanitize=address", "-fsanitize-recover=address",
                       "-fno-omit-frame-pointer", "-fno-optimize-sibling-calls"],
             ["-fsanitize=address"]),
    "opt": ("gcc", ["-O2", "-g"], []),
    "nosimp": ("gcc", ["-O2", "-g", "-DSEXP_USE_SIMPLIFY=0"], []),
    "cll": ("gcc", ["-O2", "-g", "-DSEXP_USE_CUSTOM_LONG_LONGS=1"], []),
    "tsan": ("clang", ["-O1", "-g", "-fsanitize=thread", "-fno-omit-frame-pointer"],
             ["-fsanitize=thread"]),
}

# harness name -> (sources relative to /verif/harness, extra flags, variants it is built for)
HARNESSES = {}


def register_harness(name, srcs, extra=(), variants=None):
    HARNESSES[name] = (list(srcs), list(extra), variants)


def _load_harness_registry():
    reg = os.path.join(VERIF, "harness", "REGISTRY")
    if not os.path.exists(reg):
        return
    for line in open(reg):
        line = line.split("#")[0].strip()
        if not line:
            continue
        # name : src1 src2 : flags : variants
        parts = [p.strip() for p in line.split(":")]
        name, srcs = parts[0], parts[1].split()
        extra = parts[2].split() if len(parts) > 2 else []
        variants = parts[3].split() if len(parts) > 3 and parts[3] else None
        register_harness(name, srcs, extra, variants)


def source_files():
    fs = []
    for f in sorted(os.listdir(REPO)):
        if f.endswith(".c") or f in ("VERSION", "RELEASE"):
            fs.append(os.path.join(REPO, f))
    for root in ("include", "lib"):
        for d, dirs, files in os.walk(os.path.join(REPO, root)):
            dirs.sort()
            for f in sorted(files):
                if root == "include" or f.endswith((".c", ".h", ".stub")):
                    fs.append(os.path.join(d, f))
    fs.append(os.path.join(REPO, "tools", "chibi-ffi"))
    for d, dirs, files in os.walk(os.path.join(VERIF, "harness")):
        dirs.sort()
        for f in sorted(files):
            fs.append(os.path.join(d, f))
    fs.append(os.path.abspath(__file__))
    return fs


def tree_hash():
    h = hashlib.sha256()
    for f in source_files():
        h.update(f.encode())
        h.update(b"\0")
        try:
            with open(f, "rb") as fh:
                h.update(fh.read())
        except OSError:
            h.update(b"<missing>")
        h.update(b"\0")
    return h.hexdigest()


def run(cmd, **kw):
    r = subprocess.run(cmd, stdout=subprocess.PIPE, stderr=subprocess.STDOUT, text=True, **kw)
    if r.returncode != 0:
        raise RuntimeError("build step failed: %s\n%s" % (" ".join(cmd), r.stdout[-4000:]))
    return r.stdout


def env_for(variant):
    out = os.path.join(BUILD, variant)
    e = dict(os.environ)
    e["LD_LIBRARY_PATH"] = out
    e["CHIBI_MODULE_PATH"] = os.path.join(out, "lib") + ":" + os.path.join(REPO, "lib")
    e["CHIBI_IGNORE_SYSTEM_PATH"] = "1"
    e["LC_ALL"] = "C"
    e["ASAN_OPTIONS"] = ("detect_leaks=0:allocator_may_return_null=1:max_allocation_size_mb=1024:"
                         "abort_on_error=0:halt_on_error=1:detect_stack_use_after_return=0:"
                         "handle_segv=1:allow_user_poisoning=1:symbolize=1:detect_odr_violation=0")
    e["TSAN_OPTIONS"] = "halt_on_error=0:second_deadlock_stack=1"
    return e


def build_variant(variant, log=None, force=False):
    """Build (if stale) and return the output directory."""
    _load_harness_registry()
    cc, cflags, ldflags = VARIANTS[variant]
    out = os.path.join(BUILD, variant)
    os.makedirs(BUILD, exist_ok=True)
    lock = open(os.path.join(BUILD, variant + ".lock"), "w")
    fcntl.flock(lock, fcntl.LOCK_EX)
    try:
        want = tree_hash() + "|" + " ".join([cc] + cflags + ldflags)
        stamp = os.path.join(out, "STAMP")
        if not force and os.path.exists(stamp) and open(stamp).read() == want:
            return out
        t0 = time.time()
        if os.path.exists(out):
            shutil.rmtree(out)
        os.makedirs(os.path.join(out, "include", "chibi"))
        os.makedirs(os.path.join(out, "obj"))
        version = open(os.path.join(REPO, "VERSION")).read().strip()
        release = open(os.path.join(REPO, "RELEASE")).read().strip()
        with open(os.path.join(out, "include", "chibi", "install.h"), "w") as f:
            f.write('#define sexp_so_extension ".so"\n'
                    '#define sexp_default_module_path "/nonexistent/chibi"\n'
                    '#define sexp_platform "linux"\n#define sexp_architecture "x86_64"\n'
                    '#define sexp_version "%s"\n#define sexp_release_name "%s"\n' % (version, release))
        inc = ["-I" + os.path.join(REPO, "include"), "-I" + os.path.join(out, "include")]
        common = [cc] + cflags + BASE_DEFS + inc + ["-fPIC", "-w"]
        pool = ThreadPoolExecutor(16)
        objs = [os.path.join(out, "obj", c[:-2] + ".o") for c in CORE]
        list(pool.map(lambda p: run(common + ["-c", os.path.join(REPO, p[0]), "-o", p[1]]),
                      zip(CORE, objs)))
        lib = os.path.join(out, "libchibi-scheme.so")
        run([cc] + ldflags + ["-shared", "-o", lib] + objs + ["-lm", "-ldl"])
        os.symlink("libchibi-scheme.so", os.path.join(out, "libchibi-scheme.so.0"))
        exe = os.path.join(out, "chibi-scheme")
        link = ["-L" + out, "-lchibi-scheme", "-lm", "-ldl", "-Wl,-rpath," + out]
        run(common + ldflags + [os.path.join(REPO, "main.c"), "-o", exe] + link)
        env = env_for(variant)

        def do_stub(stub):
            cfile = os.path.join(out, stub[:-5] + ".c")
            os.makedirs(os.path.dirname(cfile), exist_ok=True)
            run([exe, os.path.join(REPO, "tools", "chibi-ffi"), os.path.join(REPO, stub), cfile],
                cwd=REPO, env=env)
            so = cfile[:-2] + ".so"
            run(common + ldflags + ["-shared", cfile, "-o", so] + link + EXTRA_LINK.get(stub, []))

        def do_clib(c):
            so = os.path.join(out, c[:-2] + ".so")
            os.makedirs(os.path.dirname(so), exist_ok=True)
            run(common + ldflags + ["-shared", os.path.join(REPO, c), "-o", so] + link)

        def do_harness(item):
            name, (srcs, extra, variants) = item
            if variants and variant not in variants:
                return
            hd = os.path.join(out, "harness")
            os.makedirs(hd, exist_ok=True)
            srcp = [os.path.join(VERIF, "harness", s) for s in srcs]
            flags = [x for x in common if x != "-w"]
            tgt = os.path.join(hd, name)
            if "-shared" in extra:
                tgt += ".so"
            run(flags + ldflags + ["-I" + os.path.join(VERIF, "harness"), "-DVERIF_VARIANT=\"%s\"" % variant,
                                   "-DVERIF_VARIANT_" + variant.upper() + "=1"]
                + srcp + ["-o", tgt] + link + ["-lpthread"] + extra)

        futs = [pool.submit(do_stub, s) for s in STUBS] + [pool.submit(do_clib, c) for c in CLIBS] \
            + [pool.submit(do_harness, it) for it in HARNESSES.items()]
        for f in futs:
            f.result()
        pool.shutdown()
        with open(stamp, "w") as f:
            f.write(want)
        if log:
            log("built variant %s in %.1fs" % (variant, time.time() - t0))
        return out
    finally:
        fcntl.flock(lock, fcntl.LOCK_UN)
        lock.close()


if __name__ == "__main__":
    vs = sys.argv[1:] or list(VARIANTS)
    force = "--force" in vs
    vs = [v for v in vs if not v.startswith("--")]
    for v in vs:
        print(build_variant(v, log=print, force=force))
