"""Shared plumbing for the checks: tiers/deadlines, runners, evidence, known findings, replay files."""
import json, os, subprocess, sys, time, tempfile, shutil, threading, hashlib, re
from collections import Counter
from concurrent.futures import ThreadPoolExecutor

from . import build

VERIF = build.VERIF
REPO = build.REPO
NCPU = int(os.environ.get("VERIF_JOBS", "16"))
SCRATCH_ROOT = os.path.join(build.BUILD, "scratch")


def log(*a):
    print("[%s]" % time.strftime("%H:%M:%S"), *a, file=sys.stderr, flush=True)


class HarnessError(Exception):
    """Problem in the machinery (not a property violation): exit status 2."""


def load_known_findings():
    p = os.path.join(VERIF, "known_findings.json")
    if not os.path.exists(p):
        return []
    return json.load(open(p))["findings"]


class Check:
    def __init__(self, pid, level, tier=None, seed=None, quick_s=150, thorough_s=1200):
        self.pid = pid
        self.level = level
        self.tier = tier or os.environ.get("VERIF_TIER", "quick")
        if self.tier not in ("quick", "thorough"):
            self.tier = "quick"
        self.seed = int(seed if seed is not None else os.environ.get("VERIF_SEED", "0") or 0)
        self.t0 = time.time()
        budget = quick_s if self.tier == "quick" else thorough_s
        if os.environ.get("VERIF_DEADLINE_S"):
            budget = float(os.environ["VERIF_DEADLINE_S"])
        self.deadline = self.t0 + budget
        self.evaluations = 0
        self.nontrivial = set()
        self.nontrivial_n = 0
        self.samples = []
        self.outcomes = Counter()
        self.excluded = Counter()
        self.violations = []          # (descriptor, what, replay path)
        self.known_hits = {}          # finding id -> count
        self.cov = {}                 # extra coverage keys
        self.assumptions = []
        self.exhaustive = True
        self.rule = ""
        self.findings = [f for f in load_known_findings() if f["property"] == pid]
        self.lock = threading.Lock()
        # mutant runs (mc/mutant.sh) must not clobber the committed evidence / replay files
        self.out_root = build.BUILD if os.environ.get("VERIF_NO_EVIDENCE") else VERIF
        self.replay_dir = os.path.join(self.out_root, "replay", pid)
        self._replay_n = 0
        self.max_reported = 25

    @property
    def quick(self):
        return self.tier == "quick"

    def time_left(self):
        return self.deadline - time.time()

    def out_of_time(self):
        if time.time() > self.deadline:
            self.exhaustive = False
            return True
        return False

    def sample(self, s, cap=12):
        with self.lock:
            if len(self.samples) < cap:
                self.samples.append(s)

    def count(self, n=1, outcome=None, key=None):
        with self.lock:
            self.evaluations += n
            if outcome is not None:
                self.outcomes[outcome] += n
            if key is not None:
                self.nontrivial.add(key)

    def exclude(self, reason, n=1):
        with self.lock:
            self.excluded[reason] += n

    def _match_known(self, desc):
        for f in self.findings:
            if f.get("status") != "known":
                continue
            try:
                ns = dict(desc)
                ns["re"] = re
                if eval(f["match"], {"__builtins__": {"abs": abs, "len": len, "min": min, "max": max, "int": int,
                                                       "str": str, "isinstance": isinstance, "any": any, "all": all}}, ns):
                    return f
            except Exception:
                continue
        return None

    def violation(self, desc, what, replay_text=None, ext="scm"):
        """desc: dict describing the failing case (matched against known_findings.json)."""
        with self.lock:
            f = self._match_known(desc)
            if f:
                self.known_hits[f["id"]] = self.known_hits.get(f["id"], 0) + 1
                return False
            self._replay_n += 1
            path = None
            if self._replay_n <= self.max_reported:
                os.makedirs(self.replay_dir, exist_ok=True)
                path = os.path.join(self.replay_dir, "%s-%03d.%s" % (self.tier, self._replay_n, ext))
                with open(path, "w") as fh:
                    fh.write(replay_text if replay_text is not None else json.dumps(desc, default=str, indent=1))
                meta = dict(desc)
                meta["what"] = what
                with open(path + ".json", "w") as fh:
                    json.dump(meta, fh, default=str, indent=1)
            self.violations.append((desc, what, path))
            if self._replay_n <= self.max_reported:
                log("VIOLATION candidate:", what)
            return True

    def clean_replays(self):
        if os.path.isdir(self.replay_dir):
            for f in os.listdir(self.replay_dir):
                if f.startswith(self.tier + "-"):
                    os.unlink(os.path.join(self.replay_dir, f))

    def finish(self):
        wall = time.time() - self.t0
        cov = {
            "evaluations": int(self.evaluations),
            "distinct_nontrivial": int(len(self.nontrivial) + self.nontrivial_n),
            "rule": self.rule,
            "samples": self.samples[:12] if self.samples else ["(none)"],
            "distinct_outcomes": len(self.outcomes),
            "outcomes": dict(self.outcomes.most_common(40)),
            "excluded": dict(self.excluded),
            "known_findings_hit": self.known_hits,
            "exhaustive": bool(self.exhaustive),
        }
        cov.update(self.cov)
        ev = {
            "property_id": self.pid, "tier": self.tier, "seed": self.seed, "level": self.level,
            "coverage": cov, "assumptions": self.assumptions, "wall_s": round(wall, 2),
            "violations": len(self.violations),
        }
        os.makedirs(os.path.join(self.out_root, "evidence"), exist_ok=True)
        with open(os.path.join(self.out_root, "evidence", self.pid + ".json"), "w") as fh:
            json.dump(ev, fh, indent=1, default=str)
        for f in self.findings:
            if f.get("status") == "known" and self.known_hits.get(f["id"]):
                print("KNOWN-FINDING: property=%s %s (%d cases)" % (self.pid, f["what"], self.known_hits[f["id"]]))
        for desc, what, path in self.violations[: self.max_reported]:
            print("VIOLATION property=%s replay=%s" % (self.pid, path))
            print("  " + what[:600])
        if len(self.violations) > self.max_reported:
            print("  ... and %d more violations" % (len(self.violations) - self.max_reported))
        if len(self.violations) > 3:
            groups = {}
            for desc, what, path in self.violations:
                groups.setdefault(str(desc.get("op", desc.get("group", "?"))), []).append(what)
            for g, ws in sorted(groups.items(), key=lambda kv: -len(kv[1])):
                print("  group %-22s %6d   e.g. %s" % (g, len(ws), " || ".join(w[:150] for w in ws[:3])))
        print("%s %s: evaluations=%d distinct_nontrivial=%d outcomes=%d violations=%d known=%s exhaustive=%s wall=%.1fs" % (
            self.pid, self.tier, self.evaluations, cov["distinct_nontrivial"], len(self.outcomes), len(self.violations),
            dict(self.known_hits), self.exhaustive, wall))
        sys.stdout.flush()
        return 1 if self.violations else 0


# ------------------------------------------------------------------ running the implementation

_scratch_lock = threading.Lock()
_scratch_n = [0]


def scratch_dir(tag="s"):
    with _scratch_lock:
        _scratch_n[0] += 1
        n = _scratch_n[0]
    d = os.path.join(SCRATCH_ROOT, "%s-%d-%d" % (tag, os.getpid(), n))
    os.makedirs(d, exist_ok=True)
    return d


def cleanup_scratch():
    mine = "-%d-" % os.getpid()
    if os.path.isdir(SCRATCH_ROOT):
        for f in os.listdir(SCRATCH_ROOT):
            if mine in f:
                shutil.rmtree(os.path.join(SCRATCH_ROOT, f), ignore_errors=True)


class Result:
    def __init__(self, rc, out, timed_out=False):
        self.rc = rc
        self.out = out
        self.timed_out = timed_out

    @property
    def crashed(self):
        return self.timed_out or self.rc != 0

    def asan(self):
        m = re.search(r"ERROR: AddressSanitizer: (\S+).*?\n((?:\s+#\d+ .*\n)+)", self.out)
        if not m:
            return None
        frames = re.findall(r"#\d+ \S+ in (\S+) (\S+)", m.group(2))
        return m.group(1), frames


def die_with_parent():
    """preexec_fn for every harness process: when the Python worker that started it is killed (pool.terminate at a deadline), the
    child gets SIGKILL too instead of spinning on as an orphan"""
    try:
        import ctypes, signal
        ctypes.CDLL("libc.so.6", use_errno=True).prctl(1, signal.SIGKILL)   # PR_SET_PDEATHSIG
    except Exception:
        pass


def evalbatch(variant, files, lang=None, quick_env=False, heap=None, preludes=(), env=None, timeout=300,
              print_values=False, cwd=None, exe="evalbatch", stdin_data=None):
    out = build.build_variant(variant)
    e = build.env_for(variant)
    if env:
        e.update({k: str(v) for k, v in env.items()})
    cmd = [os.path.join(out, "harness", exe)]
    if heap:
        cmd += ["-h", heap]
    if quick_env:
        cmd += ["-Q"]
    if lang:
        cmd += ["-x", lang]
    if print_values:
        cmd += ["-p"]
    for p in preludes:
        cmd += ["-P", p]
    cmd += list(files)
    own = cwd is None
    if own:
        cwd = scratch_dir("run")
    try:
        p = subprocess.run(cmd, cwd=cwd, env=e, stdout=subprocess.PIPE, stderr=subprocess.STDOUT, preexec_fn=die_with_parent,
                           input=stdin_data, stdin=None if stdin_data is not None else subprocess.DEVNULL, timeout=timeout)
        return Result(p.returncode, p.stdout.decode("utf-8", "replace"))
    except subprocess.TimeoutExpired as ex:
        return Result(-9, (ex.stdout or b"").decode("utf-8", "replace"), timed_out=True)
    finally:
        if own:
            shutil.rmtree(cwd, ignore_errors=True)


def run_chibi(variant, args, env=None, timeout=300, cwd=None, stdin_data=None):
    out = build.build_variant(variant)
    e = build.env_for(variant)
    if env:
        e.update({k: str(v) for k, v in env.items()})
    own = cwd is None
    if own:
        cwd = scratch_dir("run")
    try:
        p = subprocess.run([os.path.join(out, "chibi-scheme")] + list(args), cwd=cwd, env=e, stdout=subprocess.PIPE,
                           stderr=subprocess.STDOUT, input=stdin_data, preexec_fn=die_with_parent,
                           stdin=None if stdin_data is not None else subprocess.DEVNULL, timeout=timeout)
        return Result(p.returncode, p.stdout.decode("utf-8", "replace"))
    except subprocess.TimeoutExpired as ex:
        return Result(-9, (ex.stdout or b"").decode("utf-8", "replace"), timed_out=True)
    finally:
        if own:
            shutil.rmtree(cwd, ignore_errors=True)


class Server:
    """evalbatch --server: language + preludes loaded once, one fork() per execution."""

    def __init__(self, variant, lang=None, preludes=(), heap=None, env=None, quick_env=False):
        out = build.build_variant(variant)
        e = build.env_for(variant)
        if env:
            e.update({k: str(v) for k, v in env.items()})
        self.dir = scratch_dir("srv")
        cmd = [os.path.join(out, "harness", "evalbatch")]
        if heap:
            cmd += ["-h", heap]
        if quick_env:
            cmd += ["-Q"]
        if lang:
            cmd += ["-x", lang]
        for p in preludes:
            cmd += ["-P", p]
        cmd += ["--server"]
        self.p = subprocess.Popen(cmd, cwd=self.dir, env=e, stdin=subprocess.PIPE, stdout=subprocess.PIPE,   # (no PDEATHSIG: it is tied to the creating *thread*)
                                  stderr=subprocess.STDOUT)
        self.n = 0
        pre = []
        while True:
            line = self.p.stdout.readline()
            if not line:
                raise HarnessError("evalbatch server died during start-up: " + b"".join(pre).decode("utf-8", "replace")[-2000:])
            if line.strip() == b"READY":
                break
            pre.append(line)
        self.startup_output = b"".join(pre).decode("utf-8", "replace")

    def run(self, file, gc="none", budget=0, sched="-"):
        self.n += 1
        outp = os.path.join(self.dir, "out%d" % self.n)
        self.p.stdin.write(("RUN %s %s %d %s %s\n" % (outp, gc, budget, sched, file)).encode())
        self.p.stdin.flush()
        line = self.p.stdout.readline().decode().strip()
        if not line.startswith("DONE"):
            raise HarnessError("server protocol error: %r" % line)
        status = int(line.split()[1])
        try:
            with open(outp, "rb") as fh:
                out = fh.read().decode("utf-8", "replace")
            os.unlink(outp)
        except OSError:
            out = ""
        if os.WIFEXITED(status):
            rc = os.WEXITSTATUS(status)
        else:
            rc = -os.WTERMSIG(status)
        return Result(rc, out)

    def close(self):
        try:
            self.p.stdin.write(b"QUIT\n")
            self.p.stdin.flush()
            self.p.wait(timeout=10)
        except Exception:
            self.p.kill()
        shutil.rmtree(self.dir, ignore_errors=True)


def pmap(fn, items, workers=None):
    with ThreadPoolExecutor(workers or NCPU) as ex:
        return list(ex.map(fn, items))


def write_file(path, text):
    with open(path, "w") as fh:
        fh.write(text)
    return path


def parse_tagged(out, tag="#"):
    """Lines '<tag><n> <payload>' -> {n: payload}."""
    res = {}
    for line in out.split("\n"):
        if line.startswith(tag):
            head, _, rest = line[len(tag):].partition(" ")
            if head.isdigit():
                # a case must report exactly once: a second line for the same case (control returned twice) is kept visible
                res[int(head)] = rest if int(head) not in res else res[int(head)] + "  ++REPORTED AGAIN++  " + rest
    return res


def sdatum(x):
    """Python value -> Scheme literal text (ints, Fractions, bools, strings)."""
    from fractions import Fraction
    if isinstance(x, bool):
        return "#t" if x else "#f"
    if isinstance(x, int):
        return str(x)
    if isinstance(x, Fraction):
        return "%d/%d" % (x.numerator, x.denominator) if x.denominator != 1 else str(x.numerator)
    if isinstance(x, str):
        return '"' + x.replace("\\", "\\\\").replace('"', '\\"') + '"'
    raise TypeError(x)
