#!/usr/bin/env python3
"""Import one seeded change produced by a mutation sub-agent, confirm it, and record which checks catch it.

usage: mc/seed.py import <ID> <i>            copy /tmp/mut/<ID>-out/m<i>.* into /verif/seeded/<ID>-m<i>/
       mc/seed.py confirm <ID>-m<i>          scratch worktree + patch: repository build + ctest, then the demonstration programs on
                                             the patched and on the pristine build (writes confirm.txt, updates meta.json)
       mc/seed.py check <ID>-m<i> [check-id ...] [--tier quick|thorough]
                                             run checks (default: the property's own) against the patched scratch worktree
Nothing is ever applied to /repo; scratch trees live under /var/tmp and are removed afterwards."""
import json, os, re, shutil, subprocess, sys, tempfile, glob, time
VERIF = os.path.dirname(os.path.dirname(os.path.abspath(__file__)))
SEEDED = os.path.join(VERIF, "seeded")


def sh(cmd, **kw):
    return subprocess.run(cmd, shell=True, stdout=subprocess.PIPE, stderr=subprocess.STDOUT, text=True, **kw)


def load_meta(d):
    p = os.path.join(d, "meta.json")
    return json.load(open(p)) if os.path.exists(p) else {}


def save_meta(d, m):
    json.dump(m, open(os.path.join(d, "meta.json"), "w"), indent=1, sort_keys=True)


def do_import(pid, i, round2=False, rnd=None):
    src = ("/tmp/mut2/%s-out" if round2 else "/tmp/mut/%s-out") % pid
    name = "%s-m%s" % (pid, int(i) + 2 if round2 else i)
    if rnd:
        src = "/tmp/mut%s/%s-out" % (rnd, pid)
        k = 1
        while os.path.exists(os.path.join(SEEDED, "%s-m%d" % (pid, k))):
            k += 1
        name = "%s-m%d" % (pid, k)
    d = os.path.join(SEEDED, name)
    os.makedirs(d, exist_ok=True)
    shutil.copy(os.path.join(src, "m%s.patch" % i), os.path.join(d, "patch.diff"))
    md = os.path.join(src, "m%s.md" % i)
    text = open(md).read().replace(src + "/", "").replace("/tmp/mut%s/%s" % (rnd or 2, pid), "<worktree>").replace("/tmp/mut/%s" % pid, "<worktree>")
    open(os.path.join(d, "demonstration.md"), "w").write(text)
    demos = []
    for f in sorted(glob.glob(os.path.join(src, "m%s[-_.]*" % i)) + glob.glob(os.path.join(src, "m%s[a-z]*" % i))):
        b = os.path.basename(f)
        if os.path.isdir(f):
            for root, _, fs in os.walk(f):
                for x in fs:
                    dst = os.path.join(d, "libs", os.path.relpath(os.path.join(root, x), f))
                    os.makedirs(os.path.dirname(dst), exist_ok=True)
                    shutil.copy(os.path.join(root, x), dst)
                    if x.endswith(".scm") and root == f and x.startswith("m"):
                        shutil.copy(os.path.join(root, x), os.path.join(d, x))
                        demos.append(x)
            continue
        if b.endswith((".patch", ".md")) or os.path.getsize(f) > 300000:
            continue
        shutil.copy(f, os.path.join(d, b))
        if b.endswith((".scm", ".sh", ".c")):
            demos.append(b)
    patch = open(os.path.join(d, "patch.diff")).read()
    files = re.findall(r"^\+\+\+ b/(\S+)", patch, re.M)
    m = load_meta(d)
    title = re.search(r"^#\s*(.*)$", text, re.M)
    m.update({"id": name, "property": pid, "origin": "fresh sub-agent given only the property text and a scratch worktree (mc/mutprompt.py)" + (", later round: also told which changes others had already proposed" if (round2 or rnd) else ""),
              "files_touched": files, "summary": title.group(1).strip() if title else "", "demo_files": sorted(set(demos)),
              "agent_reported_tests_pass": True})
    save_meta(d, m)
    print("imported", name, files, demos)


def scratch_worktree(patch):
    w = tempfile.mkdtemp(prefix="chibi-seed.", dir="/var/tmp")
    src = os.path.join(w, "src")
    subprocess.run(["git", "-C", "/repo", "worktree", "add", "--detach", src, "HEAD"], stdout=subprocess.DEVNULL, stderr=subprocess.DEVNULL, check=True)
    if patch:
        r = sh("git -C %s apply %s" % (src, patch))
        if r.returncode != 0:
            remove_worktree(w)
            raise SystemExit("patch does not apply: " + r.stdout)
    return w, src


def remove_worktree(w):
    subprocess.run(["git", "-C", "/repo", "worktree", "remove", "--force", os.path.join(w, "src")], stdout=subprocess.DEVNULL, stderr=subprocess.DEVNULL)
    shutil.rmtree(w, ignore_errors=True)


def build_and_test(src, run_tests=True):
    r = sh("cd %s && cmake -G Ninja -B _build -S . >/dev/null 2>&1 && cmake --build _build 2>&1 | tail -2" % src)
    if not os.path.exists(os.path.join(src, "_build", "chibi-scheme")):
        return False, "BUILD FAILED\n" + r.stdout
    if not run_tests:
        return True, ""
    r = sh("cd %s && ctest --test-dir _build -j8 --timeout 900 2>&1 | tail -6" % src)
    return "100% tests passed" in r.stdout, r.stdout


def run_demos(src, d, demos):
    out = {}
    for f in demos:
        if f.endswith(".c"):
            exe = os.path.join(src, "_build", "demo-" + f[:-2])
            r = sh("cd %s && cc -O1 -g -I include -I _build/include %s -L _build -lchibi-scheme -lpthread -o %s 2>&1 | tail -5" % (src, os.path.join(d, f), exe))
            arg = "seq" if "seq" in open(os.path.join(d, f)).read() else ""
            r2 = sh("cd %s && CHIBI_MODULE_PATH=_build/lib:lib LD_LIBRARY_PATH=_build timeout 300 %s %s 2>&1 | sed -E 's/[0-9]{9,}/N/g' | tail -40 | cut -c1-300; echo \"exit=${PIPESTATUS[0]}\"" % (src, exe, arg), executable="/bin/bash")
            out["%s (C embedding program%s)" % (f, ", argument seq" if arg else "")] = r.stdout + r2.stdout
            continue
        if not f.endswith(".scm"):
            continue
        p = os.path.join(d, f)
        inc = "-I _build/lib" + (" -I %s" % os.path.join(d, "libs") if os.path.isdir(os.path.join(d, "libs")) else "")
        for mode, cmd in (("file", "./_build/chibi-scheme %s %s" % (inc, p)), ("stdin", "./_build/chibi-scheme %s < %s" % (inc, p))):
            r = sh("cd %s && timeout 300 %s 2>&1 | tail -25 | cut -c1-300; echo \"exit=${PIPESTATUS[0]}\"" % (src, cmd), executable="/bin/bash")
            out["%s (%s)" % (f, mode)] = r.stdout
    return out


def do_confirm(name):
    d = os.path.join(SEEDED, name)
    m = load_meta(d)
    log = []
    w, src = scratch_worktree(os.path.join(d, "patch.diff"))
    try:
        ok, txt = build_and_test(src)
        log.append("## patched tree: repository test suite (cmake + ctest -j8)\n" + txt)
        changed = run_demos(src, d, m.get("demo_files", []))
    finally:
        remove_worktree(w)
    pristine = os.environ.get("SEED_PRISTINE")      # a pre-built pristine worktree shared by a batch of confirmations
    if pristine and os.path.exists(os.path.join(pristine, "_build", "chibi-scheme")):
        orig = run_demos(pristine, d, m.get("demo_files", []))
    else:
        w, src = scratch_worktree(None)
        try:
            build_and_test(src, run_tests=False)
            orig = run_demos(src, d, m.get("demo_files", []))
        finally:
            remove_worktree(w)
    differs = []
    for k in changed:
        log.append("## demonstration %s\n--- pristine tree:\n%s--- patched tree:\n%s" % (k, orig.get(k, ""), changed[k]))
        if orig.get(k) != changed[k]:
            differs.append(k)
    open(os.path.join(d, "confirm.txt"), "w").write("\n".join(log))
    m["confirmed_tests_pass"] = ok
    m["confirmed_demo_differs"] = differs
    save_meta(d, m)
    print(name, "tests_pass=%s" % ok, "demo differs in:", differs)


def do_confirm_cmd(name, cmd):
    """demonstrations that need their own command line (arguments, ulimit, a second build, a C driver): runs `cmd` (with {d} = the
    seed's directory) from the root of the patched and of the pristine (SEED_PRISTINE) tree, appends both outputs to confirm.txt"""
    d = os.path.join(SEEDED, name)
    m = load_meta(d)
    pristine = os.environ["SEED_PRISTINE"]
    w, src = scratch_worktree(os.path.join(d, "patch.diff"))
    try:
        build_and_test(src, run_tests=False)
        c = cmd.replace("{d}", d)
        full = "cd %%s && (%s) 2>&1 | sed -E 's/0x[0-9a-f]{6,}|[0-9]{9,}/N/g' | tail -60 | cut -c1-300" % c
        changed = sh(full % src, executable="/bin/bash").stdout
        orig = sh(full % pristine, executable="/bin/bash").stdout
    finally:
        remove_worktree(w)
    open(os.path.join(d, "confirm.txt"), "a").write("\n## demonstration by its own command: %s\n--- pristine tree:\n%s--- patched tree:\n%s" % (cmd, orig, changed))
    if orig != changed:
        m["confirmed_demo_differs"] = sorted(set(m.get("confirmed_demo_differs", []) + ["own command: " + cmd]))
    save_meta(d, m)
    print(name, "own command differs:", orig != changed)


def do_check(name, checks, tier):
    d = os.path.join(SEEDED, name)
    m = load_meta(d)
    checks = checks or [m["property"]]
    w, src = scratch_worktree(os.path.join(d, "patch.diff"))
    try:
        for c in checks:
            t0 = time.time()
            env = dict(os.environ, VERIF_REPO=src, VERIF_BUILD=os.path.join(w, "build"), VERIF_NO_EVIDENCE="1")
            r = subprocess.run(["timeout", "2400", "./check", c, tier], cwd=VERIF, env=env, stdout=subprocess.PIPE, stderr=subprocess.STDOUT, text=True)
            lines = r.stdout.split("\n")
            viol = [l for l in lines if l.startswith("VIOLATION property=")]
            summary = [l for l in lines if re.match(r"^C\d\d (quick|thorough):", l)]
            groups = [l for l in lines if l.startswith("  group ") or l.startswith("GROUP ")][:8]
            res = {"tier": tier, "exit": r.returncode, "violation_lines": len(viol), "summary": summary[-1][:300] if summary else lines[-2][:300] if len(lines) > 1 else "",
                   "wall_s": round(time.time() - t0, 1), "verdict": "caught" if (r.returncode == 1 and viol) else ("missed" if r.returncode == 0 else "error rc=%d" % r.returncode)}
            m.setdefault("checks", {})["%s/%s" % (c, tier)] = res
            open(os.path.join(d, "check-%s-%s.log" % (c, tier)), "w").write("\n".join(l[:400] for l in lines[-60:]))
            print(name, c, tier, res["verdict"], "violations=%d" % len(viol), "wall=%ss" % res["wall_s"], "|", res["summary"][:160])
    finally:
        remove_worktree(w)
    save_meta(d, m)


if __name__ == "__main__":
    cmd = sys.argv[1]
    if cmd == "import":
        do_import(sys.argv[2], sys.argv[3])
    elif cmd == "import2":
        do_import(sys.argv[2], sys.argv[3], True)
    elif cmd == "import3":
        do_import(sys.argv[2], sys.argv[3], False, "3")
    elif cmd == "confirm":
        do_confirm(sys.argv[2])
    elif cmd == "confirm-cmd":
        do_confirm_cmd(sys.argv[2], sys.argv[3])
    elif cmd == "check":
        args = sys.argv[3:]
        tier = "quick"
        if "--tier" in args:
            k = args.index("--tier")
            tier = args[k + 1]
            del args[k:k + 2]
        do_check(sys.argv[2], args, tier)
