"""C20 -- regular expression matching agrees with the SRFI 115 semantics.

Bounded-exhaustive enumeration: every SRE of a stated stratum (all terms of that shape over the atom and
operator alphabet of DESIGN §4 C20) x every subject string up to a length bound over {a, b, newline}
(plus a fixed list with A / e-acute for case folding and multi-byte characters) is run through
`regexp-matches`, `regexp-search` of (chibi regexp) on the real interpreter; one process evaluates
thousands of (SRE, subject) pairs, each SRE compiled once.

Oracle (mc/models/sre.py): Brzozowski derivatives with line-boundary context.  For every pair
  * regexp-matches non-#f      <=>  the whole subject is in L(sre)
  * regexp-search  non-#f      <=>  some substring, read at its place in the subject, is in L(sre)
  * reported span 0 of regexp-matches is (0, len); span 0 of regexp-search delimits text in L(sre)
  * each reported numbered (and named) submatch span lies inside span 0 and delimits text in the
    language of the corresponding sub-SRE (same case-folding context, same place in the subject)
Which match is reported (leftmost/longest, which iteration of a repeated submatch) is NOT asserted.
Every expected value is first cross-checked against two further independent deciders (direct
set-of-positions evaluation, Python `re` in MULTILINE|DOTALL mode); a disagreement between the three is
a harness error, not a violation.
"""
import os, re, shutil, time
import multiprocessing
from multiprocessing import Pool

from .. import common, build
from ..common import Check, log, HarnessError
from ..models import sre as M

PRELUDE = r"""(import (scheme base) (scheme write) (chibi regexp))
(define (digit x) (if x (write-string (number->string x)) (write-char #\_)))
(define (show-match m named?)
  (if (not m)
      (write-char #\-)
      (let ((n (regexp-match-count m)))
        (do ((k 0 (+ k 1))) ((> k n))
          (digit (regexp-match-submatch-start m k))
          (digit (regexp-match-submatch-end m k)))
        (when named?
          (write-char #\n)
          (digit (regexp-match-submatch-start m 'n))
          (digit (regexp-match-submatch-end m 'n))))))
(define (run-case idx named? both? sre)
  (write idx)
  (guard (e (#t (display " CE")))
    (let ((re (regexp sre)))
      (do ((j 0 (+ j 1))) ((= j (vector-length subjects)))
        (write-char #\space)
        (guard (e (#t (write-char #\E)))
          (let ((s (vector-ref subjects j)))
            (when both? (write-char (if (regexp-matches? re s) #\T #\F)))
            (show-match (regexp-matches re s) named?)
            (write-char #\/)
            (show-match (regexp-search re s) named?))))))
  (newline))
"""

EXTRA_SUBJECTS = ["A", "B", "aA", "Ab", "BA", "AB\nb", "a\nA", "\u00e9", "\u00c9", "a\u00e9", "\u00e9b",
                  "\u00e9\u00e9", "a\u00e9\nb", "\u00e9\na", "A\u00c9a"]

# atoms for the small multi-byte / case-folding family
E_ACUTE = ("lit", "\u00e9")
E_ACUTE_UP = ("lit", "\u00c9")


def sstr(s):
    return '"' + s.replace("\\", "\\\\").replace('"', '\\"').replace("\n", "\\n") + '"'


# ------------------------------------------------------------------------------------------ the space

def _class_like(t):
    """operands that (chibi regexp) folds into one character class when they meet in an `or`"""
    k = t[0]
    if k in ("any", "range", "not"):
        return True
    if k == "lit":
        return len(t[1]) == 1
    if k == "or":
        return all(_class_like(x) for x in t[1:])
    if k == "nocase":
        return _class_like(t[1])
    return False


def _cofinite(t):
    return t[0] in ("any", "not") or any(_cofinite(c) for c in M.children(t))


def slow_compile(t, ci=False):
    """An `or` whose trailing operands are all character classes, one of them co-finite (any, (~ ..)), standing under w/nocase: the
    compiler case-folds the ~1.1 million members one by one, ~100 s per SRE (measured).  These are kept
    out of the bulk strata (counted in `excluded`) and run as their own block NC in the thorough tier."""
    k = t[0]
    if k == "nocase":
        return slow_compile(t[1], True)
    if k == "or" and ci:
        # the compiler peels operands off the front; every all-class suffix (or y ..) is folded into one class
        for i in range(1, len(t)):
            tail = t[i:]
            if all(_class_like(x) for x in tail) and any(_cofinite(x) for x in tail):
                return True
    return any(slow_compile(c, ci) for c in M.children(t))


def class_union(t):
    """contains an `or` whose trailing >= 2 operands are all character classes, one of them co-finite: the
    compiler merges them with char-set-union instead of building an alternation"""
    if t[0] == "or":
        for i in range(1, len(t) - 1):
            tail = t[i:]
            if all(_class_like(x) for x in tail) and any(_cofinite(x) for x in tail):
                return True
    return any(class_union(c) for c in M.children(t))


def family(t):
    if slow_compile(t):
        return "w/nocase over (or .. classes, one co-finite)"
    if class_union(t):
        return "(or classes, one co-finite) merged by char-set-union"
    return "other"


_strata = {}
_excluded = {}


def stratum(name):
    if name not in _strata:
        if name == "NC":
            na, b = ("not", "a"), ("lit", "b")
            _strata[name] = [("nocase", ("or", b, na)), ("nocase", ("or", na, b)), ("nocase", ("or", ("lit", ""), na)),
                             ("nocase", ("or", b, ("any",)))]
        else:
            full = _stratum(name)
            keep = [t for t in full if not slow_compile(t)]
            _strata[name] = keep
            _excluded[name] = len(full) - len(keep)
    return _strata[name]


def _stratum(name):
    A = M.ATOMS
    if name == "A":
        return list(A)
    D1 = M.depth1()
    if name == "D1":
        return D1
    if name == "D2u":                 # op(depth-1 term)
        return list(M.unary_over(D1))
    if name == "D2m":                 # binary with one atomic and one depth-1 operand
        return list(M.binary_over(D1, A)) + list(M.binary_over(A, D1))
    if name == "D2f":                 # binary with two depth-1 operands
        return list(M.binary_over(D1, D1))
    D2u = list(M.unary_over(D1))
    if name == "D3u":                 # op(op(depth-1 term)), the two outer operators drawn from the 7 other than (-> n x)
        u7 = [u for u in M.UNARY if u(("any",))[0] != "->"]
        return [u1(u2(x)) for x in D1 for u2 in u7 for u1 in u7]
    if name == "D3m":                 # binary(op(depth-1 term), atom) both orders
        return list(M.binary_over(D2u, A)) + list(M.binary_over(A, D2u))
    if name == "F":                   # case-folding flags: w/case and w/nocase, alone, nested both ways and around submatches
        a, b, ab = ("lit", "a"), ("lit", "b"), ("range", "a", "b")
        cores = [a, ("lit", "ab"), ab, ("not", "a"), ("or", a, b), ("$", a), ("seq", a, b), ("*", a), ("or", ("lit", "ab"), ("lit", "b"))]
        out = []
        for x in cores:
            for w in (lambda y: ("case", y), lambda y: ("nocase", y), lambda y: ("nocase", ("case", y)), lambda y: ("case", ("nocase", y)),
                      lambda y: ("nocase", ("seq", ("case", y), y)), lambda y: ("seq", ("nocase", y), ("case", y)),
                      lambda y: ("seq", b, ("case", ("$", y))), lambda y: ("nocase", ("or", ("case", y), b))):
                out.append(w(x))
        return out
    if name == "R":                   # repetition bounds: (** m n x) / (= k x) for every bound pair of a small grid, over atoms and over
        a, b = ("lit", "a"), ("lit", "b")    # bodies that hold submatches, alone and followed by a further submatch (numbering!)
        bodies = list(A) + [("$", a), ("$", ("or", a, b)), ("seq", ("$", a), b), ("->", "n", a), ("$", ("*", a)), ("?", ("$", a))]
        reps = [lambda x, m=m, n=n: ("**", m, n, x) for m, n in ((0, 1), (0, 2), (0, 3), (1, 3), (2, 3), (2, 4), (2, 2), (0, 0))] + \
               [lambda x, k=k: ("=", k, x) for k in (0, 1, 3)] + [lambda x, k=k: (">=", k, x) for k in (0, 1, 2, 3)]
        out = []
        for x in bodies:
            for r in reps:
                out.append(r(x))
                out.append(("seq", r(x), ("$", b)))
                out.append(("seq", ("$", b), r(x)))
        return out
    if name == "X":                   # multi-byte family: depth <= 2 terms over {e-acute, E-acute, a, any} that mention e-acute
        at = [E_ACUTE, E_ACUTE_UP, ("lit", "a"), ("any",), ("not", "\u00e9")]
        d1 = M.depth1(at)
        d2 = list(M.unary_over(d1))
        return [t for t in at + d1 + d2 if "\u00e9" in M.to_scheme(t) or "\u00c9" in M.to_scheme(t)]
    raise ValueError(name)


def subjects_for(name):
    if name == "S4":
        return M.strings_upto(4)
    if name == "S4X":
        return M.strings_upto(4) + EXTRA_SUBJECTS
    if name == "S3":
        return M.strings_upto(3)
    if name == "S56":
        return [s for s in M.strings_upto(6) if len(s) >= 5]
    if name == "S5":
        return [s for s in M.strings_upto(5) if len(s) == 5]
    if name == "X":
        return M.strings_upto(2, "a\u00e9\n") + EXTRA_SUBJECTS
    if name == "S2X":
        return M.strings_upto(2) + EXTRA_SUBJECTS
    raise ValueError(name)


# (stratum, subject set, est. ms per pair) in simplest-first order.
PLAN = {
    "quick": [("A", "S4X", 0.5), ("D1", "S4X", 0.8), ("X", "X", 0.8), ("R", "S4X", 1.2), ("F", "S4X", 1.2), ("D2u", "S4X", 1.2), ("D2m", "S4X", 1.2)],
    # NC first only so that its 4 one-SRE jobs (~100 s of compilation each) overlap with everything else;
    # D2f last: it is the largest block, so a deadline leaves a prefix of it.
    "thorough": [("NC", "S2X", 1.0), ("A", "S4X", 0.5), ("D1", "S4X", 0.8), ("X", "X", 0.8), ("R", "S4X", 1.2), ("F", "S4X", 1.2), ("D2u", "S4X", 1.2), ("D2m", "S4X", 1.0),
                 ("A", "S56", 1.5), ("D1", "S56", 2.5), ("D2u", "S5", 2.5), ("D3u", "S4", 1.2), ("D2f", "S4", 1.0)],
}
BOTH = ("A", "D1", "X")          # strata for which regexp-matches? is evaluated next to regexp-matches
JOB_SECONDS = 8.0


def make_jobs(tier):
    jobs = []
    blocks = []
    plan = PLAN[tier]
    only = os.environ.get("VERIF_C20_ONLY")          # experiments: restrict to some strata, e.g. "A,D1"
    if only:
        plan = [p for p in plan if p[0] in only.split(",")]
    for bi, (sn, un, est_ms) in enumerate(plan):
        terms = stratum(sn)
        subs = subjects_for(un)
        per = 1 if sn == "NC" else max(1, int(JOB_SECONDS * 1000.0 / (len(subs) * est_ms)))
        nj = 0
        for lo in range(0, len(terms), per):
            jobs.append((bi, sn, un, lo, min(len(terms), lo + per)))
            nj += 1
        blocks.append({"stratum": sn, "subjects": un, "sres": len(terms), "sres_excluded_slow_compile": _excluded.get(sn, 0),
                       "n_subjects": len(subs),
                       "pairs": len(terms) * len(subs), "jobs": nj, "jobs_done": 0, "pairs_done": 0, "cpu_s": 0.0})
    return jobs, blocks


# ------------------------------------------------------------------------------------------ one job

def driver_text(terms, subs, both):
    out = [PRELUDE, "(define subjects (vector %s))\n" % " ".join(sstr(s) for s in subs)]
    for i, t in enumerate(terms):
        named = any(nm for _, _, nm in M.submatches(t))
        out.append("(run-case %d %s %s '%s)\n" % (i, "#t" if named else "#f", "#t" if both else "#f", M.to_scheme(t)))
    return "".join(out)


_span_re = re.compile(r"^([TF]?)(-|[0-9_]+(?:n[0-9_]{2})?)/(-|[0-9_]+(?:n[0-9_]{2})?)$")


def parse_match(txt):
    """'-' -> None;  '0412n12' -> ([(0,4),(1,2)], (1,2));  unset spans are None"""
    if txt == "-":
        return None
    named = None
    if "n" in txt:
        txt, _, nm = txt.partition("n")
        named = nm
    if len(txt) % 2:
        raise ValueError(txt)

    def span(a, b):
        if a == "_" and b == "_":
            return None
        if a == "_" or b == "_":
            return (a, b)              # half-set span: reported as such
        return (int(a), int(b))
    spans = [span(txt[k], txt[k + 1]) for k in range(0, len(txt), 2)]
    return spans, (span(named[0], named[1]) if named else None), named is not None


class Oracle(object):
    """expected facts for one SRE (tables are computed per subject on demand)"""

    def __init__(self, t):
        self.t = t
        self.text = M.to_scheme(t)
        self.d = M.Deriv(t)
        self.subs = M.submatches(t)
        self.subd = [M.Deriv(b, ci) for b, ci, _ in self.subs]
        self.py = re.compile(M.to_pyre(t), re.M | re.S)

    def cross_check(self, s, tab):
        """the two other deciders must agree with the derivative table"""
        tab2 = [M.ends(self.t, s, i) for i in range(len(s) + 1)]
        if tab2 != tab:
            return "positions %r vs derivatives %r" % (tab2, tab)
        pm = self.py.fullmatch(s) is not None
        ps = self.py.search(s) is not None
        if (pm, ps) != (len(s) in tab[0], any(tab)):
            return "python re (%s) says matches=%s search=%s, derivatives %r" % (self.py.pattern, pm, ps, tab)
        return None

    def check_spans(self, which, parsed, s, tab):
        """-> list of (op, got, want) problems for a reported match object"""
        probs = []
        spans, named, has_named = parsed
        n = len(s)
        w = spans[0]
        if w is None or not isinstance(w[0], int):
            return [(which + "-span0", str(w), "a span")]
        p, q = w
        if not (0 <= p <= q <= n):
            return [(which + "-span0", str(w), "0 <= start <= end <= %d" % n)]
        if which == "matches" and (p, q) != (0, n):
            probs.append(("matches-span0", str(w), "(0, %d)" % n))
        if q not in tab[p]:
            probs.append((which + "-span0", "%s = %r" % (w, s[p:q]), "text in L(sre) at that place"))
        if len(spans) - 1 != len(self.subs):
            # regexp-match-count is not part of the property: noted as an outcome, not asserted
            probs.append(("note-count", str(len(spans) - 1), str(len(self.subs))))
        for k in range(1, min(len(spans), len(self.subs) + 1)):
            sp = spans[k]
            if sp is None:
                continue
            pr = self.sub_problem(k, sp, s, p, q)
            if pr:
                probs.append((which + "-submatch", "submatch %d = %s: %s" % (k, sp, pr[0]), pr[1]))
        if has_named and named is not None:
            cands = [k + 1 for k, (_, _, nm) in enumerate(self.subs) if nm == "n"]
            prs = [self.sub_problem(k, named, s, p, q) for k in cands]
            if all(prs):
                probs.append((which + "-named", "submatch 'n = %s: %s" % (named, prs[0][0]), prs[0][1]))
        return probs

    def sub_problem(self, k, sp, s, p, q):
        if not isinstance(sp[0], int) or not isinstance(sp[1], int):
            return ("only one end set", "both ends or neither")
        a, b = sp
        if not (0 <= a <= b <= len(s)):
            return ("not a span of the subject", "0 <= start <= end <= %d" % len(s))
        if not (p <= a and b <= q):
            return ("outside the match span (%d, %d)" % (p, q), "nested inside the match span")
        if b not in self.subd[k - 1].ends(s, a):
            body, ci, _ = self.subs[k - 1]
            return ("text %r" % s[a:b], "text matching %s%s at that place" % (M.to_scheme(body), " under w/nocase" if ci else ""))
        return None


def mutant_env(variant):
    """VERIF_C20_LIBDIR=<dir> puts <dir> in front of the module path, so that a mutated copy of
    lib/chibi/regexp.scm can be checked (sensitivity experiments only; /repo is never touched)."""
    d = os.environ.get("VERIF_C20_LIBDIR")
    if not d:
        return None
    return {"CHIBI_MODULE_PATH": d + ":" + build.env_for(variant)["CHIBI_MODULE_PATH"]}


def _stamp(variant):
    try:
        return open(os.path.join(build.BUILD, variant, "STAMP")).read()
    except OSError:
        return None


def run_stable(variant, path, d, n_lines):
    """evalbatch, repeated when the build variant was rebuilt underneath the run (other checks share
    /verif/build and rebuild it whenever /repo changes): a missing binary, or an abnormal end together
    with a changed STAMP, is not evidence about the interpreter."""
    res = common.Result(-1, "evalbatch could not be started (variant being rebuilt?)")
    for attempt in range(4):
        before = _stamp(variant)
        try:
            res = common.evalbatch(variant, [path], timeout=1500, cwd=d, env=mutant_env(variant))
        except OSError:
            time.sleep(20)
            continue
        complete = sum(1 for l in res.out.split("\n") if l[:1].isdigit()) >= n_lines
        if (res.rc != 0 or not complete) and _stamp(variant) != before:
            time.sleep(20)
            continue
        return res
    return res


def judge(orc, s, tok, tab=None):
    """one printed result 'Tm/s' against the oracle -> (problems, parsed matches, parsed search, search text),
    or None when the token cannot be parsed.  problems: [(op, got, want)]"""
    if tab is None:
        tab = orc.d.table(s)
    n = len(s)
    want_m = n in tab[0]
    want_s = any(tab)
    if "E" in tok:
        return [("error", tok, "no error")], None, None, tok
    mo = _span_re.match(tok)
    if not mo:
        return None
    try:
        pm = parse_match(mo.group(2))
        ps = parse_match(mo.group(3))
    except ValueError:
        return None
    probs = []
    if mo.group(1) and (mo.group(1) == "T") != want_m:
        probs.append(("matches?", "#t" if mo.group(1) == "T" else "#f", "#t" if want_m else "#f"))
    if (pm is not None) != want_m:
        probs.append(("matches", "a match" if pm else "#f", "a match" if want_m else "#f"))
    elif pm is not None:
        probs += orc.check_spans("matches", pm, s, tab)
    if (ps is not None) != want_s:
        probs.append(("search", "a match" if ps else "#f", "a match" if want_s else "#f"))
    elif ps is not None:
        probs += [p for p in orc.check_spans("search", ps, s, tab) if p[0] != "note-count"]
    return probs, pm, ps, mo.group(3)


def run_job(arg):
    variant, job = arg
    bi, sn, un, lo, hi = job
    t_start = sum(os.times()[:4])
    terms = stratum(sn)[lo:hi]
    subs = subjects_for(un)
    both = sn in BOTH
    d = common.scratch_dir("c20w%d" % os.getppid())
    path = os.path.join(d, "job.scm")
    common.write_file(path, driver_text(terms, subs, both))
    res = run_stable(variant, path, d, len(terms))
    shutil.rmtree(d, ignore_errors=True)
    lines = []
    for l in res.out.split("\n"):
        if l.startswith(";;STATS"):
            break
        if l.strip():
            lines.append(l)
    out = {"job": job, "pairs": 0, "bad": {}, "n_mism": 0, "outcomes": {}, "nontrivial": 0, "oracle": [],
           "crash": None, "sample": None, "sres_done": 0}
    oc = out["outcomes"]

    def bump(k, n=1):
        oc[k] = oc.get(k, 0) + n

    def mism(t, s, op, got, want):
        out["n_mism"] += 1
        cur = out["bad"].setdefault(t, [0, []])
        cur[0] += 1
        if len(cur[1]) < 4:
            cur[1].append((s, op, got, want))

    M.reset_caches()
    for i, t in enumerate(terms):
        if i >= len(lines):
            break
        toks = lines[i].split(" ")
        if toks[0] != str(i):
            out["crash"] = (res.rc, "line %d out of sequence: %r" % (i, lines[i][:200]), res.out[-800:])
            break
        if toks[1:] == ["CE"]:
            mism(t, None, "compile-error", "error", "a regexp")
            out["sres_done"] += 1
            continue
        if len(toks) - 1 != len(subs):
            out["crash"] = (res.rc, "line %d has %d results for %d subjects: %r" % (i, len(toks) - 1, len(subs), lines[i][:200]),
                            res.out[-800:])
            break
        orc = Oracle(t)
        for s, tok in zip(subs, toks[1:]):
            tab = orc.d.table(s)
            bad = orc.cross_check(s, tab)
            if bad:
                out["oracle"].append((orc.text, s, bad))
                continue
            n = len(s)
            want_m = n in tab[0]
            want_s = any(tab)
            out["pairs"] += 1
            acc = sum(len(x) for x in tab)
            if 0 < acc < (n + 1) * (n + 2) // 2:
                out["nontrivial"] += 1
            bump("matches=%s search=%s" % ("#t" if want_m else "#f", "#t" if want_s else "#f"))
            verdict = judge(orc, s, tok, tab)
            if verdict is None:
                out["crash"] = (res.rc, "unparsable result %r for %s on %r" % (tok, orc.text, s), res.out[-800:])
                break
            probs, pm, ps, stxt = verdict
            for op, got, want in probs:
                if op == "note-count":
                    bump("regexp-match-count differs from the number of ($ ..)/(-> ..) in the SRE")
                else:
                    mism(t, s, op, got, want)
            for pr in (pm, ps):
                if pr is not None and len(pr[0]) > 1:
                    nset = sum(1 for x in pr[0][1:] if x is not None)
                    bump("submatch spans set", nset)
                    bump("submatch spans unset", len(pr[0]) - 1 - nset)
            if out["sample"] is None and want_s and not want_m and orc.subs and n >= 3:
                out["sample"] = "(regexp-search '%s %s) => spans %s" % (orc.text, sstr(s), stxt)
        if out["crash"]:
            break
        out["sres_done"] += 1
    if out["crash"] is None and (out["sres_done"] != len(terms) or res.rc != 0 or res.timed_out):
        at = M.to_scheme(terms[out["sres_done"]]) if out["sres_done"] < len(terms) else None
        out["crash"] = (res.rc, "batch ended after %d of %d SREs (timed_out=%s) at %s" % (out["sres_done"], len(terms), res.timed_out, at),
                        res.out[-800:])
    out["cpu_s"] = sum(os.times()[:4]) - t_start
    return out


def subterms(t):
    yield t
    for c in M.children(t):
        for x in subterms(c):
            yield x


# ------------------------------------------------------------------------------------------ replay of one case

def single_text(sre_text, s):
    named = "(-> n " in sre_text
    return (PRELUDE + "(define subjects (vector %s))\n" % sstr(s) +
            "(run-case 0 %s #t '%s)\n" % ("#t" if named else "#f", sre_text))


def run_single(variant, sre_text, s):
    d = common.scratch_dir("c20r")
    path = os.path.join(d, "one.scm")
    common.write_file(path, single_text(sre_text, s))
    res = common.evalbatch(variant, [path], timeout=1500, cwd=d, env=mutant_env(variant))
    shutil.rmtree(d, ignore_errors=True)
    for l in res.out.split("\n"):
        if l.startswith("0 "):
            return l[2:]
    return "rc=%s %s" % (res.rc, res.out[-300:])


def _tuple(x):
    return tuple(_tuple(y) for y in x) if isinstance(x, list) else x


def replay(path):
    """re-run one recorded case alone; exit status 1 when the violation shows again"""
    import json
    build.build_variant("opt")
    meta = json.load(open(path + ".json"))
    if "term" not in meta:
        res = common.evalbatch("opt", [path], timeout=1500, env=mutant_env("opt"))
        print(res.out)
        return 1
    t = _tuple(meta["term"])
    s = meta["subject"] or ""
    tok = run_single("opt", M.to_scheme(t), s)
    orc = Oracle(t)
    tab = orc.d.table(s)
    print("SRE %s   subject %s" % (orc.text, sstr(s)))
    print("printed (regexp-matches? T/F, regexp-matches spans / regexp-search spans): %s" % tok)
    print("oracle: matches=%s search=%s  accepted (start -> ends): %s" % (
        len(s) in tab[0], any(tab), {i: sorted(e) for i, e in enumerate(tab) if e}))
    verdict = judge(orc, s, tok, tab)
    if verdict is None:
        print("VIOLATION reproduced: abnormal output")
        return 1
    probs = [p for p in verdict[0] if p[0] != "note-count"]
    for op, got, want in probs:
        print("VIOLATION reproduced: %s: got %s, want %s" % (op, got, want))
    if not probs:
        print("no violation this time")
    return 1 if probs else 0


def cleanup_workers():
    """after Pool.terminate(): stop evalbatch children the killed workers left behind and remove their scratch"""
    import signal
    prefix = os.path.join(common.SCRATCH_ROOT, "c20w%d-" % os.getpid())
    for pid in os.listdir("/proc"):
        if pid.isdigit():
            try:
                if os.readlink("/proc/%s/cwd" % pid).startswith(prefix):
                    os.kill(int(pid), signal.SIGKILL)
            except OSError:
                pass
    if os.path.isdir(common.SCRATCH_ROOT):
        for f in os.listdir(common.SCRATCH_ROOT):
            if os.path.join(common.SCRATCH_ROOT, f).startswith(prefix):
                shutil.rmtree(os.path.join(common.SCRATCH_ROOT, f), ignore_errors=True)


# ------------------------------------------------------------------------------------------ main

def main(tier):
    chk = Check("C20", "exploration", tier, quick_s=150, thorough_s=1500)
    chk.clean_replays()
    chk.rule = ("SRE strata, each enumerated completely: A = the 8 leaves \"a\" \"b\" any (/ \"ab\") (~ \"a\") \"\" bol eol; D1 = every unary "
                "operator * + ? (= 2 x) (** 1 2 x) ($ x) (-> n x) (w/nocase x) over A and every binary operator (: x y) (or x y) "
                "over AxA; D2u = unary(D1); D2m = binary(D1,A) u binary(A,D1); D2f = binary(D1,D1) [A+D1+D2u+D2m+D2f = all SREs "
                "of depth <= 2]; D3u = u1(u2(D1)), u1,u2 any unary operator but (-> n x) (the depth-3 cap: operator chains over a depth-1 core); R = (** m n x) for 8 bound pairs and (= k x) for k in 0,1,3 and (>= k x) for k in 0..3 over the leaves and 6 bodies holding submatches, alone and next to a further submatch; F = w/case and w/nocase alone, nested both ways and around submatches over 9 cores; X = depth<=2 terms "
                "mentioning e-acute / E-acute; NC = 4 slow-to-compile (w/nocase (or ..class..)) terms.  Subject sets, each "
                "complete: S4 = all 121 strings of length <= 4 over {a,b,newline}; S5 / S56 = all of length 5 / 5..6; "
                "S4X = S4 + 15 fixed strings with A, B, e-acute, E-acute; S2X, X = length <= 2 + the 15.  quick = "
                "(A,D1,D2u,D2m) x S4X + X; thorough adds D2f x S4, D3u x S4, (A,D1) x S56, D2u x S5, NC; coverage.blocks lists "
                "what this run completed.  A pair (SRE, subject) is counted non-trivial when, among all substrings of the "
                "subject read in place, at least one is in L(SRE) and at least one is not (every pair is distinct by construction)")
    chk.assumptions = [
        "SRFI 115 bol/eol: bol holds at index 0 and after a newline, eol at the end and before a newline, relative to the whole subject",
        "w/nocase on a complemented class folds the positive members first ((w/nocase (~ \"a\")) rejects a and A), SRFI 115 'expansion is applied at the terminal level'",
        "any includes newline (nonl is the class that excludes it)",
        "which match / which iteration of a repeated submatch is reported is left open; only 'reported span delimits matching text inside the match span' is asserted",
        "look-around, word boundaries, non-greedy operators, back-references, submatch lists are outside the supported subset and never generated",
        "oracle = Brzozowski derivatives with line-boundary context, cross-checked on every pair against a set-of-positions evaluator and Python re (MULTILINE|DOTALL)",
    ]
    variant = "opt"
    build.build_variant(variant)
    jobs, blocks = make_jobs(tier)
    log("C20 %s: %d jobs, %d pairs planned" % (tier, len(jobs), sum(b["pairs"] for b in blocks)))
    done = 0
    oracle_bad = []
    all_bad = {}
    n_viol_total = 0
    crashes = []
    stopped = False
    with Pool(common.NCPU) as pool:
        # ordered imap: the completed jobs always form a prefix of the simplest-first plan
        it = pool.imap(run_job, [(variant, j) for j in jobs])
        while done < len(jobs):
            try:
                r = it.next(timeout=5)
            except multiprocessing.TimeoutError:
                if chk.out_of_time():
                    pool.terminate()
                    stopped = True
                    log("deadline reached after %d/%d jobs" % (done, len(jobs)))
                    break
                continue
            done += 1
            bi = r["job"][0]
            b = blocks[bi]
            b["jobs_done"] += 1
            b["pairs_done"] += r["pairs"]
            b["cpu_s"] += r["cpu_s"]
            chk.evaluations += r["pairs"]
            chk.nontrivial_n += r["nontrivial"]
            for k, c in r["outcomes"].items():
                chk.outcomes[k] += c
            if r["sample"]:
                chk.sample(r["sample"], cap=3)
            oracle_bad += r["oracle"]
            n_viol_total += r["n_mism"]
            for t, (cnt, exs) in r["bad"].items():
                cur = all_bad.setdefault(t, [0, []])
                cur[0] += cnt
                cur[1] = (cur[1] + exs)[:4]
            if r["crash"]:
                crashes.append((r["job"], r["crash"]))
            if done % 100 == 0:
                log("C20: %d/%d jobs, %d pairs, %d mismatching pairs" % (done, len(jobs), chk.evaluations, n_viol_total))
            if chk.out_of_time():
                pool.terminate()
                stopped = True
                log("deadline reached after %d/%d jobs" % (done, len(jobs)))
                break
    cleanup_workers()
    for b in blocks:
        b["completed"] = b["jobs_done"] == b["jobs"]
        b["cpu_s"] = round(b["cpu_s"], 1)
    chk.cov["blocks"] = blocks
    for b in blocks:
        if b["jobs_done"]:
            ts = stratum(b["stratum"])
            chk.sample("block %s x %s: SREs %s ... %s; subjects %s ... %s" % (
                b["stratum"], b["subjects"], M.to_scheme(ts[0]), M.to_scheme(ts[-1]),
                sstr(subjects_for(b["subjects"])[1]), sstr(subjects_for(b["subjects"])[-1])), cap=24)
    chk.cov["jobs_completed"] = done
    chk.cov["jobs_total"] = len(jobs)
    chk.cov["sres_distinct"] = sum({b["stratum"]: b["sres"] for b in blocks if b["completed"]}.values())
    comp = [("%s x %s" % (b["stratum"], b["subjects"])) for b in blocks if b["completed"]]
    part = [("%s x %s: %d of %d jobs (a prefix in enumeration order)" % (b["stratum"], b["subjects"], b["jobs_done"], b["jobs"]))
            for b in blocks if not b["completed"] and b["jobs_done"]]
    chk.cov["bound_completed"] = "; ".join(comp) + ((" | partial: " + "; ".join(part)) if part else "")
    chk.cov["variants"] = [variant]
    seen_strata = set()
    for b in blocks:
        if b["sres_excluded_slow_compile"] and b["stratum"] not in seen_strata:
            seen_strata.add(b["stratum"])
            chk.exclude("%s: (w/nocase .. (or <classes incl. a co-finite one>) ..), ~100 s compile each%s" % (
                b["stratum"], "" if tier == "quick" else "; the depth-2 ones run as block NC"), b["sres_excluded_slow_compile"])
    if oracle_bad:
        common.cleanup_scratch()
        for o in oracle_bad[:10]:
            log("ORACLE DISAGREEMENT", o)
        raise HarnessError("the reference deciders disagree on %d cases, e.g. %r" % (len(oracle_bad), oracle_bad[0]))

    # Violations.  Mismatches are grouped by their smallest failing sub-SRE: when a proper sub-term of a failing
    # SRE is itself a failing SRE of this run, the larger one is attributed to it and not reported separately.
    # The first failing case of every group is re-run alone in a fresh process before it is reported (rule 4).
    bad_text = set(M.to_scheme(t) for t in all_bad)
    groups = {}
    fam_rep = {}
    for t in sorted(all_bad, key=lambda x: (len(M.to_scheme(x)), M.to_scheme(x))):
        fam = family(t)
        if fam != "other":
            # one report per recognised family (its smallest failing SRE stands for it)
            culprit = fam_rep.setdefault(fam, t)
        else:
            subs = sorted(subterms(t), key=lambda x: (len(M.to_scheme(x)), M.to_scheme(x)))
            culprit = next((x for x in subs if M.to_scheme(x) in bad_text), t)
        groups.setdefault(culprit, []).append(t)
    chk.cov["mismatching_pairs"] = n_viol_total
    chk.cov["mismatching_sres"] = len(all_bad)
    for culprit in sorted(groups, key=lambda x: (len(M.to_scheme(x)), M.to_scheme(x))):
        members = groups[culprit]
        src = culprit if culprit in all_bad else members[0]
        cnt, exs = all_bad[src]
        s, op, got, want = exs[0]
        sre_text = M.to_scheme(src)
        alone = run_single(variant, sre_text, s if s is not None else "")
        others = [M.to_scheme(m) for m in members if m is not src]
        v = judge(Oracle(src), s if s is not None else "", alone)
        again = v is None or any(p[0] != "note-count" for p in v[0])
        desc = {"op": op, "family": family(src), "term": src, "sre": sre_text, "culprit": M.to_scheme(culprit), "subject": s, "got": got, "want": want,
                "alone": alone, "reproduces_alone": again, "failing_subjects": cnt, "other_examples": exs[1:],
                "larger_sres_attributed": len(others), "larger_examples": others[:5]}
        what = "%s [family: %s]: %s on %s: got %s, want %s  [alone in a fresh process the case prints %s (%s); %d mismatches on this SRE; %d further failing SREs attributed to it, e.g. %s]" % (
            op, family(src), sre_text, sstr(s) if s is not None else "-", got, want, alone,
            "reproduces" if again else "does NOT reproduce: history or hash-order dependent", cnt, len(others), ", ".join(others[:2]) or "-")
        chk.violation(desc, what, single_text(sre_text, s if s is not None else "") +
                      ";; expected: %s -- %s, got %s\n" % (op, want, got))
    for job, (rc, why, tail) in crashes:
        chk.violation({"op": "crash", "job": list(job), "rc": rc, "why": why},
                      "batch %s ended abnormally (rc=%s): %s ... %s" % (job, rc, why, tail[-300:]))
    common.cleanup_scratch()
    return chk.finish()
