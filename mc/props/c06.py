"""C06 -- continuations, dynamic-wind, parameters and exceptions follow the R7RS model.

All control scripts up to a node bound (mc/gen_control.py) are run on the real interpreter and on the definitional
CEK machine (mc/models/refscheme.py), which implements the R7RS wind rules, parameter extents, handler stacks,
raise / raise-continuable and the reference `guard`; the event traces must be identical."""
import os, sys, time
from multiprocessing import Pool
from .. import common, build, gen_control
from ..common import Check, log
from ..models import refscheme

HEADER = "(import (scheme base) (scheme write))\n"


def case_text(i, body):
    return "(run-case %d (lambda () %s))\n" % (i, body)


def run_ref(progs):
    m = refscheme.Machine(step_limit=300000)
    for f in refscheme.read_all(gen_control.PRELUDE):
        m.eval_top(f)
    res = {}
    states = set()
    steps = 0
    for i, body in progs:
        m.out = []
        m.steps = 0
        try:
            for f in refscheme.read_all(case_text(i, body)):
                m.eval_top(f)
            res[i] = "".join(m.out).rstrip("\n")
        except refscheme.Unsupported:
            res[i] = None
        except refscheme.SchemeError:
            res[i] = "#%d UNCAUGHT" % i
        steps += m.steps
    return res, steps


def run_job(arg):
    variant, jobno, progs = arg
    d = common.scratch_dir("c06")
    path = os.path.join(d, "job.scm")
    common.write_file(path, HEADER + gen_control.PRELUDE + "".join(case_text(i, b) for i, _, b in progs))
    r = common.evalbatch(variant, [path], timeout=600, cwd=d, env={"VERIF_BUDGET": "3000000"})
    got = {}
    for l in r.out.split("\n"):
        if l.startswith("#"):
            h = l[1:].split(" ", 1)[0]
            if h.isdigit():
                got[int(h)] = l if int(h) not in got else got[int(h)] + "  ++REPORTED AGAIN++  " + l      # a case reports exactly once
    ref, steps = run_ref([(i, b) for i, _, b in progs])
    mism, unsup, outcomes, traces = [], 0, {}, set()
    for i, desc, body in progs:
        want = ref.get(i)
        if want is None:
            unsup += 1
            continue
        tr = want.split(" ", 1)[1] if " " in want else want
        traces.add(hash(tr))
        key = "error" if "(ERR" in want else ("reentry" if "again" in want or "reenter" in want or "esc" in want else "plain")
        outcomes[key] = outcomes.get(key, 0) + 1
        if got.get(i) != want:
            mism.append((desc, body, want, got.get(i)))
    import shutil
    shutil.rmtree(d, ignore_errors=True)
    crashed = r.rc != 0 or r.timed_out
    return jobno, len(progs), mism[:60], len(mism), unsup, outcomes, crashed, (r.out[-600:] if crashed else ""), steps, len(traces)


def main(tier):
    chk = Check("C06", "model_checking", tier, quick_s=170, thorough_s=1500)
    chk.clean_replays()
    maxn = 4 if tier == "quick" else 5
    chk.rule = ("all control scripts with <= %d nodes (plus all with one node more over a reduced alphabet of 6 leaf and 4 nesting kinds) over 9 leaf kinds (emit, capture/invoke of 2 continuations, raise, "
                "raise-continuable, parameter reads) and 8 nesting kinds (dynamic-wind, parameterize with and without converter, "
                "handlers that return / escape through a continuation / re-raise, guard with and without a matching clause), wind depth "
                "<= 4, each continuation invoked <= 2 times incl. re-entry from outside every extent; distinct_nontrivial = scripts whose "
                "trace contains an escape, a re-entry or an error" % maxn)
    chk.assumptions = ["oracle: mc/models/refscheme.py implementing R7RS 6.10 (dynamic-wind), 4.2.6 (parameterize), 6.11 (exceptions) "
                       "and the 7.3 reference guard", "no continuation use inside before/after thunks", "single thread"]
    build.build_variant("opt")
    progs = []
    for i, (n, s) in enumerate(gen_control.scripts(maxn, 1)):
        progs.append((i, (n, s), gen_control.render(s)))
    if chk.seed:
        import random
        random.Random(chk.seed).shuffle(progs)
    per = 800
    jobs = [("opt", j, progs[lo:lo + per]) for j, lo in enumerate(range(0, len(progs), per))]
    log("C06: %d scripts in %d jobs" % (len(progs), len(jobs)))
    done = transitions = states = 0
    with Pool(common.NCPU) as pool:
        for jobno, n, mism, nm, unsup, outcomes, crashed, tail, steps, ntr in pool.imap_unordered(run_job, jobs):
            done += 1
            chk.evaluations += n - unsup
            transitions += steps
            states += ntr
            if unsup:
                chk.exclude("not expressible in the reference machine", unsup)
            for k, c in outcomes.items():
                chk.outcomes[k] += c
                if k != "plain":
                    chk.nontrivial_n += c
            for desc, body, want, got in mism:
                chk.violation({"op": "script", "nodes": desc[0], "script": str(desc[1]), "want": want, "got": got},
                              "script %s: implementation trace %r, R7RS model %r" % (str(desc[1])[:200], got, want),
                              HEADER + gen_control.PRELUDE + case_text(0, body))
            if crashed:
                chk.violation({"op": "crash", "job": jobno}, "batch %d crashed or timed out: %s" % (jobno, tail[-300:]))
            if chk.out_of_time():
                pool.terminate()
                break
    for _, desc, body in progs[:: max(1, len(progs) // 6)][:6]:
        chk.sample({"script": str(desc[1]), "program": body[:300]})
    chk.cov["states"] = states           # distinct event traces produced by the reference machine (per batch, summed)
    chk.cov["transitions"] = transitions  # reference machine steps
    chk.cov["traces_validated_against_impl"] = chk.evaluations
    chk.cov["max_nodes"] = maxn
    chk.cov["jobs_completed"] = done
    chk.cov["jobs_total"] = len(jobs)
    common.cleanup_scratch()
    return chk.finish()


def replay(path):
    r = common.evalbatch("opt", [path], timeout=60)
    print(r.out)
    return 0
