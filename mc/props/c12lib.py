"""C12 (library part) -- (chibi string) and (srfi 130) against a list-of-code-points model.

Called by c12.main as `c12lib.run(chk, tier)`.  Bounded-exhaustive enumeration on the real interpreter (`opt`
variant), no sampling:

  * alphabet {a (1 byte), U+E9 (2), U+20AC (3), U+1F600 (4)}; every string of length <= 3 (quick) / <= 4 (thorough);
  * procedures taking a range: every start / every start<=end combination in range, for (srfi 130) once with
    indexes and once with cursors (the SRFI accepts both everywhere);
  * procedures taking a character criterion: {#\\a, #\\U+E9, (lambda (c) (char=? c #\\U+20AC)), always-true,
    always-false} ((srfi 130) takes predicates only, so there all five are procedures);
  * two-string procedures: every ordered pair of strings of length <= 2, plus all pairs (len <= 3, len <= 1) and
    (len <= 1, len <= 3) (thorough: len <= 4), each with every combination of the optional ranges;
  * list procedures (join, concatenate): every list of <= 3 strings of length <= 1.

Every case is evaluated inside `(guard (e (#t 'ERR)) ...)`; results are printed in a canonical form
(strings as `(s <string-length> <code point>...)`, so string-length is compared too; cursors after conversion with
string-cursor->index) and compared line by line with the oracle: the plain Python functions `m_*` below working on
tuples of code points.  Only documented behaviour is asserted (the `;;>` comments of lib/chibi/string.scm plus its
in-tree test-suite for the conventions the comments leave ambiguous; the SRFI 130 text); see c12lib.NOTES.md for
what is deliberately not asserted and for the candidate defects found on the unmodified tree.

At most MAX_REPORTED_PER_OP violations per procedure (MAX_REPORTED_PER_FORM per call form) are passed to
chk.violation; the full counts are in coverage["c12lib"]["violations_by_op"] / ["violations_by_call_form"];
`desc["op"]` is "<library>:<procedure>".
"""
import os, re, json, shutil, time, itertools
from collections import Counter, OrderedDict
from multiprocessing import Pool

from .. import common, build
from ..common import log

A, E9, EU, GR = 0x61, 0xE9, 0x20AC, 0x1F600
ALPHA = [A, E9, EU, GR]
CASE_ALPHA = [0x61, 0x41, 0xC9, 0xE9, 0x20AC]      # for string-downcase-ascii / string-upcase-ascii
MAX_REPORTED_PER_OP = 40
MAX_REPORTED_PER_FORM = 6      # per (procedure, call form), so that the reported cases show every failing form
CHUNK = 100            # cases per top-level form of the driver (big quoted literals make chibi's allocator crawl)

CS = "chibi-string"
S130 = "srfi-130"


# ------------------------------------------------------------------------------------------- values

class Sym(str):
    """a Scheme symbol"""


class Chr(int):
    """a Scheme character (code point)"""


class Vec(list):
    """a Scheme vector"""


class AnyOf:
    """several acceptable results (the documentation admits more than one reading)"""
    def __init__(self, *alts):
        self.alts = alts


class Pat:
    """acceptable results given as a regular expression over the canonical text (a component is left open)"""
    def __init__(self, rx):
        self.rx = rx


ERR = Sym("ERR")


def dat(x):
    """Python value -> Scheme datum text (inside a quoted list)"""
    if x is True:
        return "#t"
    if x is False:
        return "#f"
    if isinstance(x, Chr):
        return "#\\" + chr(x)
    if isinstance(x, Sym):
        return str(x)
    if isinstance(x, int):
        return str(x)
    if isinstance(x, tuple):
        return '"' + "".join(chr(c) for c in x) + '"'
    if isinstance(x, list):
        return "(" + " ".join(dat(y) for y in x) + ")"
    raise TypeError(repr(x))


def fmt(x):
    """Python value -> canonical result text, as printed by `canon` in the driver"""
    if x is True:
        return "#t"
    if x is False:
        return "#f"
    if isinstance(x, Chr):
        return "(c %d)" % int(x)
    if isinstance(x, Sym):
        return str(x)
    if isinstance(x, int):
        return str(x)
    if isinstance(x, tuple):
        return "(s " + " ".join(str(v) for v in (len(x),) + x) + ")"
    if isinstance(x, Vec):
        return "(v" + "".join(" " + fmt(y) for y in x) + ")"
    if isinstance(x, list):
        return "(l" + "".join(" " + fmt(y) for y in x) + ")"
    raise TypeError(repr(x))


def strings_upto(n, alpha=ALPHA):
    out = []
    for k in range(n + 1):
        for t in itertools.product(alpha, repeat=k):
            out.append(tuple(t))
    return out


def ranges(n):
    return [(a, b) for a in range(n + 1) for b in range(a, n + 1)]


def chars(s):
    return [Chr(c) for c in s]


# ------------------------------------------------------------------------------------------- the model

PREDS = [lambda c: c == A, lambda c: c == E9, lambda c: c == EU, lambda c: True, lambda c: False]
NP = len(PREDS)


def m_any(s, p, a, b):
    for i in range(a, b):
        if PREDS[p](s[i]):
            return True
    return False


def m_every(s, p, a, b):
    for i in range(a, b):
        if not PREDS[p](s[i]):
            return False
    return True


def m_find(s, pred, a, b):
    """index of the first character in [a,b) satisfying pred, else b"""
    for i in range(a, b):
        if pred(s[i]):
            return i
    return b


def m_find_right(s, pred, a, b):
    """index FOLLOWING the last character in [a,b) satisfying pred, else a"""
    i = b
    while i > a:
        if pred(s[i - 1]):
            return i
        i -= 1
    return a


def neg(pred):
    return lambda c: not pred(c)


def m_prefix_len(x, y):
    k = 0
    while k < len(x) and k < len(y) and x[k] == y[k]:
        k += 1
    return k


def m_suffix_len(x, y):
    k = 0
    while k < len(x) and k < len(y) and x[len(x) - 1 - k] == y[len(y) - 1 - k]:
        k += 1
    return k


def m_occurs_at(s, t, i):
    if i < 0 or i + len(t) > len(s):
        return False
    for k in range(len(t)):
        if s[i + k] != t[k]:
            return False
    return True


def m_search(s, t, a, b):
    """first i with a <= i and i+len(t) <= b where t occurs in s, else False"""
    for i in range(a, b - len(t) + 1):
        if m_occurs_at(s, t, i):
            return i
    return False


def m_search_right(s, t, a, b):
    i = b - len(t)
    while i >= a:
        if m_occurs_at(s, t, i):
            return i
        i -= 1
    return False


def m_join(ls, sep=()):
    out = []
    for k, x in enumerate(ls):
        if k > 0:
            out.extend(sep)
        out.extend(x)
    return tuple(out)


def m_join130(ls, sep, grammar):
    if grammar == "infix":
        return m_join(ls, sep)
    if grammar == "strict-infix":
        return ERR if not ls else m_join(ls, sep)
    out = []
    for x in ls:
        if grammar == "prefix":
            out.extend(sep)
        out.extend(x)
        if grammar == "suffix":
            out.extend(sep)
    return tuple(out)


def m_split_pred(s, pred, limit=None):
    """(chibi string) string-split: pieces separated by single characters satisfying pred; at most `limit` pieces;
    the empty string gives the empty list (lib/chibi/string-test.sld)"""
    if len(s) == 0:
        return []
    pieces, cur = [], []
    for c in s:
        if pred(c) and (limit is None or len(pieces) + 1 < limit):
            pieces.append(tuple(cur))
            cur = []
        else:
            cur.append(c)
    pieces.append(tuple(cur))
    return pieces


def m_split130(s, d, grammar, limit):
    """SRFI 130 string-split on the whole of s (callers pass the substring)"""
    n = len(s)
    if n == 0:
        return ERR if grammar == "strict-infix" else []
    if len(d) == 0:
        parts = [(c,) for c in s]
    else:
        parts, i, cur, splits = [], 0, 0, 0
        while i + len(d) <= n and (limit is None or splits < limit):
            if m_occurs_at(s, d, i):
                parts.append(s[cur:i])
                i += len(d)
                cur = i
                splits += 1
            else:
                i += 1
        parts.append(s[cur:])
    if grammar == "prefix" and parts and parts[0] == ():
        parts = parts[1:]
    if grammar == "suffix" and parts and parts[-1] == ():
        parts = parts[:-1]
    return parts


def m_trim_left(s, pred):
    i = 0
    while i < len(s) and pred(s[i]):
        i += 1
    return s[i:]


def m_trim_right(s, pred):
    j = len(s)
    while j > 0 and pred(s[j - 1]):
        j -= 1
    return s[:j]


def m_pad_left(s, k, pad):
    n = len(s)
    if k <= n:
        return s[n - k:]
    return (pad,) * (k - n) + s


def m_pad_right(s, k, pad):
    n = len(s)
    if k <= n:
        return s[:k]
    return s + (pad,) * (k - n)


def m_replicate(s, frm, to):
    n = len(s)
    if n == 0:
        return ()            # only generated with frm == to
    return tuple(s[i % n] for i in range(frm, to))


def m_zip(*ss):
    n = min(len(x) for x in ss)
    return [[Chr(x[i]) for x in ss] for i in range(n)]


def rev(x):
    return x[::-1]


# ------------------------------------------------------------------------------------------- drivers

PRELUDE_COMMON = r"""
(define (canon x)
  (cond ((string? x) (cons 's (cons (string-length x) (map char->integer (string->list x)))))
        ((char? x) (list 'c (char->integer x)))
        ((pair? x) (cons 'l (map canon x)))
        ((null? x) '(l))
        ((vector? x) (cons 'v (map canon (vector->list x))))
        ((string-cursor? x) 'CURSOR)
        (else x)))
(define N 0)
(define (run f cases)
  (for-each (lambda (args)
              (write-string "#") (write-simple N) (write-string " ") (set! N (+ N 1))
              (write-simple (guard (e (#t 'ERR)) (canon (apply f args))))
              (newline))
            cases))
(define c-a (integer->char 97))
(define c-e9 (integer->char 233))
(define c-eu (integer->char 8364))
(define c-gr (integer->char 128512))
;; character criteria: P = chars where the library accepts a char, Q = procedures only
(define PV (vector c-a c-e9 (lambda (c) (char=? c c-eu)) (lambda (c) #t) (lambda (c) #f)))
(define QV (vector (lambda (c) (char=? c c-a)) (lambda (c) (char=? c c-e9)) (lambda (c) (char=? c c-eu))
                   (lambda (c) #t) (lambda (c) #f)))
(define (P i) (vector-ref PV i))
(define (Q i) (vector-ref QV i))
(define (ic s i) (string-index->cursor s i))
(define (ci s c) (string-cursor->index s c))
(define (gci s c) (guard (e (#t 'E)) (ci s c)))
(define (f->i s r) (and r (ci s r)))
(define (port->chars i)
  (let lp ((acc '())) (let ((c (read-char i))) (if (eof-object? c) (reverse acc) (lp (cons c acc))))))
"""

PRELUDE = {
    CS: "(import (except (scheme base) string-map string-for-each) (scheme char) (only (scheme write) write-simple)\n"
        "        (chibi string))\n" + PRELUDE_COMMON,
    S130: "(import (scheme base) (scheme char) (only (scheme write) write-simple) (srfi 130))\n" + PRELUDE_COMMON,
}


class Op:
    def __init__(self, lib, name, forms, gen, size="S"):
        self.lib, self.name, self.forms, self.gen, self.size = lib, name, forms, gen, size

    @property
    def key(self):
        return "%s:%s" % (self.lib, self.name)


OPS = OrderedDict()


def defop(lib, name, forms, size="S"):
    def deco(fn):
        op = Op(lib, name, forms, fn, size)
        assert op.key not in OPS, op.key
        OPS[op.key] = op
        return fn
    return deco


class Ctx:
    def __init__(self, tier, k=0, m=1):
        self.tier, self.k, self.m = tier, k, m
        self.nmax = 3 if tier == "quick" else 4
        self.S = strings_upto(self.nmax)
        self.S1 = strings_upto(1)
        self.S2 = strings_upto(2)
        self.S3 = strings_upto(3)

    def shard(self, lst):
        return lst[self.k::self.m]

    def pairs(self):
        """ordered pairs: all (len<=2, len<=2), plus (len<=nmax, len<=1) and (len<=1, len<=nmax) not yet included"""
        out = [(s, t) for s in self.S2 for t in self.S2]
        for s in self.S:
            if len(s) > 2:
                for t in self.S1:
                    out.append((s, t))
        for s in self.S:
            if len(s) > 2:
                for t in self.S1:
                    out.append((t, s))
        return out

    def pairs_plain(self):
        """pairs for two-string procedures without ranges: the above, thorough adds all (len<=3, len<=3)"""
        out = self.pairs()
        if self.tier != "quick":
            seen = set(out)
            for s in self.S3:
                for t in self.S3:
                    if (s, t) not in seen:
                        out.append((s, t))
        return out

    def lists(self):
        """every list of <= 3 strings of length <= 1"""
        out = [[]]
        for k in (1, 2, 3):
            for t in itertools.product(self.S1, repeat=k):
                out.append(list(t))
        return out


# ---- helpers building the forms for optional [start end] arguments --------------------------------------------

def rforms(params, call, modes=("i", "c"), only=None):
    """`call` contains {R}: replaced by nothing / start / start end, the latter two as indexes (i) or cursors (c).
    The lambda parameters are `params` followed by a, b."""
    f = OrderedDict()
    f["0"] = "(lambda (%s) %s)" % (params, call.replace("{R}", ""))
    for m in modes:
        wa, wb = ("a", "b") if m == "i" else ("(ic s a)", "(ic s b)")
        f[m + "1"] = "(lambda (%s a) %s)" % (params, call.replace("{R}", " " + wa))
        f[m + "2"] = "(lambda (%s a b) %s)" % (params, call.replace("{R}", " %s %s" % (wa, wb)))
    if only:
        f = OrderedDict((k, v) for k, v in f.items() if k[-1] in only)
    return f


def rcases(slist, extras, model, modes=("i", "c"), only="012"):
    """model(s, *extra, a, b); extras(s) -> list of extra-argument lists"""
    for s in slist:
        n = len(s)
        for ex in extras(s):
            if "0" in only:
                yield ("0", [s] + ex, model(s, *(ex + [0, n])))
            if "1" in only:
                for a in range(n + 1):
                    w = model(s, *(ex + [a, n]))
                    for m in modes:
                        yield (m + "1", [s] + ex + [a], w)
            if "2" in only:
                for a, b in ranges(n):
                    w = model(s, *(ex + [a, b]))
                    for m in modes:
                        yield (m + "2", [s] + ex + [a, b], w)


def no_extra(s):
    return [[]]


def pred_extra(s):
    return [[p] for p in range(NP)]


def r2forms(call, modes=("i", "c"), first=0):
    """two strings s, t with optional start1 end1 start2 end2 ({R}); `first` = number of mandatory range arguments"""
    f = OrderedDict()
    names = ["a", "b", "c", "d"]
    for k in range(first, 5):
        for m in (modes if k > 0 else ("",)):
            if m == "i":
                w = names[:k]
            else:
                w = ["(ic s a)", "(ic s b)", "(ic t c)", "(ic t d)"][:k]
            f[(m or "") + str(k)] = "(lambda (s t%s) %s)" % ("".join(" " + x for x in names[:k]),
                                                            call.replace("{R}", "".join(" " + x for x in w)))
    return f


def r2cases(pairs, model, modes=("i", "c"), first=0):
    """model(s, t, a, b, c, d)"""
    for s, t in pairs:
        n1, n2 = len(s), len(t)
        if first == 0:
            yield ("0", [s, t], model(s, t, 0, n1, 0, n2))
        if first <= 1:
            for a in range(n1 + 1):
                w = model(s, t, a, n1, 0, n2)
                for m in modes:
                    yield (m + "1", [s, t, a], w)
        for a, b in ranges(n1):
            w = model(s, t, a, b, 0, n2)
            for m in modes:
                yield (m + "2", [s, t, a, b], w)
            for c in range(n2 + 1):
                w = model(s, t, a, b, c, n2)
                for m in modes:
                    yield (m + "3", [s, t, a, b, c], w)
            for c, d in ranges(n2):
                w = model(s, t, a, b, c, d)
                for m in modes:
                    yield (m + "4", [s, t, a, b, c, d], w)


# =========================================================================================== (chibi string)

@defop(CS, "string-null?", {"f": "(lambda (s) (string-null? s))"})
def _(ctx):
    for s in ctx.shard(ctx.S):
        yield ("f", [s], len(s) == 0)


@defop(CS, "string-any", {"f": "(lambda (s p) (string-any (P p) s))"})
def _(ctx):
    for s in ctx.shard(ctx.S):
        for p in range(NP):
            yield ("f", [s, p], m_any(s, p, 0, len(s)))


@defop(CS, "string-every", {"f": "(lambda (s p) (string-every (P p) s))"})
def _(ctx):
    for s in ctx.shard(ctx.S):
        for p in range(NP):
            yield ("f", [s, p], m_every(s, p, 0, len(s)))


def cs_find_model(right, skip):
    def model(s, p, a, b):
        pred = neg(PREDS[p]) if skip else PREDS[p]
        if right:
            return m_find_right(s, pred, a, b)
        r = m_find(s, pred, a, b)
        if r == b and b < len(s):
            # ";;> Returns a cursor just past the end of str if no character matches": with an explicit end the
            # sentence can be read as `end` or as the end of str -- both accepted
            return AnyOf(b, len(s))
        return r
    return model


for _name, _right, _skip in (("string-find", 0, 0), ("string-find-right", 1, 0), ("string-skip", 0, 1),
                             ("string-skip-right", 1, 1)):
    def _mk(name, right, skip):
        @defop(CS, name, rforms("s p", "(ci s (%s s (P p){R}))" % name, modes=("c",)), size="M")
        def _(ctx):
            return rcases(ctx.shard(ctx.S), pred_extra, cs_find_model(right, skip), modes=("c",))
    _mk(_name, _right, _skip)


@defop(CS, "string-find?", rforms("s p", "(string-find? s (P p){R})", modes=("c",)), size="M")
def _(ctx):
    return rcases(ctx.shard(ctx.S), pred_extra, m_any, modes=("c",))


CS_SEPS = [(), (A,), (E9,), (EU, GR)]


@defop(CS, "string-join", {"0": "(lambda (ls) (string-join ls))", "1": "(lambda (ls sep) (string-join ls sep))"})
def _(ctx):
    for ls in ctx.shard(ctx.lists()):
        yield ("0", [ls], m_join(ls))
        for sep in CS_SEPS:
            yield ("1", [ls, sep], m_join(ls, sep))


@defop(CS, "string-split", {"d": "(lambda (s) (string-split s))", "p": "(lambda (s p) (string-split s (P p)))",
                            "l": "(lambda (s p k) (string-split s (P p) k))"})
def _(ctx):
    for s in ctx.shard(ctx.S):
        yield ("d", [s], m_split_pred(s, lambda c: c == 0x20))
        for p in range(NP):
            yield ("p", [s, p], m_split_pred(s, PREDS[p]))
            for k in range(1, len(s) + 3):
                yield ("l", [s, p, k], m_split_pred(s, PREDS[p], k))


for _name, _fn in (("string-trim-left", lambda s, pr: m_trim_left(s, pr)),
                   ("string-trim-right", lambda s, pr: m_trim_right(s, pr)),
                   ("string-trim", lambda s, pr: m_trim_right(m_trim_left(s, pr), pr))):
    def _mk(name, fn):
        @defop(CS, name, {"d": "(lambda (s) (%s s))" % name, "p": "(lambda (s p) (%s s (P p)))" % name})
        def _(ctx):
            for s in ctx.shard(ctx.S):
                yield ("d", [s], fn(s, lambda c: c == 0x20))
                for p in range(NP):
                    yield ("p", [s, p], fn(s, PREDS[p]))
    _mk(_name, _fn)


@defop(CS, "string-mismatch",
       {"f": "(lambda (a b) (call-with-values (lambda () (string-mismatch a b)) (lambda (i j) (list (ci a i) (ci b j)))))"})
def _(ctx):
    for a, b in ctx.shard(ctx.pairs_plain()):
        k = m_prefix_len(a, b)
        yield ("f", [a, b], [k, k])


@defop(CS, "string-mismatch-right",
       {"f": "(lambda (a b) (call-with-values (lambda () (string-mismatch-right a b))"
             " (lambda (i j) (list (gci a i) (gci b j)))))"})
def _(ctx):
    for a, b in ctx.shard(ctx.pairs_plain()):
        k = m_suffix_len(a, b)
        i, j = len(a) - 1 - k, len(b) - 1 - k
        # a cursor "before the start" (one string exhausted) has no documented index: that component is left open
        yield ("f", [a, b], Pat(r"\(l %s %s\)" % (str(i) if i >= 0 else r"\S+", str(j) if j >= 0 else r"\S+")))


@defop(CS, "string-prefix?", {"f": "(lambda (a b) (string-prefix? a b))"})
def _(ctx):
    for a, b in ctx.shard(ctx.pairs_plain()):
        yield ("f", [a, b], m_prefix_len(a, b) == len(a))


@defop(CS, "string-suffix?", {"f": "(lambda (a b) (string-suffix? a b))"})
def _(ctx):
    for a, b in ctx.shard(ctx.pairs_plain()):
        yield ("f", [a, b], m_suffix_len(a, b) == len(a))


@defop(CS, "string-fold",
       {"1": "(lambda (s) (string-fold cons '() s))",
        "2": "(lambda (a b) (string-fold (lambda (x y acc) (cons (list x y) acc)) '() a b))",
        "3": "(lambda (a b c) (string-fold (lambda (x y z acc) (cons (list x y z) acc)) '() a b c))"})
def _(ctx):
    for s in ctx.shard(ctx.S):
        yield ("1", [s], rev(chars(s)))
    for a, b in ctx.shard(ctx.pairs_plain()):
        yield ("2", [a, b], rev(m_zip(a, b)))
    for a in ctx.shard(ctx.S2):
        for b in ctx.S1:
            for c in ctx.S2:
                yield ("3", [a, b, c], rev(m_zip(a, b, c)))


@defop(CS, "string-fold-right", {"1": "(lambda (s) (string-fold-right cons '() s))"})
def _(ctx):
    for s in ctx.shard(ctx.S):
        yield ("1", [s], chars(s))


@defop(CS, "string-count", {"f": "(lambda (s p) (string-count s (P p)))"})
def _(ctx):
    for s in ctx.shard(ctx.S):
        for p in range(NP):
            yield ("f", [s, p], sum(1 for c in s if PREDS[p](c)))


@defop(CS, "string-contains", {"0": "(lambda (a b) (f->i a (string-contains a b)))",
                               "1": "(lambda (a b i) (f->i a (string-contains a b (ic a i))))"}, size="M")
def _(ctx):
    for a, b in ctx.shard(ctx.pairs_plain()):
        yield ("0", [a, b], m_search(a, b, 0, len(a)))
        for i in range(len(a) + 1):
            yield ("1", [a, b, i], m_search(a, b, i, len(a)))


@defop(CS, "make-string-searcher", {"0": "(lambda (a b) (f->i a ((make-string-searcher b) a)))"})
def _(ctx):
    for a, b in ctx.shard(ctx.pairs_plain()):
        yield ("0", [a, b], m_search(a, b, 0, len(a)))


@defop(CS, "string-for-each",
       {"1": "(lambda (s) (let ((acc '())) (string-for-each (lambda (c) (set! acc (cons c acc))) s) acc))",
        "2": "(lambda (a b) (let ((acc '())) (string-for-each (lambda (x y) (set! acc (cons (list x y) acc))) a b) acc))",
        "3": "(lambda (a b c) (let ((acc '())) (string-for-each (lambda (x y z) (set! acc (cons (list x y z) acc))) a b c) acc))"})
def _(ctx):
    for s in ctx.shard(ctx.S):
        yield ("1", [s], rev(chars(s)))
    for a, b in ctx.shard(ctx.pairs_plain()):
        yield ("2", [a, b], rev(m_zip(a, b)))
    for a in ctx.shard(ctx.S2):
        for b in ctx.S1:
            for c in ctx.S2:
                yield ("3", [a, b, c], rev(m_zip(a, b, c)))


def m_map1(c):
    # a -> U+20AC (1 -> 3 bytes), U+1F600 -> a (4 -> 1), others unchanged
    return EU if c == A else (A if c == GR else c)


@defop(CS, "string-map",
       {"1": "(lambda (s) (string-map (lambda (c) (cond ((char=? c c-a) c-eu) ((char=? c c-gr) c-a) (else c))) s))",
        "2": "(lambda (a b) (string-map (lambda (x y) (if (char<? x y) y x)) a b))",
        "3": "(lambda (a b c) (string-map (lambda (x y z) (if (char<? x y) (if (char<? y z) z y) (if (char<? x z) z x))) a b c))"})
def _(ctx):
    for s in ctx.shard(ctx.S):
        yield ("1", [s], tuple(m_map1(c) for c in s))
    for a, b in ctx.shard(ctx.pairs_plain()):
        yield ("2", [a, b], tuple(max(x, y) for x, y in zip(a, b)))
    for a in ctx.shard(ctx.S2):
        for b in ctx.S1:
            for c in ctx.S2:
                yield ("3", [a, b, c], tuple(max(x, y, z) for x, y, z in zip(a, b, c)))


@defop(CS, "string-downcase-ascii", {"f": "(lambda (s) (string-downcase-ascii s))"})
def _(ctx):
    for s in ctx.shard(strings_upto(3, CASE_ALPHA)):
        yield ("f", [s], tuple(0x61 if c == 0x41 else c for c in s))


@defop(CS, "string-upcase-ascii", {"f": "(lambda (s) (string-upcase-ascii s))"})
def _(ctx):
    for s in ctx.shard(strings_upto(3, CASE_ALPHA)):
        yield ("f", [s], tuple(0x41 if c == 0x61 else c for c in s))


@defop(CS, "call-with-output-string",
       {"w": "(lambda (s) (call-with-output-string (lambda (o) (write-string s o))))",
        "c": "(lambda (s) (call-with-output-string (lambda (o) (string-for-each (lambda (c) (write-char c o)) s))))",
        "2": "(lambda (a b) (call-with-output-string (lambda (o) (write-string a o) (write-string b o))))"})
def _(ctx):
    for s in ctx.shard(ctx.S):
        yield ("w", [s], s)
        yield ("c", [s], s)
    for a, b in ctx.shard(ctx.pairs_plain()):
        yield ("2", [a, b], a + b)


@defop(CS, "call-with-input-string",
       {"c": "(lambda (s) (call-with-input-string s port->chars))",
        "rt": "(lambda (s) (call-with-input-string s (lambda (i) (call-with-output-string (lambda (o)"
              " (for-each (lambda (c) (write-char c o)) (port->chars i)))))))"})
def _(ctx):
    for s in ctx.shard(ctx.S):
        yield ("c", [s], chars(s))
        yield ("rt", [s], s)


def cursor_ops(lib):
    """the cursor API; for (srfi 130) the same forms are also run with indexes in place of cursors"""
    modes = ("c",) if lib == CS else ("c", "i")

    def w(m, x, s="s"):
        return "(ic %s %s)" % (s, x) if m == "c" else x

    forms = OrderedDict()
    for m in modes:
        forms["rt" + m] = "(lambda (s i) (ci s %s))" % w(m, "i")
        forms["ref" + m] = "(lambda (s i) (%s s %s))" % ("string-cursor-ref" if lib == CS else "string-ref/cursor", w(m, "i"))
        forms["next" + m] = "(lambda (s i) (ci s (string-cursor-next s %s)))" % w(m, "i")
        forms["prev" + m] = "(lambda (s i) (ci s (string-cursor-prev s %s)))" % w(m, "i")
        forms["fwd" + m] = "(lambda (s i k) (ci s (string-cursor-forward s %s k)))" % w(m, "i")
        forms["back" + m] = "(lambda (s i k) (ci s (string-cursor-back s %s k)))" % w(m, "i")
        forms["cmp" + m] = ("(lambda (s i j) (let ((a %s) (b %s)) (list (string-cursor<? a b) (string-cursor<=? a b)"
                            " (string-cursor=? a b) (string-cursor>=? a b) (string-cursor>? a b))))" % (w(m, "i"), w(m, "j")))
    forms["walk"] = ("(lambda (s i) (let lp ((c (string-cursor-start s)) (k i)) (if (= k 0)"
                     " (list (ci s c) (string-cursor=? c (ic s i))) (lp (string-cursor-next s c) (- k 1)))))")
    forms["walkback"] = ("(lambda (s i) (let lp ((c (string-cursor-end s)) (k i)) (if (= k 0)"
                         " (list (ci s c) (string-cursor=? c (ic s (- (string-length s) i))))"
                         " (lp (string-cursor-prev s c) (- k 1)))))")
    forms["ends"] = ("(lambda (s) (list (ci s (string-cursor-start s)) (ci s (string-cursor-end s))"
                     " (string-cursor? (string-cursor-start s)) (string-cursor? (string-cursor-end s))"
                     " (string-cursor? (ic s 0))))")
    if lib == CS:
        forms["sub1"] = "(lambda (s i) (substring-cursor s (ic s i)))"
        forms["sub2"] = "(lambda (s i j) (substring-cursor s (ic s i) (ic s j)))"
    else:
        for m in modes:
            forms["diff" + m] = "(lambda (s i j) (string-cursor-diff s %s %s))" % (w(m, "i"), w(m, "j"))
            forms["c2c" + m] = "(lambda (s i) (ci s (string-index->cursor s %s)))" % w(m, "i")

    def gen(ctx):
        for s in ctx.shard(ctx.S):
            n = len(s)
            yield ("ends", [s], [0, n, True, True, True])
            for i in range(n + 1):
                yield ("walk", [s, i], [i, True])
                yield ("walkback", [s, i], [n - i, True])
                if lib == CS:
                    yield ("sub1", [s, i], s[i:])
                    for j in range(i, n + 1):
                        yield ("sub2", [s, i, j], s[i:j])
                for m in modes:
                    yield ("rt" + m, [s, i], i)
                    if i < n:
                        yield ("ref" + m, [s, i], Chr(s[i]))
                        yield ("next" + m, [s, i], i + 1)
                    if i > 0:
                        yield ("prev" + m, [s, i], i - 1)
                    for k in range(0, n - i + 1):
                        yield ("fwd" + m, [s, i, k], i + k)
                    for k in range(0, i + 1):
                        yield ("back" + m, [s, i, k], i - k)
                    for j in range(n + 1):
                        yield ("cmp" + m, [s, i, j], [i < j, i <= j, i == j, i >= j, i > j])
                    if lib == S130:
                        yield ("c2c" + m, [s, i], i)
                        for j in range(i, n + 1):
                            yield ("diff" + m, [s, i, j], j - i)
    OPS["%s:string-cursor-api" % lib] = Op(lib, "string-cursor-api", forms, gen, "M")


cursor_ops(CS)

# =========================================================================================== (srfi 130)

cursor_ops(S130)


@defop(S130, "string-null?", {"f": "(lambda (s) (string-null? s))"})
def _(ctx):
    for s in ctx.shard(ctx.S):
        yield ("f", [s], len(s) == 0)


@defop(S130, "string-every", rforms("s p", "(string-every (Q p) s{R})"), size="M")
def _(ctx):
    # only the truth value for #t/#f predicates (for those the "witness" of the SRFI is #t as well)
    return rcases(ctx.shard(ctx.S), pred_extra, m_every)


@defop(S130, "string-any", rforms("s p", "(string-any (Q p) s{R})"), size="M")
def _(ctx):
    return rcases(ctx.shard(ctx.S), pred_extra, m_any)


@defop(S130, "string-tabulate", {"f": "(lambda (s) (string-tabulate (lambda (i) (string-ref s i)) (string-length s)))"})
def _(ctx):
    for s in ctx.shard(ctx.S):
        yield ("f", [s], s)


FINAL = (GR, E9)


@defop(S130, "string-unfold",
       {"0": "(lambda (s) (string-unfold null? car cdr (string->list s)))",
        "1": "(lambda (s b) (string-unfold null? car cdr (string->list s) b))",
        "2": "(lambda (s b) (string-unfold null? car cdr (string->list s) b (lambda (x) (string c-gr c-e9))))"})
def _(ctx):
    for s in ctx.shard(ctx.S):
        yield ("0", [s], s)
        for b in ctx.S2:
            yield ("1", [s, b], b + s)
            yield ("2", [s, b], b + s + FINAL)


@defop(S130, "string-unfold-right",
       {"0": "(lambda (s) (string-unfold-right null? car cdr (string->list s)))",
        "1": "(lambda (s b) (string-unfold-right null? car cdr (string->list s) b))",
        "2": "(lambda (s b) (string-unfold-right null? car cdr (string->list s) b (lambda (x) (string c-gr c-e9))))"})
def _(ctx):
    for s in ctx.shard(ctx.S):
        yield ("0", [s], rev(s))
        for b in ctx.S2:
            yield ("1", [s, b], rev(s) + b)
            yield ("2", [s, b], FINAL + rev(s) + b)


@defop(S130, "string->list/cursors", rforms("s", "(string->list/cursors s{R})"))
def _(ctx):
    return rcases(ctx.shard(ctx.S), no_extra, lambda s, a, b: chars(s[a:b]))


@defop(S130, "string->vector/cursors", rforms("s", "(string->vector/cursors s{R})"))
def _(ctx):
    return rcases(ctx.shard(ctx.S), no_extra, lambda s, a, b: Vec(chars(s[a:b])))


@defop(S130, "reverse-list->string", {"f": "(lambda (s) (reverse-list->string (string->list s)))"})
def _(ctx):
    for s in ctx.shard(ctx.S):
        yield ("f", [s], rev(s))


@defop(S130, "string-join", {"0": "(lambda (ls) (string-join ls))", "1": "(lambda (ls sep) (string-join ls sep))",
                             "2": "(lambda (ls sep g) (string-join ls sep g))"})
def _(ctx):
    for ls in ctx.shard(ctx.lists()):
        yield ("0", [ls], m_join(ls, (0x20,)))        # "delimiter ... defaults to a single space"
        for sep in CS_SEPS:
            yield ("1", [ls, sep], m_join(ls, sep))
            for g in ("infix", "strict-infix", "prefix", "suffix"):
                yield ("2", [ls, sep, Sym(g)], m_join130(ls, sep, g))


@defop(S130, "substring/cursors", rforms("s", "(substring/cursors s{R})", only="2"))
def _(ctx):
    return rcases(ctx.shard(ctx.S), no_extra, lambda s, a, b: s[a:b], only="2")


@defop(S130, "string-copy/cursors", rforms("s", "(string-copy/cursors s{R})"))
def _(ctx):
    return rcases(ctx.shard(ctx.S), no_extra, lambda s, a, b: s[a:b])


for _name, _fn in (("string-take", lambda s, k: s[:k]), ("string-drop", lambda s, k: s[k:]),
                   ("string-take-right", lambda s, k: s[len(s) - k:]), ("string-drop-right", lambda s, k: s[:len(s) - k])):
    def _mk(name, fn):
        @defop(S130, name, {"f": "(lambda (s k) (%s s k))" % name})
        def _(ctx):
            for s in ctx.shard(ctx.S):
                for k in range(len(s) + 1):
                    yield ("f", [s, k], fn(s, k))
    _mk(_name, _fn)


for _name, _fn in (("string-pad", m_pad_left), ("string-pad-right", m_pad_right)):
    def _mk(name, fn):
        forms = rforms("s k", "(%s s k c-eu{R})" % name)
        forms["d"] = "(lambda (s k) (%s s k))" % name
        forms["a"] = "(lambda (s k) (%s s k c-a))" % name

        @defop(S130, name, forms, size="M")
        def _(ctx):
            S = ctx.shard(ctx.S)
            for s in S:
                for k in range(len(s) + 3):
                    yield ("d", [s, k], fn(s, k, 0x20))
                    yield ("a", [s, k], fn(s, k, A))
            for c in rcases(S, lambda s: [[k] for k in range(len(s) + 2)], lambda s, k, a, b: fn(s[a:b], k, EU)):
                yield c
    _mk(_name, _fn)


for _name, _fn in (("string-trim", lambda s, pr: m_trim_left(s, pr)),
                   ("string-trim-right", lambda s, pr: m_trim_right(s, pr)),
                   ("string-trim-both", lambda s, pr: m_trim_right(m_trim_left(s, pr), pr))):
    def _mk(name, fn):
        forms = rforms("s p", "(%s s (Q p){R})" % name)
        forms["d"] = "(lambda (s) (%s s))" % name

        @defop(S130, name, forms, size="M")
        def _(ctx):
            S = ctx.shard(ctx.S)
            for s in S:
                yield ("d", [s], s)          # default char-whitespace?: no whitespace in the alphabet
            for c in rcases(S, pred_extra, lambda s, p, a, b: fn(s[a:b], PREDS[p])):
                yield c
    _mk(_name, _fn)


for _name, _fn in (("string-prefix-length", lambda x, y: m_prefix_len(x, y)),
                   ("string-suffix-length", lambda x, y: m_suffix_len(x, y)),
                   ("string-prefix?", lambda x, y: m_prefix_len(x, y) == len(x)),
                   ("string-suffix?", lambda x, y: m_suffix_len(x, y) == len(x))):
    def _mk(name, fn):
        @defop(S130, name, r2forms("(%s s t{R})" % name), size="L")
        def _(ctx):
            return r2cases(ctx.shard(ctx.pairs()), lambda s, t, a, b, c, d: fn(s[a:b], t[c:d]))
    _mk(_name, _fn)


def s130_find_model(right, skip):
    def model(s, p, a, b):
        pred = neg(PREDS[p]) if skip else PREDS[p]
        return m_find_right(s, pred, a, b) if right else m_find(s, pred, a, b)
    return model


for _name, _right, _skip in (("string-index", 0, 0), ("string-index-right", 1, 0), ("string-skip", 0, 1),
                             ("string-skip-right", 1, 1)):
    def _mk(name, right, skip):
        @defop(S130, name, rforms("s p", "(ci s (%s s (Q p){R}))" % name), size="M")
        def _(ctx):
            return rcases(ctx.shard(ctx.S), pred_extra, s130_find_model(right, skip))
    _mk(_name, _right, _skip)


@defop(S130, "string-contains", r2forms("(f->i s (string-contains s t{R}))"), size="L")
def _(ctx):
    return r2cases(ctx.shard(ctx.pairs()), lambda s, t, a, b, c, d: m_search(s, t[c:d], a, b))


@defop(S130, "string-contains-right", r2forms("(f->i s (string-contains-right s t{R}))"), size="L")
def _(ctx):
    return r2cases(ctx.shard(ctx.pairs()), lambda s, t, a, b, c, d: m_search_right(s, t[c:d], a, b))


@defop(S130, "string-reverse", rforms("s", "(string-reverse s{R})"))
def _(ctx):
    return rcases(ctx.shard(ctx.S), no_extra, lambda s, a, b: rev(s[a:b]))


@defop(S130, "string-concatenate", {"f": "(lambda (ls) (string-concatenate ls))"})
def _(ctx):
    for ls in ctx.shard(ctx.lists()):
        yield ("f", [ls], m_join(ls))


@defop(S130, "string-concatenate-reverse",
       {"0": "(lambda (ls) (string-concatenate-reverse ls))", "1": "(lambda (ls f) (string-concatenate-reverse ls f))",
        "2i": "(lambda (ls f e) (string-concatenate-reverse ls f e))",
        "2c": "(lambda (ls f e) (string-concatenate-reverse ls f (ic f e)))"}, size="M")
def _(ctx):
    for ls in ctx.shard(ctx.lists()):
        yield ("0", [ls], m_join(rev(ls)))
        for f in ctx.S2:
            yield ("1", [ls, f], m_join(rev(ls)) + f)
            for e in range(len(f) + 1):
                yield ("2i", [ls, f, e], m_join(rev(ls)) + f[:e])
                yield ("2c", [ls, f, e], m_join(rev(ls)) + f[:e])


@defop(S130, "string-fold", rforms("s", "(string-fold cons '() s{R})"))
def _(ctx):
    return rcases(ctx.shard(ctx.S), no_extra, lambda s, a, b: rev(chars(s[a:b])))


@defop(S130, "string-fold-right", rforms("s", "(string-fold-right cons '() s{R})"))
def _(ctx):
    return rcases(ctx.shard(ctx.S), no_extra, lambda s, a, b: chars(s[a:b]))


@defop(S130, "string-for-each-cursor",
       rforms("s", "(let ((acc '())) (string-for-each-cursor (lambda (c) (set! acc (cons (list (ci s c)"
                   " (string-ref/cursor s c)) acc))) s{R}) (reverse acc))"))
def _(ctx):
    return rcases(ctx.shard(ctx.S), no_extra, lambda s, a, b: [[i, Chr(s[i])] for i in range(a, b)])


REPL_FORMS = rforms("s f t", "(string-replicate s f t{R})")


@defop(S130, "string-replicate", REPL_FORMS, size="M")
def _(ctx):
    # without a range: from in [-n-1, n+1], to-from in [0, n+2]; with a range: from in [-2, 2], to-from in [0, len+1]
    # (an empty substring is an error unless from = to, so it is only generated with from = to)
    S = ctx.shard(ctx.S)
    for s in S:
        n = len(s)
        for f in range(-n - 1, n + 2):
            for t in range(f, f + n + 3):
                if n > 0 or f == t:
                    yield ("0", [s, f, t], m_replicate(s, f, t))
        for a in range(n + 1):
            for b in [None] + list(range(a, n + 1)):
                sub = s[a:(n if b is None else b)]
                for f in range(-2, 3):
                    for t in range(f, f + len(sub) + 2):
                        if len(sub) > 0 or f == t:
                            w = m_replicate(sub, f, t)
                            for m in ("i", "c"):
                                if b is None:
                                    yield (m + "1", [s, f, t, a], w)
                                else:
                                    yield (m + "2", [s, f, t, a, b], w)


@defop(S130, "string-count", rforms("s p", "(string-count s (Q p){R})"), size="M")
def _(ctx):
    return rcases(ctx.shard(ctx.S), pred_extra, lambda s, p, a, b: sum(1 for c in s[a:b] if PREDS[p](c)))


@defop(S130, "string-replace", r2forms("(string-replace s t{R})", first=2), size="L")
def _(ctx):
    return r2cases(ctx.shard(ctx.pairs()), lambda s, t, a, b, c, d: s[:a] + t[c:d] + s[b:], first=2)


def split_delims(ctx):
    return ctx.S2


SPLIT_FORMS = rforms("s d", "(string-split s d 'infix #f{R})")
SPLIT_FORMS["g"] = "(lambda (s d g) (string-split s d g))"
SPLIT_FORMS["gf"] = "(lambda (s d g) (string-split s d g #f))"
SPLIT_FORMS["gl"] = "(lambda (s d g k) (string-split s d g k))"


@defop(S130, "string-split", SPLIT_FORMS, size="L")
def _(ctx):
    S = ctx.shard(ctx.S)
    D = split_delims(ctx)
    for s in S:
        for d in D:
            for g in ("infix", "strict-infix", "prefix", "suffix"):
                w = m_split130(s, d, g, None)
                yield ("g", [s, d, Sym(g)], w)
                yield ("gf", [s, d, Sym(g)], w)
            if len(d) > 0:
                # a limit: only with a non-empty delimiter and the infix grammars (see NOTES: the interplay of limit
                # with an empty delimiter and with prefix/suffix suppression is not pinned down by the text)
                for g in ("infix", "strict-infix"):
                    for k in range(0, len(s) + 2):
                        yield ("gl", [s, d, Sym(g), k], m_split130(s, d, g, k))
    for c in rcases(S, lambda s: [[d] for d in D], lambda s, d, a, b: m_split130(s[a:b], d, "infix", None), only="12"):
        yield c


@defop(S130, "string-filter", rforms("s p", "(string-filter (Q p) s{R})"), size="M")
def _(ctx):
    return rcases(ctx.shard(ctx.S), pred_extra, lambda s, p, a, b: tuple(c for c in s[a:b] if PREDS[p](c)))


@defop(S130, "string-remove", rforms("s p", "(string-remove (Q p) s{R})"), size="M")
def _(ctx):
    return rcases(ctx.shard(ctx.S), pred_extra, lambda s, p, a, b: tuple(c for c in s[a:b] if not PREDS[p](c)))


# ------------------------------------------------------------------------------------------- running

SHARDS = {"quick": {"S": 1, "M": 1, "L": 6}, "thorough": {"S": 1, "M": 6, "L": 16}}
PACK = 5      # small ops per process


def plan(tier):
    """-> list of jobs; a job is (lib, [(opkey, k, m), ...])"""
    jobs = []
    for lib in (S130, CS):
        small = []
        for op in OPS.values():
            if op.lib != lib:
                continue
            m = SHARDS[tier][op.size]
            if m == 1 and op.size == "S":
                small.append((op.key, 0, 1))
            else:
                for k in range(m):
                    jobs.append((lib, [(op.key, k, m)]))
        for i in range(0, len(small), PACK):
            jobs.append((lib, small[i:i + PACK]))
    return jobs


def call_text(op, form, args):
    return "(%s %s)" % (op.forms[form], " ".join(dat_arg(a) for a in args))


def dat_arg(a):
    """an argument as an expression (outside a quote): lists and symbols need a quote"""
    if isinstance(a, (list, Sym)) and not isinstance(a, (Chr,)):
        return "'" + dat(a)
    return dat(a)


def replay_program(op, form, args, want, got):
    return (PRELUDE[op.lib] + "\n;; c12lib %s\n;; expected: %s\n;; observed: %s\n;; c12lib-accept: %s\n(define f %s)\n(run f '(%s))\n"
            % (op.key, want_text(want), got, json.dumps(accept_patterns(want)), op.forms[form], dat(list(args))))


def accept_patterns(w):
    if isinstance(w, AnyOf):
        return [re.escape(fmt(x)) for x in w.alts]
    if isinstance(w, Pat):
        return [w.rx]
    return [re.escape(fmt(w))]


def replay(path):
    """re-run one recorded case (files written by this module carry a ';; c12lib-accept:' line)"""
    path = os.path.abspath(path)
    pats = None
    for ln in open(path, encoding="utf-8"):
        if ln.startswith(";; c12lib-accept: "):
            pats = json.loads(ln.split(": ", 1)[1])
    r = common.evalbatch("opt", [path], timeout=120)
    print(r.out)
    got = common.parse_tagged(r.out).get(0)
    ok = r.rc == 0 and got is not None and pats is not None and any(re.fullmatch(p, got) for p in pats)
    print("expected:", " or ".join(pats or ["?"]))
    print("got     :", got)
    print("REPLAY", "passes" if ok else "still fails")
    return 0 if ok else 1


def want_text(w):
    if isinstance(w, AnyOf):
        return " or ".join(fmt(x) for x in w.alts)
    if isinstance(w, Pat):
        return "matching " + w.rx
    return fmt(w)


def accepts(w, got):
    if isinstance(w, AnyOf):
        return any(fmt(x) == got for x in w.alts)
    if isinstance(w, Pat):
        return re.fullmatch(w.rx, got) is not None
    return fmt(w) == got


def nontrivial_args(args):
    for a in args:
        if isinstance(a, tuple) and any(c > 0x7F for c in a):
            return True
        if isinstance(a, list) and nontrivial_args(a):
            return True
    return False


def outcome_class(got):
    if got in ("#t", "#f", "ERR"):
        return got
    if got.startswith("(s"):
        return "string"
    if got.startswith("(l") or got.startswith("(v"):
        return "list"
    if got.startswith("(c"):
        return "char"
    if re.fullmatch(r"-?\d+", got):
        return "integer"
    return "other"


def run_driver(path, cwd, timeout):
    r = None
    for attempt in range(4):
        try:
            r = common.evalbatch("opt", [path], timeout=timeout, cwd=cwd)
        except OSError:
            r = None
        if r is not None and not re.search(r"^;;EXC 0 ", r.out, re.M) and "cannot open shared object" not in r.out:
            return r
        time.sleep(3 + 3 * attempt)         # somebody is rebuilding build/opt under our feet
        build.build_variant("opt")
    return r if r is not None else common.Result(-1, "evalbatch could not be started")


def driver_text(lib, items):
    """items: list of (op, form, args, want) in driver order -> program text (consecutive runs of one (op, form)
    share a function and are chunked)"""
    text = [PRELUDE[lib]]
    fn = 0
    i = 0
    while i < len(items):
        op, form = items[i][0], items[i][1]
        j = i
        while j < len(items) and items[j][0] is op and items[j][1] == form:
            j += 1
        text.append("(define f%d %s)" % (fn, op.forms[form]))
        for c in range(i, j, CHUNK):
            text.append("(run f%d '(%s))" % (fn, " ".join(dat(list(it[2])) for it in items[c:min(j, c + CHUNK)])))
        fn += 1
        i = j
    return "\n".join(text) + "\n"


def run_job(job):
    lib, units, tier = job
    t0 = time.time()
    res = {"lib": lib, "units": units, "n": Counter(), "nontrivial": 0, "outcomes": Counter(), "viol": [],
           "nviol": Counter(), "nviol_form": Counter(), "runs": 0, "problems": [], "lost": 0, "open": 0, "samples": []}
    items = []
    for opkey, k, m in units:
        op = OPS[opkey]
        cs = list(op.gen(Ctx(tier, k, m)))
        order = {f: i for i, f in enumerate(op.forms)}
        cs.sort(key=lambda c: order[c[0]])        # stable: group the cases of one form
        for form, args, want in cs:
            items.append((op, form, args, want))
    d = common.scratch_dir("c12lib")
    try:
        timeout = 90 if tier == "quick" else 400
        start = 0
        rounds = 0
        results = {}
        while start < len(items) and rounds < 6:
            rounds += 1
            path = os.path.join(d, "job%d.scm" % rounds)
            with open(path, "w", encoding="utf-8") as fh:
                fh.write(driver_text(lib, items[start:]))
            r = run_driver(path, d, timeout)
            res["runs"] += 1
            got = common.parse_tagged(r.out)
            nseen = 0
            while nseen in got:
                results[start + nseen] = got[nseen]
                nseen += 1
            if start + nseen >= len(items) and r.rc == 0 and not r.timed_out:
                break
            if nseen == 0 and rounds == 1 and r.rc == 0 and not r.timed_out:
                # the driver ran to its end without printing a single result: the prelude / import is broken
                res["harness"] = "driver for %s printed no result: %s" % (lib, r.out[:600])
                break
            # the process stopped early: the first case without a result line is the culprit
            bad = start + nseen
            if bad < len(items):
                op, form, args, want = items[bad]
                why = "timed out after %ds (endless loop?)" % timeout if r.timed_out else "process ended with rc=%s" % r.rc
                results[bad] = "DIED: " + why
                tail = r.out[-300:].replace("\n", " | ")
                res["problems"].append("%s: %s at %s ... %s" % (op.key, why, call_text(op, form, args)[:200], tail))
                start = bad + 1
            else:
                res["problems"].append("driver for %s ended with rc=%s after the last case: %s" % (lib, r.rc, r.out[-300:]))
                break
        kept = Counter()
        samp = {}
        for i, (op, form, args, want) in enumerate(items):
            g = results.get(i)
            if g is None:
                res["lost"] += 1
                continue
            res["n"][op.key] += 1
            if nontrivial_args(args):
                res["nontrivial"] += 1
            res["outcomes"][outcome_class(g)] += 1
            if isinstance(want, (AnyOf, Pat)):
                res["open"] += 1
            if accepts(want, g):
                if i % 101 == 50 and nontrivial_args(args):
                    samp[op.key] = "%s => %s" % (call_text(op, form, args), g)
                continue
            res["nviol"][op.key] += 1
            res["nviol_form"]["%s %s" % (op.key, op.forms[form])] += 1
            kept[(op.key, form)] += 1
            if kept[(op.key, form)] <= MAX_REPORTED_PER_FORM:
                res["viol"].append({"op": op.key, "form": form, "args": [dat(a) for a in args], "got": g,
                                    "want": want_text(want), "call": call_text(op, form, args),
                                    "_item": i})
        res["samples"] = sorted(samp.items())
        # README rule 4: the first failing case of every procedure is re-run alone in a fresh process
        first = {}
        for v in res["viol"]:
            first.setdefault(v["op"], v)
        for v in first.values():
            op, form, args, want = items[v["_item"]]
            if v["got"].startswith("DIED"):
                v["alone"] = "not re-run (the process died / hung on it)"
                continue
            path = os.path.join(d, "alone.scm")
            with open(path, "w", encoding="utf-8") as fh:
                fh.write(driver_text(lib, [items[v["_item"]]]))
            r = run_driver(path, d, 60)
            res["runs"] += 1
            g1 = common.parse_tagged(r.out).get(0)
            v["alone"] = ("same result alone in a fresh process" if g1 == v["got"] else
                          "alone in a fresh process: %s" % (g1 if g1 is not None else "no result, rc=%s" % r.rc))
        for v in res["viol"]:
            op, form, args, want = items[v.pop("_item")]
            v["replay"] = replay_program(op, form, args, want, v["got"])
    finally:
        shutil.rmtree(d, ignore_errors=True)
    res["secs"] = round(time.time() - t0, 2)
    return res


def run(chk, tier):
    """Entry point used by c12.main: adds evaluations / outcomes / violations to `chk`."""
    t0 = time.time()
    tier = "quick" if tier == "quick" else "thorough"
    build.build_variant("opt")
    jobs = plan(tier)
    # big jobs first
    weight = {"L": 3, "M": 2, "S": 1}
    jobs.sort(key=lambda j: -max(weight[OPS[u[0]].size] for u in j[1]))
    per_op = Counter()
    viol_by_op = Counter()
    reported = Counter()
    reported_form = Counter()
    sampled = set()
    sampled_lib = Counter()
    viol_by_form = Counter()
    open_n = 0
    lost = 0
    runs = 0
    done = 0
    stopped = False
    problems = []
    log("C12 library part: %d procedures/groups in %d jobs (%s)" % (len(OPS), len(jobs), tier))
    with Pool(common.NCPU) as pool:
        for res in pool.imap_unordered(run_job, [(lib, units, tier) for lib, units in jobs]):
            done += 1
            n = sum(res["n"].values())
            per_op.update(res["n"])
            for oc, c in res["outcomes"].items():
                chk.count(c, outcome="lib:" + oc)
            chk.nontrivial_n += res["nontrivial"]
            open_n += res["open"]
            lost += res["lost"]
            runs += res["runs"]
            viol_by_op.update(res["nviol"])
            viol_by_form.update(res["nviol_form"])
            for opkey, s in res["samples"]:
                # a few samples, of different procedures, alternating between the two libraries
                lib = opkey.split(":")[0]
                if opkey not in sampled and sampled_lib[lib] < 3 and OPS[opkey].size != "S":
                    sampled.add(opkey)
                    sampled_lib[lib] += 1
                    chk.sample(s, cap=13)
            for p in res["problems"]:
                problems.append(p)
            if res.get("harness"):
                pool.terminate()
                raise common.HarnessError("c12lib: " + res["harness"])
            for v in res["viol"]:
                if reported[v["op"]] >= MAX_REPORTED_PER_OP or reported_form[(v["op"], v["form"])] >= MAX_REPORTED_PER_FORM:
                    continue
                reported[v["op"]] += 1
                reported_form[(v["op"], v["form"])] += 1
                replay = v.pop("replay")
                what = "%s: %s => %s ; expected %s%s" % (v["op"], v["call"], v["got"], v["want"],
                                                          (" [" + v["alone"] + "]") if v.get("alone") else "")
                chk.violation(v, what, replay)
            if chk.out_of_time():
                pool.terminate()
                stopped = True
                log("C12 library part: deadline reached after %d/%d jobs" % (done, len(jobs)))
                break
    if lost:
        chk.exhaustive = False
    for p in problems[:10]:
        log("C12 library part: driver problem: " + p)
    cov = {
        "cases": int(sum(per_op.values())),
        "cases_by_procedure": dict(sorted(per_op.items())),
        "procedures": len(per_op),
        "violations_by_op": dict(viol_by_op),
        "violations_by_call_form": dict(viol_by_form),
        "violations_reported_cap_per_op": MAX_REPORTED_PER_OP,
        "cases_with_open_component": open_n,
        "cases_without_result": lost,
        "driver_processes": runs,
        "jobs": len(jobs), "jobs_done": done, "stopped_at_deadline": stopped,
        "driver_problems": problems[:20],
        "wall_s": round(time.time() - t0, 1),
    }
    chk.cov["c12lib"] = cov
    chk.assumptions.append(
        "library part (mc/props/c12lib.py): (chibi string) is checked against its ';;>' comments and in-tree tests "
        "(string-find-right returns the cursor FOLLOWING the match / start when none), (srfi 130) against the SRFI text; "
        "results that are cursors are compared after string-cursor->index; undefined components (cursor before the start, "
        "string-find with explicit end and no match) are left open; see mc/props/c12lib.NOTES.md")
    # workers remove their own scratch directories; those of workers killed at the deadline are removed here
    if stopped and os.path.isdir(common.SCRATCH_ROOT):
        for f in os.listdir(common.SCRATCH_ROOT):
            if re.match(r"c12lib-\d+-\d+$", f):
                shutil.rmtree(os.path.join(common.SCRATCH_ROOT, f), ignore_errors=True)
    log("C12 library part: %d cases, %d procedures, violations in %d procedures (%d cases), %.1fs"
        % (cov["cases"], cov["procedures"], len(viol_by_op), sum(viol_by_op.values()), time.time() - t0))
    return cov


def count_cases(tier="quick"):
    """utility: number of cases per procedure (python3 -c 'from mc.props import c12lib; c12lib.count_cases()')"""
    tot = 0
    for op in OPS.values():
        n = sum(1 for _ in op.gen(Ctx(tier)))
        tot += n
        print("%-40s %s %8d" % (op.key, op.size, n))
    print("total", tot)
