"""C09 -- optimisation passes and numeric build variants preserve program meaning.

(a) differential exploration: every program of the C03 generators plus a generator aimed at what the simplifier touches
    (all-literal arithmetic incl. overflow / division by zero / non-numeric literals, constant-bound lets with shadowing,
    assignment, capture; literal and propagated tests; value-only statements next to effectful ones; rest parameters) is run on
    the default build and on a build with SEXP_USE_SIMPLIFY=0; outputs must be identical.  Arithmetic programs additionally on
    the SEXP_USE_CUSTOM_LONG_LONGS=1 build.
(b) harness/cllcheck.c: every portable 128-bit helper against native __int128 on all operand pairs of a 2401-value lattice."""
import os, re, subprocess, time
from multiprocessing import Pool
from .. import common, build, gen_core
from ..common import Check, log

HEADER = "(import (scheme base) (scheme write) (scheme eval))\n"


def case_text(i, body):
    tops, expr = gen_core.split_top(body)
    return (tops + "\n" if tops else "") + "(run-case %d (lambda () %s))\n" % (i, expr)


def run_variant(variant, path, d):
    r = common.evalbatch(variant, [path], timeout=600, cwd=d, env={"VERIF_BUDGET": "20000000"})
    got = {}
    for l in r.out.split("\n"):
        if l.startswith("#"):
            h = l[1:].split(" ", 1)[0]
            if h.isdigit():
                # a case that reports twice (control returned twice from it) is itself a difference
                got[int(h)] = l if int(h) not in got else got[int(h)] + "  ++REPORTED AGAIN++  " + l
    return got, (r.rc != 0 or r.timed_out), r.out[-500:]


def run_job(arg):
    jobno, progs, variants = arg
    d = common.scratch_dir("c09")
    path = os.path.join(d, "job.scm")
    common.write_file(path, HEADER + gen_core.PRELUDE + "".join(case_text(i, b) for i, _, b in progs))
    res = {v: run_variant(v, path, d) for v in variants}
    base = res[variants[0]][0]
    mism, outcomes = [], {}
    for i, desc, body in progs:
        w = base.get(i)
        key = "missing" if w is None else ("ERR" if " ERR |" in w else ("obs" if not w.endswith("| ()") else "pure"))
        outcomes[key] = outcomes.get(key, 0) + 1
        for v in variants[1:]:
            g = res[v][0].get(i)
            if g != w:
                mism.append((desc, body, v, w, g))
    crashes = [(v, res[v][2]) for v in variants if res[v][1]]
    import shutil
    shutil.rmtree(d, ignore_errors=True)
    return jobno, len(progs), mism[:80], len(mism), outcomes, crashes


def main(tier):
    chk = Check("C09", "exploration", tier, quick_s=170, thorough_s=1500)
    chk.clean_replays()
    level = 0 if tier == "quick" else 1
    chk.rule = ("all programs of the C03 generators and of the simplifier-directed generator (mc/gen_core.py part C) on builds "
                "{default, SEXP_USE_SIMPLIFY=0} (arithmetic ones also SEXP_USE_CUSTOM_LONG_LONGS=1); all 128-bit helpers on all pairs "
                "of a 2401-value limb lattice; distinct_nontrivial = programs with an observation, an error outcome, or helper evaluations")
    chk.assumptions = ["references to unbound variables in value-only positions are excluded (an error without required diagnostic)",
                       "the default build is the reference side of the differential; C03 anchors it to R7RS"]
    for v in ("opt", "nosimp", "cll"):
        build.build_variant(v)
    progs = [(i, d, b) for i, (d, b) in enumerate(gen_core.c09_programs(level))]
    per = 2000
    jobs = []
    for j, lo in enumerate(range(0, len(progs), per)):
        chunk = progs[lo:lo + per]
        arith = all(str(d[0]).startswith("C-") for _, d, _ in chunk)
        jobs.append((j, chunk, ["opt", "nosimp", "cll"] if arith else ["opt", "nosimp"]))
    log("C09: %d programs in %d jobs" % (len(progs), len(jobs)))
    done = 0
    with Pool(common.NCPU) as pool:
        for jobno, n, mism, nm, outcomes, crashes in pool.imap_unordered(run_job, jobs):
            done += 1
            chk.evaluations += n
            for k, c in outcomes.items():
                chk.outcomes[k] += c
                if k != "pure":
                    chk.nontrivial_n += c
            for desc, body, v, w, g in mism:
                chk.violation({"op": "%s:%s" % (v, desc[0]), "variant": v, "desc": list(map(str, desc)), "want": w, "got": g},
                              "build %s prints %r but the default build %r for %s" % (v, g, w, body[:300]),
                              HEADER + gen_core.PRELUDE + case_text(0, body))
            for v, tail in crashes:
                chk.violation({"op": "crash:" + v, "job": jobno}, "batch %d crashed on build %s: %s" % (jobno, v, tail[-300:]))
            if chk.out_of_time():
                pool.terminate()
                break
    for _, d, b in progs[-4000:: 700][:6]:
        chk.sample(b[:200])
    # (b)
    out = build.build_variant("cll")
    p = subprocess.run([os.path.join(out, "harness", "cllcheck")], env=build.env_for("cll"), stdout=subprocess.PIPE,
                       stderr=subprocess.STDOUT, timeout=900)
    txt = p.stdout.decode()
    m = re.search(r"STATS evaluations=(\d+) mismatches=(\d+)", txt)
    if not m:
        chk.violation({"op": "cllcheck-crash"}, "cllcheck ended abnormally: " + txt[-400:])
    else:
        chk.evaluations += int(m.group(1))
        chk.nontrivial_n += int(m.group(1))
        chk.outcomes["helper-eval"] += int(m.group(1))
        chk.cov["helper_evaluations"] = int(m.group(1))
        for l in txt.split("\n"):
            if l.startswith("MISMATCH"):
                chk.violation({"op": "cll-helper:" + l.split()[1], "line": l}, "128-bit helper differs from native __int128: " + l)
        chk.sample("luint_mul_uint(0x00000001fffffffe7fffffff80000000, 0xfffffffe00000002) vs unsigned __int128")
    chk.cov["jobs_completed"] = done
    chk.cov["jobs_total"] = len(jobs)
    chk.cov["programs"] = len(progs)
    common.cleanup_scratch()
    return chk.finish()
