"""C10 -- unreachable memory is recycled and the heap stays well-formed.

(a) explicit-state exploration of the real allocator/collector (harness/heapmc.c): all alloc/link/clear/gc
    histories to depth d over 10 object shapes and 3 root slots, de-duplicated on the exact heap tiling; the
    heap-walk checker runs after every transition and after every collection; live bytes after gc must equal
    the boot constant plus the model's reachable bytes; every final-frontier state is churned until its heap
    state repeats (lasso => bounded for ever).
(b) the same checker installed at every collection of whole programs (GC workloads, the repository's own
    r7rs/r5rs/division/syntax/unicode test files) under forced-collection schedules.
(c) bounded-live-data churn loops: heap size sampled over 24 rounds of 20 000 allocations must reach a fixpoint."""
import os, re, subprocess, time
from concurrent.futures import ThreadPoolExecutor
from .. import common, build
from ..common import Check, log

HEAPMC_OPS = 40


def run_heapmc(variant, depth, first, lasso, heap, limit=3000):
    out = build.build_variant(variant)
    e = build.env_for(variant)
    t0 = time.time()
    try:
        p = subprocess.run([os.path.join(out, "harness", "heapmc"), str(depth), str(first), str(lasso), str(heap)], preexec_fn=common.die_with_parent,
                           env=e, stdout=subprocess.PIPE, stderr=subprocess.STDOUT, timeout=limit)
    except subprocess.TimeoutExpired:
        return {"timeout": True, "first": first, "heap": heap, "depth": depth, "stats": {}, "violations": [], "asan": False, "rc": None, "tail": "", "wall": time.time() - t0}
    txt = p.stdout.decode("utf-8", "replace")
    stats = {}
    m = re.search(r"^STATS (.*)$", txt, re.M)
    if m:
        for kv in m.group(1).split():
            k, _, v = kv.partition("=")
            stats[k] = int(v)
    viol = [l[10:] for l in txt.split("\n") if l.startswith("VIOLATION ")]
    asan = "AddressSanitizer" in txt
    return {"rc": p.returncode, "stats": stats, "violations": viol, "asan": asan, "tail": txt[-1500:], "first": first,
            "heap": heap, "wall": time.time() - t0, "depth": depth}


def main(tier):
    chk = Check("C10", "model_checking", tier, quick_s=170, thorough_s=1500)
    chk.clean_replays()
    quick = tier == "quick"
    chk.rule = ("(a) all histories over 40 operations (alloc of 10 shapes into 3 root slots, link, clear, gc) to the stated depth, "
                "de-duplicated on the exact tiling of every heap segment + root/link graph; distinct_nontrivial = distinct heap states; "
                "(b) heap checker at every collection of 10 GC workloads and 5 repository test files; (c) churn loops")
    chk.assumptions = ["default allocator configuration (no fixed-chunk heaps, no mmap)", "two independent 64-bit hashes identify a state key",
                       "the checker reads the same type table as the collector to find object sizes and slots"]
    build.build_variant("asan")
    states = transitions = replays = lasso_runs = 0
    # ---------------- (a)
    plan = []
    if quick:
        plan += [("asan", 4, f, 1, 64 * 1024) for f in range(HEAPMC_OPS)]
        plan += [("asan", 3, -1, 1, 256 * 1024)]
    else:
        build.build_variant("opt")
        plan += [("asan", 5, f, 1, 64 * 1024) for f in range(HEAPMC_OPS)]
        plan += [("asan", 4, f, 1, 256 * 1024) for f in range(HEAPMC_OPS)]
        plan += [("asan", 4, -1, 1, 1024 * 1024)]
    # heap sizes below SEXP_MINIMUM_HEAP_SIZE select the default size; every requested size must boot cleanly and stay well-formed
    plan += [("asan", 2, -1, 0, hb) for hb in (1, 4096, 8192, 16384, 36 * 1024, 40 * 1024, 65535, 65536, 65537, 100000)]
    # every exploration gets the time that is left for part (a) (two thirds of the tier's budget); one that runs out of it is undecided
    limit_a = max(120, int(chk.time_left() * 0.66))
    with ThreadPoolExecutor(common.NCPU) as ex:
        results = list(ex.map(lambda a: run_heapmc(*a, limit=limit_a), plan))
    for r in results:
        if r.get("timeout"):
            chk.exhaustive = False
            log("C10 (a): heapmc depth %s first op %s heap %s ran out of wall-clock time: undecided" % (r["depth"], r["first"], r["heap"]))
            continue
        st = r["stats"]
        if not st or (r["rc"] not in (0, 1)) or r["asan"]:
            chk.violation({"op": "heapmc-crash", "first": r["first"], "heap": r["heap"]},
                          "heapmc (first op %s, heap %s) ended abnormally rc=%s: %s" % (r["first"], r["heap"], r["rc"], r["tail"][-600:]))
            continue
        states += st["states"]
        transitions += st["transitions"]
        replays += st["replays"]
        lasso_runs += st["lasso_runs"]
        chk.count(st["transitions"], outcome="transition-ok")
        for v in r["violations"]:
            hist, _, msg = v.partition(" :: ")
            chk.violation({"op": "heap-history", "history": hist, "msg": msg, "heap": r["heap"]},
                          "history [%s] (heap %d): %s" % (hist, r["heap"], msg), "heap=%d\nhistory=%s\n" % (r["heap"], hist), ext="hist")
    chk.nontrivial_n += states
    chk.sample("alloc(0,b64) alloc(1,pair) link(1,0) clear(0) gc  -- 5 of the 40-operation alphabet")
    chk.sample({"heapmc_runs": len(plan), "depths": sorted(set(p[1] for p in plan)), "heaps": sorted(set(p[4] for p in plan))})
    log("C10 (a): %d states, %d transitions, %d lasso runs" % (states, transitions, lasso_runs))
    # ---------------- (b) checker at every collection of whole programs
    gcdir = os.path.join(common.VERIF, "scheme", "gc")
    progs = []
    for wl in ["micro1", "micro2", "lists", "strings", "bignum", "control", "evalmacro", "hash", "io", "threads"]:
        progs.append((wl, [os.path.join(gcdir, wl + ".scm")], [os.path.join(gcdir, wl + ".pre.scm")], None))
    progs.append(("ephchain", [os.path.join(common.VERIF, "scheme", "heap", "ephchain.scm")], [], None))
    tests = os.path.join(common.REPO, "tests")
    for t in (["r7rs-tests", "division-tests", "syntax-tests"] if quick else ["r7rs-tests", "division-tests", "syntax-tests", "unicode-tests"]):
        progs.append((t, [os.path.join(tests, t + ".scm")], [], None))
    scheds = ["nth:61"] if quick else ["nth:61", "nth:7", "nth:1009"]
    heapchecks = 0

    def run_prog(a):
        (name, files, pre, lang), sched = a
        if chk.time_left() < 30:
            return name, sched, None
        r = common.evalbatch("asan", files, preludes=pre, lang=lang, timeout=max(60, min(1200, int(chk.time_left()))), cwd=common.REPO if not pre else None,
                             env={"VERIF_POISON": "1", "VERIF_HEAPCHECK": "1", "VERIF_GC": sched})
        return name, sched, r

    with ThreadPoolExecutor(common.NCPU) as ex:
        # the repository's test files are long: in the quick tier they get a sparser schedule (longest first, for the pool)
        work = [(p, s) for p in progs for s in scheds]
        if quick:
            work = [(p, ("nth:401" if p[0].endswith("-tests") else s)) for p, s in work]
        work.sort(key=lambda a: 0 if a[0][0] == "r7rs-tests" else 1)
        for name, sched, r in ex.map(run_prog, work):
            if r is None:
                chk.exhaustive = False
                continue
            m = re.search(r"heapchecks=(\d+) heapcheck_fail=(\d+)(?: msg=(.*))?", r.out)
            if r.timed_out:
                chk.exhaustive = False
                log("C10 (b): program %s under %s ran out of wall-clock time: undecided" % (name, sched))
                continue
            if r.rc != 0 or not m or "AddressSanitizer" in r.out:
                chk.violation({"op": "program-crash", "program": name, "schedule": sched},
                              "program %s under %s ended abnormally (rc=%s): %s" % (name, sched, r.rc, r.out[-500:]))
                continue
            heapchecks += int(m.group(1))
            chk.count(int(m.group(1)), outcome="collection-ok")
            if int(m.group(2)):
                chk.violation({"op": "heap-after-gc", "program": name, "schedule": sched, "msg": m.group(3)},
                              "program %s schedule %s: heap malformed after a collection: %s" % (name, sched, m.group(3)))
            if name == "ephchain" and not re.search(r"^\(\(2 #f 0\) \(2 #t 0\) \(3 #f 0\) \(3 #t 0\) \(5 #f 0\) \(5 #t 0\) \(9 #f 0\) \(9 #t 0\)\)$", r.out, re.M):
                chk.violation({"op": "ephemeron-chain", "schedule": sched}, "ephemeron chains under %s: an ephemeron with a reachable key lost its value or key: %s" % (sched, r.out[:300]))
            if name.endswith("-tests") and re.search(r"\b[1-9]\d* (fail|error)", r.out):
                fl = [l for l in r.out.split("\n") if re.search(r"\b[1-9]\d* (fail|error)", l)]
                chk.violation({"op": "test-fails-under-gc", "program": name, "schedule": sched}, "%s reports failures under %s: %s" % (name, sched, fl[:3]))
    log("C10 (b): %d collections checked" % heapchecks)
    # ---------------- (c) boundedness of whole-program churn
    for heap, prog, per_round, settle in [(h, pr, n, st) for h in ([None, "300k"] if quick else [None, "300k", "16M"])
                                          for pr, n, st in (("churn.scm", 20000, 12), ("churn2.scm", 7000, 8))]:
        if chk.out_of_time():
            break
        r = common.evalbatch("asan", [os.path.join(common.VERIF, "scheme", "heap", prog)], heap=heap, timeout=900,
                             env={"VERIF_POISON": "1", "VERIF_HEAPCHECK": "1"})
        m = re.search(r"^SIZES \((.*)\)$", r.out, re.M)
        hc = re.search(r"^HEAPCHECK (.*)$", r.out, re.M)
        if r.rc != 0 or not m or "AddressSanitizer" in r.out:
            chk.violation({"op": "churn-crash", "heap": heap, "program": prog}, "churn program %s ended abnormally: %s" % (prog, r.out[-500:]))
            continue
        sizes = [int(x) for x in m.group(1).split()]
        chk.count(len(sizes) * per_round, outcome="churn-alloc")
        chk.sample({"program": prog, "churn_heap_sizes": sizes[:3] + ["..."] + sizes[-3:], "initial_heap": heap or "default"})
        # bounded: the samples after the settling rounds are constant (a fixpoint was reached in the first half)
        if len(set(sizes[settle:])) != 1:
            chk.violation({"op": "churn-growth", "heap": heap, "program": prog, "sizes": sizes},
                          "%s: heap keeps growing with bounded live data: total sizes per round %s" % (prog, sizes))
        # ... and stays within a constant multiple of the live data (churn2 keeps < 300 KB alive)
        initial = {"300k": 300 * 1024, "16M": 16 * 1024 * 1024}.get(heap, 2 * 1024 * 1024)
        # (measured on the unchanged tree: 14.7 MB from the default heap, 9.5 MB from 300k, 50 MB = 16 + 32 from a 16 MB heap)
        if prog == "churn2.scm" and sizes[-1] > max(24 * 1024 * 1024, 4 * initial):
            chk.violation({"op": "churn-size", "heap": heap, "program": prog, "sizes": sizes},
                          "%s: heap reached %d bytes for < 300 KB of live data (first round %d)" % (prog, sizes[-1], sizes[0]))
        if hc and hc.group(1).strip() != "#t":
            chk.violation({"op": "heap-after-churn", "heap": heap, "program": prog}, "heap malformed after %s: %s" % (prog, hc.group(1)))
    chk.cov["states"] = states
    chk.cov["transitions"] = transitions
    chk.cov["traces_validated_against_impl"] = replays
    chk.cov["lasso_runs"] = lasso_runs
    chk.cov["collections_checked_in_programs"] = heapchecks
    common.cleanup_scratch()
    return chk.finish()
