"""C18 part (d): larger persistent trees.  The history exploration of c18.py reaches containers of at most 4-5 elements; the
balancing code of the red-black trees behind (srfi 146) mappings (and the tries behind (srfi 146 hash)) only does interesting work
on deeper trees.  So: for EVERY size n <= N and every insertion order of a fixed family (ascending, descending, middle-out,
bit-reversal), build the container, then apply EVERY single deletion, EVERY single insertion of an absent key, every pop of the
minimum, and - for n <= M - EVERY ordered pair of deletions, each time comparing the complete contents (alist, size, every
lookup, min/max, fold order) with a sorted association list kept by the driver; the earlier version must be unchanged
(persistence).  Explicit-state in the sense of c18: states are (n, order, history of <= 2 operations), all executed."""
import os, re
from multiprocessing import Pool
from .. import common, build
from ..common import log

DRIVER = r"""
(import (scheme base) (scheme write) (srfi 128) %(imports)s)
(define cmp (make-default-comparator))
(define (val k) (* 10 (+ k 1)))
(define (kmap k) %(kmap)s)          ; spreads the keys (identity for the ordered maps; scattered for the integer sets)
(define (order-keys n kind)        ; the odd keys 1,3,..,2n-1 in the insertion order `kind`
  (let ((ks (let loop ((i (- n 1)) (acc '())) (if (< i 0) acc (loop (- i 1) (cons (kmap (+ 1 (* 2 i))) acc))))))
    (case kind
      ((asc) ks)
      ((desc) (reverse ks))
      ((mid) (let loop ((v (list->vector ks)) (lo 0) (hi (- n 1)) (acc '()) (flip #t))
               (if (> lo hi) (reverse acc)
                   (if flip (loop v (+ lo 1) hi (cons (vector-ref v lo) acc) #f) (loop v lo (- hi 1) (cons (vector-ref v hi) acc) #t)))))
      ((bitrev) (let* ((bits (let loop ((b 0)) (if (>= (expt 2 b) n) b (loop (+ b 1)))))
                       (rev (lambda (i) (let loop ((i i) (b bits) (r 0)) (if (= b 0) r (loop (quotient i 2) (- b 1) (+ (* 2 r) (remainder i 2))))))))
                  (let loop ((i 0) (acc '())) (if (= i (expt 2 bits)) (reverse acc)
                                                  (loop (+ i 1) (if (< (rev i) n) (cons (kmap (+ 1 (* 2 (rev i)))) acc) acc))))))
      (else ks))))
(define (model-insert al k) (cond ((null? al) (list (cons k (val k)))) ((< k (caar al)) (cons (cons k (val k)) al))
                                  ((= k (caar al)) al) (else (cons (car al) (model-insert (cdr al) k)))))
(define (model-delete al k) (cond ((null? al) '()) ((= k (caar al)) (cdr al)) (else (cons (car al) (model-delete (cdr al) k)))))
(define cases 0) (define bad 0)
(define (report what n kind hist got want)
  (set! bad (+ bad 1))
  (if (< bad 12) (begin (display "BIGBAD ") (write (list what n kind hist 'got got 'want want)) (newline))))
(define (check m al n kind hist)
  (set! cases (+ cases 1))
  (let ((got (guard (e (#t (list 'exception (if (error-object? e) (error-object-message e) e))))
               (list (%(alist)s m) (%(size)s m)
                     (let loop ((k 0) (acc '())) (if (> k (+ 1 (* 2 n))) (reverse acc) (loop (+ k 1) (cons (%(ref)s m (kmap k) 'no) acc))))
                     %(extra)s)))
        (want (list al (length al)
                    (let loop ((k 0) (acc '())) (if (> k (+ 1 (* 2 n))) (reverse acc) (loop (+ k 1) (cons (let ((p (assv (kmap k) al))) (if p (cdr p) 'no)) acc))))
                    %(extra_want)s)))
    (if (not (equal? got want)) (report 'contents n kind hist got want))))
(define (run n kind pairs?)
  (let* ((ks (order-keys n kind))
         (m (let loop ((ks ks) (m (%(empty)s))) (if (null? ks) m (loop (cdr ks) (%(set)s m (car ks) (val (car ks)))))))
         (al (let loop ((ks ks) (al '())) (if (null? ks) al (loop (cdr ks) (model-insert al (car ks)))))))
    (check m al n kind '())
    (for-each
     (lambda (k)
       (let ((m2 (guard (e (#t #f)) (%(delete)s m k))) (al2 (model-delete al k)))
         (if (not m2) (report 'delete-raised n kind (list 'delete k) 'exception 'mapping)
             (begin
               (check m2 al2 n kind (list 'delete k))
               (check m al n kind (list 'original-after-delete k))
               (if pairs?
                   (for-each (lambda (j) (if (not (= j k))
                                             (let ((m3 (guard (e (#t #f)) (%(delete)s m2 j))))
                                               (if m3 (check m3 (model-delete al2 j) n kind (list 'delete k 'delete j))
                                                   (report 'delete-raised n kind (list 'delete k 'delete j) 'exception 'mapping)))))
                             ks))
               ;; insert an absent (even) key next to the hole
               (let* ((k2 (kmap (* 2 (quotient (length al2) 2)))) (m4 (guard (e (#t #f)) (%(set)s m2 k2 (val k2)))))
                 (if m4 (check m4 (model-insert al2 k2) n kind (list 'delete k 'insert k2))))))))
     ks)
    (let loop ((k 0))              ; every absent key inserted
      (if (<= k (* 2 n))
          (begin (let* ((kk (kmap k)) (m5 (guard (e (#t #f)) (%(set)s m kk (val kk)))))
                   (if m5 (check m5 (model-insert al kk) n kind (list 'insert kk)) (report 'insert-raised n kind (list 'insert kk) 'exception 'mapping)))
                 (loop (+ k 2)))))
    %(pop)s))
(define (go lo hi pairs-max)
  (do ((n lo (+ n 1))) ((> n hi))
    (for-each (lambda (kind) (run n kind (<= n pairs-max))) '(asc desc mid bitrev)))
  (display "BIGDONE ") (write (list cases bad)) (newline))
"""

LIBS = {
    "mapping": dict(kmap="k", imports="(srfi 146)", alist="mapping->alist", size="mapping-size", ref="mapping-ref/default", empty="mapping cmp",
                    set="mapping-set", delete="mapping-delete",
                    extra="(if (mapping-empty? m) 'empty (list (mapping-min-key m) (mapping-max-key m))) (mapping-fold/reverse (lambda (k v acc) (cons k acc)) '() m)",
                    extra_want="(if (null? al) 'empty (list (caar al) (car (car (reverse al))))) (map car al)",
                    pop="""(let loop ((m m) (al al) (i 0))     ; pop the minimum until empty
      (if (pair? al)
          (let ((r (guard (e (#t #f)) (call-with-values (lambda () (mapping-pop m)) list))))
            (if (and r (= (length r) 3))
                (begin (if (not (and (equal? (cadr r) (caar al)) (equal? (car (cddr r)) (cdar al)))) (report 'pop n kind (list 'pops i) (cdr r) (car al)))
                       (check (car r) (cdr al) n kind (list 'pops (+ i 1)))
                       (loop (car r) (cdr al) (+ i 1)))
                (report 'pop-raised n kind (list 'pops i) r 'three-values)))))"""),
    "hashmap": dict(kmap="k", imports="(srfi 146 hash)", alist="(lambda (m) (let sort ((l (hashmap->alist m)) (acc '())) (if (null? l) acc (sort (cdr l) (let ins ((a acc)) (cond ((null? a) (list (car l))) ((< (caar l) (caar a)) (cons (car l) a)) (else (cons (car a) (ins (cdr a))))))))))",
                    size="hashmap-size", ref="hashmap-ref/default", empty="hashmap cmp", set="hashmap-set", delete="hashmap-delete",
                    extra="(hashmap-empty? m)", extra_want="(null? al)", pop="#t"),
    # integer sets: keys scattered over 0..1020 so that the bit-trie has many nodes; `set` / `delete` are the functional adjoin / delete
    "iset": dict(kmap="(modulo (* k 97) 1021)", imports="(chibi iset)",
                 alist="(lambda (s) (map (lambda (x) (cons x (val x))) (iset->list s)))", size="iset-size",
                 ref="(lambda (s k d) (if (iset-contains? s k) (val k) d))", empty="iset",
                 set="(lambda (s k v) (iset-adjoin s k))", delete="iset-delete",
                 extra="(iset-empty? m)", extra_want="(null? al)", pop="#t"),
}


def run_big(arg):
    lib, lo, hi, pairs_max = arg
    d = common.scratch_dir("c18b")
    p = os.path.join(d, "big.scm")
    common.write_file(p, DRIVER % LIBS[lib] + "(go %d %d %d)\n" % (lo, hi, pairs_max))
    r = common.evalbatch("opt", [p], timeout=1500, cwd=d)
    m = re.search(r"^BIGDONE \((\d+) (\d+)\)", r.out, re.M)
    bads = re.findall(r"^BIGBAD (.*)$", r.out, re.M)
    import shutil
    shutil.rmtree(d, ignore_errors=True)
    return lib, lo, hi, (int(m.group(1)), int(m.group(2))) if m else None, bads, r.rc, r.timed_out, r.out[-400:], DRIVER % LIBS[lib] + "(go %d %d %d)\n" % (lo, hi, pairs_max)


def run(chk, tier):
    quick = tier == "quick"
    nmax, pairs_max = (33, 12) if quick else (70, 24)
    build.build_variant("opt")
    jobs = []
    for lib in LIBS:
        for lo in range(0, nmax + 1, 3):
            jobs.append((lib, lo, min(nmax, lo + 2), pairs_max))
    total = 0
    with Pool(common.NCPU) as pool:
        for lib, lo, hi, res, bads, rc, timed_out, tail, text in pool.imap_unordered(run_big, jobs):
            if timed_out:
                chk.exhaustive = False
                log("C18 big trees: %s sizes %d..%d ran out of wall-clock time: undecided" % (lib, lo, hi))
                continue
            if res is None or rc != 0:
                chk.violation({"op": "big-%s" % lib, "group": "crash", "sizes": [lo, hi], "rc": rc},
                              "large %s (sizes %d..%d): driver ended abnormally rc=%s: %s" % (lib, lo, hi, rc, tail), text)
                continue
            total += res[0]
            chk.count(res[0], outcome="big-tree-state")
            chk.nontrivial_n += res[0]
            for b in bads[:3]:
                chk.violation({"op": "big-%s" % lib, "group": "contents", "sizes": [lo, hi], "detail": b[:300]},
                              "large %s: after the listed operations the contents differ from the association-list model: %s" % (lib, b[:400]), text)
            if res[1] and not bads:
                chk.violation({"op": "big-%s" % lib, "group": "contents", "sizes": [lo, hi]}, "large %s sizes %d..%d: %d mismatches" % (lib, lo, hi, res[1]), text)
    chk.cov["big_tree_states"] = total
    chk.sample("mapping of 15 keys inserted in ascending order, delete 4 then delete 8: contents, every lookup, min/max and fold order against a sorted alist")
    log("C18 big trees: %d states checked (sizes <= %d, pairs of deletions for sizes <= %d)" % (total, nmax, pairs_max))
