"""C03 -- compiled evaluation implements the semantics of the core language.

Bounded-exhaustive program enumeration (mc/gen_core.py): every variable-capture skeleton (binder kind x role x depth x
position, and all role pairs for two variables of one frame) and every derived-form expression up to a size bound is
compiled and run by the real interpreter and, independently, evaluated by the definitional CEK machine
mc/models/refscheme.py; value, observation trace and error outcome must agree."""
import os, sys, time
from multiprocessing import Pool
from .. import common, build, gen_core
from ..common import Check, log
from ..models import refscheme

HEADER = "(import (scheme base) (scheme write))\n"


def case_text(i, body):
    tops, expr = gen_core.split_top(body)
    return (tops + "\n" if tops else "") + "(run-case %d (lambda () %s))\n" % (i, expr)


def run_ref(progs):
    """-> {i: line or None if unsupported}"""
    m = refscheme.Machine(step_limit=400000)
    for f in refscheme.read_all(gen_core.PRELUDE):
        m.eval_top(f)
    res = {}
    for i, body in progs:
        m.out = []
        m.steps = 0
        try:
            for f in refscheme.read_all(case_text(i, body)):
                m.eval_top(f)
            res[i] = "".join(m.out).rstrip("\n")
        except refscheme.Unsupported as e:
            res[i] = None
        except refscheme.SchemeError as e:
            res[i] = "#%d UNCAUGHT" % i
        except RecursionError:
            res[i] = None
    return res


def run_job(arg):
    variant, jobno, progs = arg      # progs: [(i, desc, body)]
    d = common.scratch_dir("c03")
    path = os.path.join(d, "job.scm")
    common.write_file(path, HEADER + gen_core.PRELUDE + "".join(case_text(i, b) for i, _, b in progs))
    r = common.evalbatch(variant, [path], timeout=600, cwd=d, env={"VERIF_BUDGET": "20000000"})
    got = {}
    # R7RS leaves these values unspecified; the implementation has two distinct ones
    for l in r.out.replace("#<undef>", "#<unspecified>").replace("#<void>", "#<unspecified>").split("\n"):
        if l.startswith("#"):
            h = l[1:].split(" ", 1)[0]
            if h.isdigit():
                got[int(h)] = l if int(h) not in got else got[int(h)] + "  ++REPORTED AGAIN++  " + l      # a case reports exactly once
    ref = run_ref([(i, b) for i, _, b in progs])
    mism, unsupported, outcomes = [], 0, {}
    for i, desc, body in progs:
        want = ref.get(i)
        if want is None:
            unsupported += 1
            continue
        g = got.get(i)
        key = "ERR" if " ERR |" in want else ("obs" if not want.endswith("| ()") else "pure")
        outcomes[key] = outcomes.get(key, 0) + 1
        if g != want:
            mism.append((desc, body, want, g))
    import shutil
    shutil.rmtree(d, ignore_errors=True)
    crashed = (r.rc != 0 or r.timed_out)
    return jobno, len(progs), mism[:100], len(mism), unsupported, outcomes, crashed, r.out[-800:] if crashed else ""


def replay_text(body):
    return HEADER + gen_core.PRELUDE + case_text(0, body)


def main(tier):
    chk = Check("C03", "exploration", tier, quick_s=170, thorough_s=1500)
    chk.clean_replays()
    level = 0 if tier == "quick" else 1
    chk.rule = ("part A: nests of <=4 binder layers over 12 binder kinds; one observed variable in every (kind x 11 roles x depth x "
                "position) cell and two variables of one frame in every role pair; part B: all derived-form expressions of <=2 (quick) / 3 "
                "(thorough) non-atomic nodes over 41 forms.  distinct_nontrivial = programs that record at least one observation or end "
                "in an error")
    chk.assumptions = ["oracle: mc/models/refscheme.py (CEK machine, my reading of R7RS 4.1-4.2, 6.10-6.11)",
                       "programs are insensitive to operand evaluation order (effects only in sequence positions)",
                       "values are fixnums, booleans, symbols, lists, vectors"]
    build.build_variant("opt")
    progs = []
    for i, (desc, body) in enumerate(gen_core.all_programs(level)):
        progs.append((i, desc, body))
    per = 1500
    jobs = [("opt", j, progs[lo:lo + per]) for j, lo in enumerate(range(0, len(progs), per))]
    log("C03: %d programs in %d jobs" % (len(progs), len(jobs)))
    done = 0
    with Pool(common.NCPU) as pool:
        for jobno, n, mism, nm, unsup, outcomes, crashed, tail in pool.imap_unordered(run_job, jobs):
            done += 1
            chk.evaluations += n - unsup
            if unsup:
                chk.exclude("not expressible in the reference machine", unsup)
            for k, c in outcomes.items():
                chk.outcomes[k] += c
                if k != "pure":
                    chk.nontrivial_n += c
            for desc, body, want, got in mism:
                chk.violation({"op": "%s/%s" % (desc[0], desc[1]), "desc": list(map(str, desc)), "want": want, "got": got},
                              "program %s: implementation printed %r, reference %r :: %s" % (desc[:3], got, want, body[:300]),
                              replay_text(body))
            if crashed:
                chk.violation({"op": "crash", "job": jobno}, "batch %d crashed or timed out: %s" % (jobno, tail[-300:]))
            if chk.out_of_time():
                pool.terminate()
                break
    for _, desc, body in progs[:: max(1, len(progs) // 8)][:8]:
        chk.sample(body[:240])
    chk.cov["jobs_completed"] = done
    chk.cov["jobs_total"] = len(jobs)
    chk.cov["programs_generated"] = len(progs)
    common.cleanup_scratch()
    return chk.finish()


def replay(path):
    r = common.evalbatch("opt", [path], timeout=60)
    print(r.out)
    body = open(path).read()
    return 0
