"""C18 -- sorting and container libraries conform to their abstract data types.

(a) sorts (E3): every sequence of length <= 8 over 3 keys, tagged with positions, plus seven adversarial families at
    EVERY length 0..300 (quick) / 0..2000 (thorough) through every SRFI 95 / SRFI 132 entry point; verdict by a
    counting-sort based checker that shares nothing with the sort code, re-checked in Python for every printed case.
(b) containers (E1): every operation history of length <= 4 (quick) / 5 (thorough) over a small collision-forcing
    alphabet, each replayed on a fresh object of the real library, compared step by step with a boring Python model
    (set / Counter / dict / list), and every earlier persistent version re-observed after every step.
(c) pure SRFI 1 / SRFI 133 procedures on all lists / vectors of length <= 4 over {0,1,2}.
"""
import os, sys, math, shutil, time, itertools
from collections import Counter, defaultdict
from fractions import Fraction
from multiprocessing import Pool

from .. import common, build
from ..common import Check, log
from ..models import sortspec as S

VARIANT = "opt"


def cpu_children():
    import resource
    r = resource.getrusage(resource.RUSAGE_CHILDREN)
    return r.ru_utime + r.ru_stime


def evalbatch(path, cwd, timeout=3000, ok=lambda out: True):
    """run the already built evalbatch (the parent built the variant; workers never rebuild).  If the run looks broken
    (e.g. somebody else's check rebuilt build/opt underneath us) it is repeated in a fresh process."""
    import subprocess
    exe = os.path.join(build.BUILD, VARIANT, "harness", "evalbatch")
    res = None
    for attempt in range(4):
        try:
            p = subprocess.run([exe, path], cwd=cwd, env=build.env_for(VARIANT), stdout=subprocess.PIPE, stderr=subprocess.STDOUT, preexec_fn=common.die_with_parent,
                               stdin=subprocess.DEVNULL, timeout=timeout)
            res = common.Result(p.returncode, p.stdout.decode("utf-8", "replace"))
        except subprocess.TimeoutExpired as ex:
            res = common.Result(-9, (ex.stdout or b"").decode("utf-8", "replace"), timed_out=True)
        except OSError as ex:
            res = common.Result(-1, "cannot start evalbatch: %s" % ex)
        if res.rc == 0 and ok(res.out):
            return res
        time.sleep(3 + 5 * attempt)
        for _ in range(1200):                     # a rebuild removes the directory first and writes STAMP last: wait for it
            if os.path.exists(os.path.join(build.BUILD, VARIANT, "STAMP")) and os.path.exists(exe):
                break
            time.sleep(1)
    return res


# =====================================================================================================
# (a) sorts
# =====================================================================================================
SMALL_PRINT = 8
FAMILY_PRINT = 16


def sort_job_text(job):
    vi, part = job
    v = S.VARIANTS[vi]
    txt = [S.DRIVER,
           "(define raw? %s)\n(define merge? %s)\n" % ("#t" if v["kind"] == "raw" else "#f",
                                                        "#t" if v["shape"] == "merge" else "#f"),
           "(define the-variant %s)\n" % S.variant_scheme(v), S.RUNNER]
    for p in part:
        if p[0] == "small":
            txt.append("(set! print-max %d)\n(run-small %d %d)\n" % (SMALL_PRINT, p[1], p[2]))
        elif p[0] == "smallmerge":
            txt.append("(set! print-max %d)\n(run-small-merges)\n" % SMALL_PRINT)
        else:
            txt.append("(set! print-max %d)\n(run-family '%s %d %d)\n" % (p[4] if len(p) > 4 else FAMILY_PRINT, p[1], p[2], p[3]))
    txt.append('(write-string ";;SORTS-DONE")\n(newline)\n')
    return "".join(txt)


def _cls(v):
    """order class of a key value (mirrors class-of)"""
    if v.denominator == 1 and v < 100000:
        return int(v)
    if v == Fraction(3, 2):
        return 2
    return 3


def sort_cases(job):
    """-> list of (descriptor, n, keys-or-None, a) in the order the driver runs them"""
    vi, part = job
    v = S.VARIANTS[vi]
    merge = v["shape"] == "merge"
    out = []
    for p in part:
        if p[0] == "small":
            for c in range(p[1], p[2]):
                ks = S.small_keys(c)
                if merge:
                    h = (len(ks) + 1) // 2
                    out.append((("small", c), len(ks), sorted(ks[:h]) + sorted(ks[h:]), h, SMALL_PRINT))
                else:
                    out.append((("small", c), len(ks), ks, 0, SMALL_PRINT))
        elif p[0] == "smallmerge":
            for i, (A, B) in enumerate(S.small_merge_pairs()):
                out.append((("smallmerge", i), len(A) + len(B), A + B, len(A), SMALL_PRINT))
        else:
            pm = p[4] if len(p) > 4 else FAMILY_PRINT
            for n in range(p[2], p[3]):
                out.append((("family", p[1], n), n, None, (n + 1) // 2 if merge else 0, pm))
    return out


def expected_key_values(v, desc, n, keys, a):
    """Fraction values (and exactness tokens for raw alphabets) of the input the driver must have built"""
    raw = v["kind"] == "raw"
    if desc[0] in ("small", "smallmerge"):
        if raw:
            return [[Fraction(0), Fraction(1), Fraction(1)][k] for k in keys]
        return [Fraction(k) for k in keys]
    f = desc[1]
    idx = [S.family_index(f, n, i) for i in range(n)]
    vals = [S.MIXED_VAL[i] for i in idx] if f == "mixed" else [Fraction(i) for i in idx]
    if v["shape"] == "merge":
        h = (n + 1) // 2
        vals = sorted(vals[:h], key=_cls) + sorted(vals[h:], key=_cls)
    return vals


def py_verdict(v, I, R, rcont, a):
    """independent re-check of one printed case.  I, R: lists of (value, identity).  -> 'ok' or a reason"""
    chk = v["check"]
    n = len(I)
    s, e = 0, n
    if v.get("range"):
        s, e = n // 3, n - n // 4
    src = I[s:e]
    if chk == "sorted":
        want_cont = "L" if (" list" in v["name"] or "merge" in v["name"] and "vector" not in v["name"]) else "#"
        if rcont != want_cont:
            return "type"
        if len(R) != len(src):
            return "len"
        if Counter(x[1] for x in R) != Counter(x[1] for x in src):
            return "perm"
        cl = [_cls(x[0]) for x in R]
        if v["desc"]:
            cl = [-c for c in cl]
        if any(cl[i] > cl[i + 1] for i in range(len(cl) - 1)):
            return "order"
        if v["stable"]:
            want = sorted(src, key=(lambda x: -_cls(x[0])) if v["desc"] else (lambda x: _cls(x[0])))
            if [x[1] for x in want] != [x[1] for x in R]:
                return "stab"
        return "ok"
    if chk == "dedup":
        want = [src[i] for i in range(len(src)) if i == 0 or _cls(src[i][0]) != _cls(src[i - 1][0])]
        return "ok" if [x[1] for x in want] == [x[1] for x in R] else "diff"
    es = sorted(src, key=lambda x: _cls(x[0]))
    m = len(src)
    if chk == "median":
        if m == 0:
            return "ok" if rcont == "?" else "diff"
        want = [_cls(es[m // 2][0])] if m % 2 else [_cls(es[m // 2 - 1][0]), _cls(es[m // 2][0])]
        return "ok" if [int(x[0]) for x in R] == want else "diff"
    if chk == "median-default":
        if m == 0:
            return "ok" if rcont == "#" and R and R[0][1] == "knil" else "diff"
        want = es[m // 2][0] if m % 2 else (es[m // 2 - 1][0] + es[m // 2][0]) / 2
        return "ok" if len(R) == 1 and R[0][0] == want else "diff"
    if chk == "select":
        if m == 0:
            return "ok"
        k = {"0": 0, "mid": m // 2, "last": m - 1}[v["k"]]
        return "ok" if len(R) == 1 and int(R[0][0]) == _cls(es[k][0]) else "diff"
    if chk == "separate":
        if Counter(x[1] for x in R) != Counter(x[1] for x in src):
            return "perm"
        k = {"mid": m // 2, "0": 0, "n": m}[v["k"]]
        lo = [_cls(x[0]) for x in R[:k]]
        hi = [_cls(x[0]) for x in R[k:]]
        return "ok" if (not lo or not hi or max(lo) <= min(hi)) else "diff"
    raise ValueError(chk)


def _parse_R(line, kind, chk):
    parts = line.split()
    cont = parts[1] if len(parts) > 1 else "?"
    if cont == "?":
        return cont, [(Fraction(0), " ".join(parts[2:]))]
    if chk in ("median", "select", "median-default"):
        out = []
        for t in parts[2:]:
            try:
                out.append((S.parse_num(t)[0], t))
            except Exception:
                out.append((Fraction(-1), t))
        return cont, out
    return S.parse_seq(line, kind)


def run_sort_job(job):
    vi, part = job
    v = S.VARIANTS[vi]
    d = common.scratch_dir("c18s")
    path = os.path.join(d, "job.scm")
    common.write_file(path, sort_job_text(job))
    t0 = cpu_children()
    res = evalbatch(path, d, ok=lambda out: ";;SORTS-DONE" in out)
    shutil.rmtree(d, ignore_errors=True)
    lines = res.out.split("\n")
    cases = sort_cases(job)
    bad = []              # (descriptor, n, verdict, flag)
    disagree = []
    outcomes = Counter()
    li = 0
    done = 0
    printed = 0
    elements = 0
    nontriv = 0
    crash = None
    for desc, n, keys, a, pm in cases:
        if li >= len(lines) or lines[li].startswith(";;"):
            crash = (res.rc, desc, "\n".join(lines[max(0, li - 3):li + 3])[-600:])
            break
        head = lines[li].split()
        li += 1
        if len(head) != 2:
            crash = (res.rc, desc, "unparsable verdict line %r" % lines[li - 1][:200])
            break
        verdict, flag = head
        outcomes[verdict if flag == "#t" else verdict + "/flag=" + flag] += 1
        done += 1
        if n >= 2:
            nontriv += 1
        elements += n
        pv = None
        if n <= pm:
            if li + 1 >= len(lines) or not lines[li].startswith("I") or not lines[li + 1].startswith("R"):
                crash = (res.rc, desc, "missing I/R lines after %r" % lines[li - 1][:200])
                break
            try:
                _, I = S.parse_seq(lines[li], v["kind"])
                rcont, R = _parse_R(lines[li + 1], v["kind"], v["check"])
                want_vals = expected_key_values(v, desc, n, keys, a)
                if [x[0] for x in I] != want_vals:
                    disagree.append((desc, "input built by the driver differs from the Python generator", lines[li][:300]))
                pv = py_verdict(v, I, R, rcont, a)
            except Exception as ex:      # garbage in the result (e.g. #<undef>) -> the Python side cannot parse it
                pv = "garbage(%s)" % type(ex).__name__
            li += 2
            printed += 1
            if (pv == "ok") != (verdict == "ok"):
                disagree.append((desc, "scheme checker says %s, python re-check says %s" % (verdict, pv), lines[li - 1][:300]))
        if verdict != "ok" or flag != "#t":
            bad.append((desc, n, verdict, flag, lines[li - 1][:300] if n <= pm else ""))
    if crash is None and res.rc != 0:
        crash = (res.rc, None, res.out[-600:])
    return ("sort", vi, part, done, printed, elements, bad[:400], len(bad), dict(outcomes), disagree[:20], crash,
            cpu_children() - t0, nontriv)


def sort_jobs(tier):
    N = 300 if tier == "quick" else 2000
    jobs = []
    for vi, v in enumerate(S.VARIANTS):
        small = ([("smallmerge",)] if v["shape"] == "merge" else []) + [("small", 0, S.SMALL_TOTAL)]
        if tier == "quick":
            jobs.append((vi, small + [("family", f, 0, N + 1) for f in S.FAMILIES]))
        else:
            jobs.append((vi, small))
            # split every family into ranges of about equal total size
            k = 2
            cuts = [0] + [int((N + 1) * math.sqrt(i / k)) for i in range(1, k)] + [N + 1]
            for f in S.FAMILIES:
                for i in range(k):
                    jobs.append((vi, [("family", f, cuts[i], cuts[i + 1])]))
    return jobs


def sort_replay_text(vi, desc):
    v = S.VARIANTS[vi]
    if desc[0] == "small":
        part = [("small", desc[1], desc[1] + 1)]
        body = sort_job_text((vi, part))
    elif desc[0] == "smallmerge":
        part = [("smallmerge",)]
        body = sort_job_text((vi, part)) + ";; case #%d of the enumeration above\n" % desc[1]
    else:
        part = [("family", desc[1], desc[2], desc[2] + 1, 100000)]
        body = sort_job_text((vi, part))
    return (";; C18 sort replay: variant %r, case %r\n;; output: '<verdict> <flag>' then the input (I) and the result (R);\n"
            ";; expected verdict 'ok #t'\n" % (v["name"], desc)) + body


# =====================================================================================================
# (b) containers: histories replayed on the real libraries
# =====================================================================================================
from ..models import containers as C

_LIBS = {}


def get_lib(name):
    if name not in _LIBS:
        _LIBS[name] = C.LIBS[name]()
    return _LIBS[name]


def failing_parts(lib, got, want):
    """names of the observations in which the printed line differs from the model's line"""
    if got.startswith("(E "):
        return ("exception:" + got[3:-1][:60],)
    g, w = C.sparse(got), C.sparse(want)
    if g is None or not isinstance(g, list) or len(g) != 4:
        return ("unreadable-output",)
    parts = []
    if g[0] != w[0]:
        if isinstance(g[0], list) and len(g[0]) == len(w[0]):
            parts += [lib.qnames[i] for i in range(len(w[0])) if g[0][i] != w[0][i]]
        else:
            parts.append("obs")
    if g[1] != w[1]:
        if isinstance(g[1], list) and isinstance(w[1], list) and len(g[1]) == len(w[1]):
            parts += [lib.rnames[i] for i in range(len(w[1])) if g[1][i] != w[1][i]]
        else:
            parts.append("rel")
    if g[2] != w[2]:
        parts.append("return-value")
    if g[3] != w[3]:
        if not isinstance(g[3], list) or len(g[3]) != len(w[3]) or g[3][:-1] != w[3][:-1]:
            parts.append("persistence")      # an earlier live version no longer shows the content it was created with
        elif g[0] == w[0]:
            parts.append("query-side-effect")    # the observations were right, but running them changed the object
    return tuple(parts)


def cont_driver_files(lib, d, hists, wants):
    table = {}
    lines = []
    for h, w in zip(hists, wants):
        idx = table.setdefault(w, len(table))
        lines.append("%s %d\n" % (h, idx))
    common.write_file(os.path.join(d, "h.txt"), "".join(lines))
    common.write_file(os.path.join(d, "t.txt"), "".join(w + "\n" for w in table))     # dicts keep insertion order
    common.write_file(os.path.join(d, "job.scm"), lib.driver_text() + '(run-file "h.txt" "t.txt")\n')
    return os.path.join(d, "job.scm")


def run_cont_job(job):
    _, libname, level, maxlen, prefixes, count_root = job[:6]
    earlier = job[6] if len(job) > 6 else []      # (level, depth) of the runs planned before this one for the same library
    lib = get_lib(libname)
    alphabet = lib.alphabet(level)
    hists, wants, states = [], [], set()
    uncounted = set()
    t0 = time.time()
    for pre in prefixes:
        first = [True]

        def emit(h, line, canon):
            if first[0]:
                first[0] = False
                if not count_root:
                    uncounted.add(len(hists))
            hists.append(h)
            wants.append(line)
            states.add(hash(canon))
        lib.enumerate(list(pre), alphabet, maxlen, emit)
    t1 = time.time()
    c1 = cpu_children()
    d = common.scratch_dir("c18c")
    path = cont_driver_files(lib, d, hists, wants)
    res = evalbatch(path, d, ok=lambda out: ";;DONE %d" % len(hists) in out)
    shutil.rmtree(d, ignore_errors=True)
    got_of = {}
    done = None
    last_h = -1
    for l in res.out.split("\n"):
        if l.startswith("M "):
            _, seq, rest = l.split(" ", 2)
            got_of[int(seq)] = rest
        elif l.startswith("H "):
            last_h = int(l[2:])
        elif l.startswith(";;DONE "):
            done = int(l[7:])
    crash = None
    if done != len(hists) or res.rc != 0:
        at = min(len(hists) - 1, last_h + 1)
        crash = (res.rc, done if done is not None else last_h + 1, len(hists), hists[at] if hists else None, res.out[-500:])
    parts_of = {}
    groups = {}          # (op or *, part) -> [count, example]
    nmis = 0
    for i, got in got_of.items():
        parts_of[hists[i]] = failing_parts(lib, got, wants[i])
    for i in sorted(got_of):
        h = hists[i]
        if i in uncounted:
            continue
        nmis += 1
        if any(("persistence" in parts_of.get(h[:j], ()) or any(q.startswith("exception") for q in parts_of.get(h[:j], ())))
               for j in range(len(h))):
            continue                      # an ancestor already corrupted an old version / died: not a primary failure
        par = parts_of.get(h[:-1], ()) if h else ()
        inherited = set(p for p in par if p in lib.qnames or p.startswith("exception") or p in ("obs", "unreadable-output"))
        new = tuple(p for p in parts_of[h] if p not in inherited)
        if "persistence" in new:
            new = ("persistence",)        # the relations with the (now changed) earlier version are consequences
        opn = lib.ops[ord(h[-1]) - C.CODE0].name if h else "(init)"
        for p in new:
            key = (opn.split(" ")[0] if p == "return-value" else "*", p)
            g = groups.get(key)
            ex = (len(h), h, got_of[i], wants[i])
            if g is None:
                groups[key] = [1, ex, {opn}]
            else:
                g[0] += 1
                g[2].add(opn)
                if ex[:2] < g[1][:2]:
                    g[1] = ex
    counted = len(hists) - len(uncounted)
    lens = Counter(len(hists[i]) for i in range(len(hists)) if i not in uncounted)
    # distinct non-trivial histories: length >= 2 and not already executed by an earlier run with a larger alphabet
    lvl_of = [o.lvl for o in lib.ops]
    distinct = 0
    for i, h in enumerate(hists):
        if i in uncounted or len(h) < 2:
            continue
        hl = max(lvl_of[ord(c) - C.CODE0] for c in h)
        if not any(el >= hl and ed >= len(h) for el, ed in earlier):
            distinct += 1
    return ("cont", libname, level, maxlen, counted, dict(lens), states, nmis, groups, crash, t1 - t0, cpu_children() - c1,
            distinct)


def cont_plan(tier, only):
    """quick: level-1 alphabet to depth 4 (+ level-2 to depth 2).  thorough: additionally level-2 (extended) alphabet to
    depth 3 and the level-0 (reduced) alphabet to depth 5.  level-0 < level-1 < level-2 are nested alphabets."""
    jobs = []
    runs = []
    for name in C.LIBS:
        if only and only not in ("cont", name):
            continue
        lib = get_lib(name)
        for level, depth in lib.plan[tier]:
            runs.append((name, level, depth))
    for ri, (name, level, depth) in enumerate(runs):
        lib = get_lib(name)
        alphabet = lib.alphabet(level)
        earlier = [(l, d) for (n2, l, d) in runs[:ri] if n2 == name]
        R = min(2, depth)
        jobs.append(("cont", name, level, R, [()], True, earlier))
        if depth > R:
            pres = []
            lib.enumerate([], alphabet, R, lambda h, line, canon: pres.append(tuple(ord(c) - C.CODE0 for c in h)) if len(h) == R else None)
            # size estimate from the growth between length R-1 and R, to keep about 15000 histories per process
            cnt = Counter()
            lib.enumerate([], alphabet, R, lambda h, line, canon: cnt.update([len(h)]))
            growth = cnt[R] / max(1, cnt[R - 1])
            est = cnt[R] * sum(growth ** i for i in range(1, depth - R + 1))
            nchunks = int(max(1, min(len(pres), est / 15000, 8 * common.NCPU)))
            for i in range(nchunks):
                jobs.append(("cont", name, level, depth, pres[i::nchunks], False, earlier))
    return jobs, runs


class ContAggregator:
    def __init__(self, chk, tier):
        self.chk, self.tier = chk, tier
        self.per = {}       # (lib, level) -> dict
        self.planned = {}

    def add(self, r):
        _, libname, level, maxlen, counted, lens, states, nmis, groups, crash, tgen, trun, distinct = r
        chk = self.chk
        st = self.per.setdefault((libname, level), {"histories": 0, "states": set(), "lens": Counter(), "mismatches": 0,
                                                  "groups": {}, "gen_s": 0.0, "run_s": 0.0, "jobs": 0, "maxlen": 0})
        st["histories"] += counted
        st["states"] |= states
        st["lens"].update(lens)
        st["mismatches"] += nmis
        st["gen_s"] += tgen
        st["run_s"] += trun
        st["jobs"] += 1
        st["maxlen"] = max(st["maxlen"], maxlen)
        for k, (cnt, ex, opns) in groups.items():
            g = st["groups"].get(k)
            if g is None:
                st["groups"][k] = [cnt, ex, set(opns)]
            else:
                g[0] += cnt
                g[2] |= opns
                if ex[:2] < g[1][:2]:
                    g[1] = ex
        chk.evaluations += counted
        chk.nontrivial_n += distinct
        chk.outcomes["history:agree"] += counted - nmis
        if nmis:
            chk.outcomes["history:disagree"] += nmis
        if crash:
            rc, nb, nh, at, tail = crash
            lib = get_lib(libname)
            chk.violation({"op": libname, "group": "container-crash", "rc": rc, "at": at},
                          "%s: batch ended early (rc=%s, %d of %d lines) at history %s: %s"
                          % (libname, rc, nb, nh, describe(lib, at) if at is not None else "?", tail[-300:]),
                          cont_replay_text(lib, at, "?") if at is not None else None)

    def finish(self, complete):
        chk = self.chk
        states = transitions = traces = 0
        cov = {}
        lib_states = {}
        for (libname, level), st in self.per.items():
            lib_states.setdefault(libname, set()).update(st["states"])
        states = sum(len(v) for v in lib_states.values())
        for (libname, level), st in sorted(self.per.items()):
            lib = get_lib(libname)
            traces += st["histories"]
            transitions += sum(c for l, c in st["lens"].items() if l >= 1)
            cov["%s/level%d" % (libname, level)] = {
                "ops": len(lib.alphabet(level)), "depth": st["maxlen"], "histories": st["histories"],
                "complete": st["jobs"] >= self.planned.get((libname, level), 0),
                "by_length": {str(k): v for k, v in sorted(st["lens"].items())}, "distinct_states": len(st["states"]),
                "disagreeing_histories": st["mismatches"], "model_cpu_s": round(st["gen_s"], 1), "impl_cpu_s": round(st["run_s"], 1)}
        merged = {}
        for (libname, level), st in sorted(self.per.items()):
            for k, (cnt, ex, opns) in st["groups"].items():
                g = merged.setdefault((libname,) + k, [0, ex, set(), set()])
                g[0] += cnt
                g[2].add(level)
                g[3] |= opns
                if ex[:2] < g[1][:2]:
                    g[1] = ex
        order = sorted(merged.items(), key=lambda kv: (kv[0][0], kv[1][1][0], kv[0]))
        # re-run every reported history alone in a fresh process before reporting it
        alone_of = dict(zip([k for k, v in order],
                            common.pmap(lambda kv: run_single(get_lib(kv[0][0]), kv[1][1][1]), order)))
        for (libname, opn, part), (cnt, ex, levels, opns) in order:
            lib = get_lib(libname)
            ln, h, got, want = ex
            alone = alone_of[(libname, opn, part)]
            same = alone == got
            lastops = sorted(opns)
            what = ("%s: %s wrong%s after history [%s] (%d primary cases, alphabet levels %s; last operation one of: %s): got %s  expected %s%s"
                    % (libname, part, "" if opn == "*" else " for " + opn, describe(lib, h), cnt, sorted(levels),
                       ", ".join(lastops[:12]) + (" ..." if len(lastops) > 12 else ""),
                       diff_excerpt(lib, got, want, part), diff_excerpt(lib, want, want, part),
                       "" if same else "  [alone in a fresh process the output was %s]" % alone[:200]))
            chk.violation({"op": "%s %s" % (libname, part), "group": "container", "lib": libname, "part": part,
                           "last_op": opn, "last_ops": lastops, "history": describe(lib, h), "codes": h, "cases": cnt,
                           "got": got, "want": want, "reproduced_alone": same},
                          what, cont_replay_text(lib, h, want))
        for libname in sorted(lib_states):
            lib = get_lib(libname)
            al = lib.alphabet(1)
            st = lib.replay(al[:1] + al[-2:-1] + al[len(al) // 2:len(al) // 2 + 1])
            if st is not None:          # one actual history of this run, with the line the model predicts for it
                h = "".join(chr(C.CODE0 + c) for c in (al[:1] + al[-2:-1] + al[len(al) // 2:len(al) // 2 + 1]))
                chk.sample("%s history [%s] -> %s" % (libname, describe(lib, h), lib.line(*st[-1])[:160]), cap=12)
        chk.cov["containers"] = cov
        chk.cov["states"] = states
        chk.cov["transitions"] = transitions
        chk.cov["traces_validated_against_impl"] = traces


def describe(lib, h):
    return "; ".join(lib.ops[ord(c) - C.CODE0].name for c in h) if h else "(empty history)"


def diff_excerpt(lib, line, want, part):
    g, w = C.sparse(line), C.sparse(want)
    try:
        if part in lib.qnames:
            return "%s=%s" % (part, C.swrite_tree(g[0][lib.qnames.index(part)]))
        if part in lib.rnames:
            return "%s=%s" % (part, C.swrite_tree(g[1][lib.rnames.index(part)]))
        if part == "return-value":
            return "ret=%s" % C.swrite_tree(g[2])
        if part in ("persistence", "query-side-effect"):
            return "versions-re-observed=%s" % C.swrite_tree(g[3])
    except Exception:
        pass
    return line[:200]


def run_single(lib, h):
    d = common.scratch_dir("c18r")
    path = os.path.join(d, "one.scm")
    common.write_file(path, lib.driver_text() + "(run-one %s)\n" % common.sdatum(h))
    res = evalbatch(path, d, timeout=300, ok=lambda out: ";;STATS" in out and ";;EXC" not in out)
    shutil.rmtree(d, ignore_errors=True)
    for l in res.out.split("\n"):
        if l and not l.startswith(";;"):
            return l
    return res.out[:300]


def cont_replay_text(lib, h, want):
    steps = "".join(";;   v%d = %s   ; %s\n" % (i + 1, lib.ops[ord(c) - C.CODE0].scm.replace("\n", " "), lib.ops[ord(c) - C.CODE0].name)
                    for i, c in enumerate(h))
    return (";; C18 container replay (%s).  History (cur = previous version, prev/prev2 = latest live earlier versions):\n%s"
            ";; prints (observations relations return-value changed-earlier-versions); observation order:\n;;   %s\n;;   %s\n"
            ";; expected: %s\n" % (lib.name, steps, " ".join(lib.qnames), " ".join(lib.rnames), want)
            + lib.driver_text() + "(run-one %s)\n" % common.sdatum(h))


# =====================================================================================================
# (c) pure SRFI 1 / SRFI 133 procedures on all short lists / vectors
# =====================================================================================================
from ..models import purelists as PL


def pure_jobs(tier):
    jobs = []
    for kind, tab in (("list", PL.L1), ("vector", PL.V1)):
        un = [i for i, e in enumerate(tab) if e[1] < 2]
        bi = [i for i, e in enumerate(tab) if e[1] == 2]
        for k in range(0, len(un), 24):
            jobs.append(("pure", kind, un[k:k + 24]))
        for k in range(0, len(bi), 3):
            jobs.append(("pure", kind, bi[k:k + 3]))
    return jobs


def run_pure_job(job):
    _, kind, entries = job
    d = common.scratch_dir("c18p")
    path = os.path.join(d, "job.scm")
    common.write_file(path, PL.job_text(kind, entries))
    res = evalbatch(path, d, timeout=1200, ok=lambda out: ";;EXC" not in out)
    shutil.rmtree(d, ignore_errors=True)
    body = []
    for l in res.out.split("\n"):
        if l.startswith(";;STATS") or l.startswith(";;EXC"):
            break
        body.append(l)
    while body and body[-1] == "":
        body.pop()
    exp = PL.expected(kind, entries)
    n = min(len(body), len(exp))
    bad = {}
    compared = skipped = nontriv = 0
    for i in range(n):
        name, args, want = exp[i]
        if want is None:
            skipped += 1
            continue
        compared += 1
        if sum(len(x) for x in args) >= 2:
            nontriv += 1
        if body[i] != want:
            g = bad.setdefault(name, [0, None])
            g[0] += 1
            key = (sum(len(x) for x in args), args)
            if g[1] is None or key < g[1][0]:
                g[1] = (key, args, body[i], want)
    crash = None
    if len(body) != len(exp) or res.rc != 0:
        crash = (res.rc, len(body), len(exp), exp[n][0] if n < len(exp) else None, res.out[-400:])
    return ("pure", kind, entries, compared, skipped, bad, crash, nontriv)


class PureAggregator:
    def __init__(self, chk):
        self.chk = chk
        self.compared = self.skipped = 0
        self.procs = set()

    def add(self, r):
        _, kind, entries, compared, skipped, bad, crash, nontriv = r
        chk = self.chk
        tab = PL.L1 if kind == "list" else PL.V1
        self.compared += compared
        self.skipped += skipped
        self.procs |= set((kind, tab[e][0]) for e in entries)
        chk.evaluations += compared
        chk.nontrivial_n += nontriv
        chk.outcomes["pure:agree"] += compared - sum(g[0] for g in bad.values())
        if skipped:
            chk.exclude("pure: argument combination the SRFI leaves open", skipped)
        for name, (cnt, (key, args, got, want)) in bad.items():
            chk.outcomes["pure:disagree"] += cnt
            ei = [e for e in entries if tab[e][0] == name][0]
            scm = tab[ei][2]
            binds = " ".join("(%s %s)" % (v, ("(list %s)" if kind == "list" else "(vector %s)") % " ".join(map(str, x)))
                             for v, x in zip("ab", args))
            lib = "(srfi 1)" if kind == "list" else "(srfi 133)"
            chk.violation({"op": "%s %s" % (lib, name), "group": "pure", "args": [list(x) for x in args], "got": got, "want": want,
                           "cases": cnt},
                          "%s %s: with %s the expression %s gave %s, expected %s (%d failing argument tuples)"
                          % (lib, name, binds or "no arguments", scm, got, want, cnt),
                          "(import (scheme base) (scheme write) %s)\n(let (%s)\n  (write %s))\n(newline)\n;; expected: %s\n"
                          % (lib, binds, scm, want))
        if crash:
            chk.violation({"op": "pure-" + kind, "group": "pure-crash", "rc": crash[0], "at": crash[3]},
                          "pure %s batch ended early (rc=%s, %d of %d lines) at %s: %s" % (kind, crash[0], crash[1], crash[2], crash[3], crash[4][-200:]))

    def finish(self):
        self.chk.cov["pure_srfi1_srfi133"] = {"procedure_groups": len(self.procs), "results_compared": self.compared,
                                              "inputs": "all lists/vectors of length<=4 over {0,1,2} (121), all ordered pairs (14641) for binary procedures"}


# =====================================================================================================
# driver
# =====================================================================================================
def run_job(job):
    try:
        if job[0] == "sort":
            return run_sort_job(job[1])
        if job[0] == "cont":
            return run_cont_job(job)
        return run_pure_job(job)
    except Exception as ex:
        import traceback
        return ("error", job[0], str(job[1])[:200], traceback.format_exc())


def main(tier, replay=None):
    chk = Check("C18", "model_checking", tier, quick_s=125, thorough_s=1100)
    chk.clean_replays()
    chk.max_reported = 120
    build.build_variant(VARIANT)
    only = os.environ.get("C18_ONLY", "")          # debugging aid: "sort", "cont", "pure", or a library name
    jobs = []
    if not only or only == "sort":
        jobs += [("sort", j) for j in sort_jobs(tier)]
    if only != "sort" and only != "pure":
        cjobs, cplan = cont_plan(tier, only)
        jobs += cjobs
    if not only or only == "pure":
        jobs += pure_jobs(tier)
    import random
    if chk.seed:
        random.Random(chk.seed).shuffle(jobs)
    # cheap lower bounds first (roots, pure), then the three kinds interleaved so that a deadline cuts all of them evenly
    def prio(j):
        if j[0] == "pure" or (j[0] == "cont" and j[5]):
            return 0
        return 1
    first = [j for j in jobs if prio(j) == 0]
    rest = [j for j in jobs if prio(j) == 1]
    def sort_key(j):          # shorter length ranges of every entry point first
        part = j[1][1]
        return part[0][2] if part[0][0] == "family" else -1
    kinds = [sorted([j for j in rest if j[0] == "sort"], key=sort_key), [j for j in rest if j[0] == "cont" and j[2] != 0],
             [j for j in rest if j[0] == "cont" and j[2] == 0]]
    inter = []
    total = sum(len(k) for k in kinds)
    pos = [0, 0, 0]
    for t in range(total):
        # pick the kind that is most behind its proportional share
        best = max((i for i in range(3) if pos[i] < len(kinds[i])), key=lambda i: (len(kinds[i]) - pos[i]) / len(kinds[i]))
        inter.append(kinds[best][pos[best]])
        pos[best] += 1
    jobs = first + inter
    log("C18: %d jobs (%d sort)" % (len(jobs), sum(1 for j in jobs if j[0] == "sort")))

    planned_sort = Counter()            # upper end of a family length range -> jobs planned
    done_sort = Counter()
    for j in jobs:
        if j[0] == "sort":
            for part in j[1][1]:
                if part[0] == "family":
                    planned_sort[part[3]] += 1
    planned_cont = Counter((j[1], j[2]) for j in jobs if j[0] == "cont")
    sort_bad = defaultdict(list)        # (variant, verdict, flag) -> [(n, desc, line)]
    sort_bad_n = Counter()
    disagreements = []
    sort_cases_n = sort_printed = sort_elements = 0
    sort_cpu = 0.0
    agg = ContAggregator(chk, tier)
    pure = PureAggregator(chk)
    done = 0
    errors = []
    with Pool(common.NCPU) as pool:
        for r in pool.imap_unordered(run_job, jobs):
            done += 1
            if r[0] == "error":
                errors.append(r)
                log("job failed:", r[1], r[2], r[3][-800:])
            elif r[0] == "sort":
                _, vi, part, ndone, printed, elements, bad, nbad, outcomes, disagree, crash, secs, nontriv = r
                chk.nontrivial_n += nontriv
                sort_cpu += secs
                name = S.VARIANTS[vi]["name"]
                if not crash:
                    for pt in part:
                        if pt[0] == "family":
                            done_sort[pt[3]] += 1
                chk.evaluations += ndone
                sort_cases_n += ndone
                sort_printed += printed
                sort_elements += elements
                for k, c in outcomes.items():
                    chk.outcomes["sort:" + k] += c
                for desc, n, verdict, flag, line in bad:
                    sort_bad[(vi, verdict, flag)].append((n, desc, line))
                if nbad:
                    sort_bad_n[vi] += nbad
                disagreements += [(name,) + dd for dd in disagree]
                if crash:
                    chk.violation({"op": name, "group": "sort-crash", "rc": crash[0], "at": str(crash[1])},
                                  "sort batch for %r ended early (rc=%s) at case %s: %s" % (name, crash[0], crash[1], crash[2][-300:]),
                                  sort_replay_text(vi, crash[1]) if crash[1] else None)
            elif r[0] == "cont":
                agg.add(r)
            else:
                pure.add(r)
            if chk.out_of_time():
                pids = [p.pid for p in getattr(pool, "_pool", [])]
                pool.terminate()
                for pid in pids:          # the evalbatch children of the killed workers run in scratch dirs named after the worker pid
                    os.system("pkill -9 -f 'scratch/c18[scpr]-%d-' >/dev/null 2>&1" % pid)
                import glob
                for pid in pids:
                    for dd in glob.glob(os.path.join(common.SCRATCH_ROOT, "c18[scpr]-%d-*" % pid)):
                        shutil.rmtree(dd, ignore_errors=True)
                log("deadline reached after %d/%d jobs" % (done, len(jobs)))
                break
    # ---- sort verdicts: one violation per (verdict, kind of entry point) with the smallest failing input; the entry
    # points that share the verdict are listed in the descriptor
    classes = {}
    for (vi, verdict, flag), lst in sorted(sort_bad.items()):
        v = S.VARIANTS[vi]
        cont = "vector" if "vector" in v["name"] else "list"
        cmpk = ("numbers with > " if v["desc"] else "numbers with < ") if v["kind"] == "raw" else ("closure/key, descending" if v["desc"] else "closure/key")
        key = (verdict, flag, v["shape"], cont, cmpk, v["check"])
        lst.sort(key=lambda t: (t[0], str(t[1])))
        c = classes.setdefault(key, {"variants": [], "cases": 0, "best": None})
        c["variants"].append(v["name"])
        c["cases"] += len(lst)
        cand = (lst[0][0], v["name"], vi, lst[0][1], lst[0][2])
        if c["best"] is None or cand[:2] < c["best"][:2]:
            c["best"] = cand
    for key, c in sorted(classes.items(), key=lambda kv: str(kv[0])):
        verdict, flag, shape, cont, cmpk, check = key
        n, vname, vi, desc, line = c["best"]
        what = {"perm": "result is not a permutation of the input", "order": "result is not ordered",
                "stab": "result is ordered but not stable", "len": "result has the wrong length",
                "type": "result has the wrong type", "garbage": "result contains objects that are not input elements",
                "diff": "result differs from the reference", "exception": "raised an exception"}.get(verdict, verdict)
        if verdict == "ok":
            what = "input was modified / side condition failed (flag %s)" % flag
        chk.violation({"op": "sort %s/%s/%s/%s" % (shape, cont, cmpk.strip(), verdict), "group": "sort", "verdict": verdict, "flag": flag,
                       "variants": c["variants"], "example_variant": vname, "case": list(desc), "n": n,
                       "failing_cases": c["cases"], "want": "ok #t", "got": "%s %s" % (verdict, flag)},
                      "%s on %s with %s: %s; entry points: %s; smallest failing input %s (n=%d) through %r, %d failing cases  %s"
                      % ("merge" if shape == "merge" else check, cont, cmpk.strip(), what, ", ".join(c["variants"]), desc, n, vname,
                         c["cases"], line), sort_replay_text(vi, desc))
    bound = -1
    for hi in sorted(planned_sort):
        if done_sort[hi] < planned_sort[hi]:
            break
        bound = hi - 1
    agg.planned = planned_cont
    chk.cov["sort"] = {"variants": len(S.VARIANTS), "cases": sort_cases_n, "elements_sorted": sort_elements,
                       "every_length_completed_up_to": bound, "cpu_s": round(sort_cpu, 1),
                       "cases_rechecked_in_python": sort_printed, "families": S.FAMILIES,
                       "max_length": 300 if tier == "quick" else 2000}
    chk.sample("(sort (vector (0 . 0) (2 . 1) (1 . 2)) (lambda (a b) (< (car a) (car b))))")
    chk.sample("(list-merge < '(1 3/2) '(1.0 1180591620717411303424))")
    agg.finish(done == len(jobs))
    pure.finish()
    chk.cov["jobs_completed"] = done
    chk.cov["jobs_total"] = len(jobs)
    chk.rule = ("sorts: every key sequence of length<=8 over 3 keys + 7 families at every length, per entry point; "
                "containers: every operation history up to the depth bound over the listed op alphabets, replayed on a "
                "fresh object; pure: every list/vector (pair) of length<=4 over {0,1,2}.  distinct_nontrivial = sort cases "
                "(entry point, input) with n>=2 + distinct histories of length>=2 (a history re-executed by a later run "
                "with a nested alphabet is counted once) + pure calls whose arguments hold >=2 elements")
    chk.assumptions = ["opt build (gcc -O2)", "default comparator (srfi 128) orders small exact integers numerically",
                       "oracle: counting sort by key class / CPython sorted, set, dict, Counter, list",
                       "cases the SRFI calls an error (empty-queue removal, index out of range, ...) are not generated"]
    common.cleanup_scratch()
    if disagreements or errors:
        for dd in disagreements[:10]:
            log("CHECKER DISAGREEMENT:", dd)
        chk.finish()
        raise common.HarnessError("%d checker disagreements, %d failed jobs" % (len(disagreements), len(errors)))
    # ---- (d) larger persistent trees: every single / double deletion, insertion and pop on mappings and hashmaps of every size
    if not only or only in ("big", "cont"):
        try:
            from . import c18big
            c18big.run(chk, tier)
        except Exception:
            import traceback
            raise common.HarnessError("c18big failed: " + traceback.format_exc()[-600:]) if hasattr(common, "HarnessError") else RuntimeError(traceback.format_exc())
    return chk.finish()


def replay(path):
    """./check C18 --replay <file>: re-run one recorded case alone; exit 1 if it still disagrees with its expectation"""
    build.build_variant(VARIANT)
    path = os.path.abspath(path)
    res = common.evalbatch(VARIANT, [path], timeout=900)
    sys.stdout.write(res.out)
    text = open(path).read()
    want = None
    for l in text.split("\n"):
        if l.startswith(";; expected: "):
            want = l[len(";; expected: "):].strip()
        elif l.startswith(";; expected verdict"):
            want = "ok #t"
    got = [l for l in res.out.split("\n") if l and not l.startswith(";;")]
    if want is None or not got:
        print("C18 replay: nothing to compare (rc=%s)" % res.rc)
        return 2
    if want == "ok #t":
        bad = [l for l in got if l[:1] not in ("I", "R") and l != "ok #t"]
        print("C18 replay: %s" % ("VIOLATION reproduced: " + bad[0] if bad else "ok"))
        return 1 if bad else 0
    same = got[0].strip() == want
    print("C18 replay: %s" % ("ok" if same else "VIOLATION reproduced\n  got      %s\n  expected %s" % (got[0], want)))
    return 0 if same else 1
