"""C05 -- tail calls run in constant space; deep recursion ends cleanly.

Space A: every composition (nesting depth <= 2 quick / 3 thorough) of the tail contexts of R7RS 3.5 around a loop call, for five
callee shapes (self, mutual 2-cycle, variadic callee, apply with 0 and with 1 leading argument).  Oracle: the VM's published
stack top sampled inside the loop body at iterations 1, 2, 3 and 50 is the same from iteration 2 on (a precise constant-space
invariant) and the loop returns its count; every depth-1 context additionally runs 3*10^5 (quick) / 10^7 (thorough) iterations.
Space B: non-tail recursion over a depth lattice x frame shapes: the exact sum, or exactly the out-of-stack error object
returned to the embedding caller; monotone in depth; the same context keeps evaluating a probe program afterwards."""
import os, re, itertools, time
from multiprocessing import Pool
from .. import common, build
from ..common import Check, log

HEADER = "(import (scheme base) (scheme write) (scheme case-lambda))\n"

# tail contexts: templates with HOLE; `n` and `acc` are in scope
CONTEXTS = {
    "if-then": "(if #t HOLE 'no)", "if-else": "(if #f 'no HOLE)",
    "cond-clause": "(cond ((> n -1) HOLE) (else 'no))", "cond-else": "(cond ((< n -1) 'no) (else HOLE))",
    "cond-=>": "(cond ((list n) => (lambda (v) HOLE)) (else 'no))",
    "case-clause": "(case 1 ((1) HOLE) (else 'no))", "case-else": "(case 1 ((2) 'no) (else HOLE))",
    "case-=>": "(case 1 ((1) => (lambda (v) HOLE)) (else 'no))",
    "and": "(and #t HOLE)", "or": "(or #f HOLE)", "when": "(when #t 'x HOLE)", "unless": "(unless #f 'x HOLE)",
    "let": "(let ((t n)) HOLE)", "let*": "(let* ((t n) (u t)) HOLE)", "letrec": "(letrec ((t (lambda () 1))) HOLE)",
    "letrec*": "(letrec* ((t 1) (u t)) HOLE)", "let-values": "(let-values (((t u) (values 1 2))) HOLE)",
    "let*-values": "(let*-values (((t) (values 1)) ((u) (values t))) HOLE)",
    "begin": "(begin 'x HOLE)", "do-result": "(do ((i 0 (+ i 1))) ((= i 1) HOLE))",
    "named-let": "(let lp ((i 0)) (if (< i 1) (lp (+ i 1)) HOLE))", "lambda-body": "((lambda (t) HOLE) n)",
    "case-lambda": "((case-lambda ((t) HOLE) ((t u) 'no)) n)", "internal-define": "(let () (define t n) HOLE)",
}

SHAPES = {
    # name: (definitions using CTX(call), call expression text given the argument expression)
    "self": ("(define (loop n acc) (sample n) (if (= n 0) acc CTX))", "(loop (- n 1) (+ acc 1))"),
    "mutual": ("(define (loop n acc) (sample n) (if (= n 0) acc CTX))\n(define (loop2 n acc) (loop n acc))", "(loop2 (- n 1) (+ acc 1))"),
    "variadic": ("(define (loop n . r) (sample n) (let ((acc (car r))) (if (= n 0) acc CTX)))", "(loop (- n 1) (+ acc 1) 'x 'y)"),
    "apply0": ("(define (loop n acc) (sample n) (if (= n 0) acc CTX))", "(apply loop (list (- n 1) (+ acc 1)))"),
    "apply1": ("(define (loop n acc) (sample n) (if (= n 0) acc CTX))", "(apply loop (- n 1) (list (+ acc 1)))"),
}

PRELUDE = """
(define samples '())
(define (sample n) (if (memv n '(50 3 2 1)) (set! samples (cons (%verif 'stack-top #f) samples))))
"""


def nest(ctxs, call):
    e = call
    for c in reversed(ctxs):
        e = CONTEXTS[c].replace("HOLE", e)
    return e


def program(i, ctxs, shape, iters):
    defs, call = SHAPES[shape]
    body = defs.replace("CTX", nest(ctxs, call))
    return ("(set! samples '())\n%s\n(let ((r (loop %d 0))) (display \"#%d \") (write (list r (reverse samples))) (newline))\n"
            % (body, iters, i))


def run_job_a(arg):
    jobno, progs = arg
    d = common.scratch_dir("c05")
    path = os.path.join(d, "job.scm")
    common.write_file(path, HEADER + PRELUDE + "".join(program(i, c, s, n) for i, c, s, n in progs))
    r = common.evalbatch("opt", [path], timeout=1200, cwd=d)
    got = common.parse_tagged(r.out)
    bad = []
    excs = [l for l in r.out.split("\n") if l.startswith(";;EXC")]
    for i, ctxs, shape, iters in progs:
        g = got.get(i)
        if g is None:
            if r.timed_out:
                continue          # the batch ran out of wall-clock time (machine load): undecided, reported as not exhaustive
            bad.append((ctxs, shape, iters, "no result (%s)" % (excs[:1] or r.out[-200:])))
            continue
        m = re.match(r"\((\d+) \(([\d ]*)\)\)", g)
        if not m:
            bad.append((ctxs, shape, iters, "unexpected output %r" % g))
            continue
        res, samples = int(m.group(1)), [int(x) for x in m.group(2).split()]
        if res != iters:
            bad.append((ctxs, shape, iters, "returned %d instead of %d" % (res, iters)))
        # samples are taken at n = 50, 3, 2, 1 (iteration order); constant space: all equal from the second on
        if len(samples) != 4 or len(set(samples[1:])) != 1:
            bad.append((ctxs, shape, iters, "stack top at iterations n=50,3,2,1 is %s: the stack grows by %s words per iteration" % (
                samples, (samples[-1] - samples[-2]) if len(samples) > 1 else "?")))
    import shutil
    shutil.rmtree(d, ignore_errors=True)
    return jobno, len(progs), bad, ("timeout" if r.timed_out else r.rc != 0), r.out[-300:]


# ---------------------------------------------------------------- space B
def shape_b(nargs, nlocals):
    params = " ".join("a%d" % i for i in range(nargs))
    args = " ".join("a%d" % i for i in range(nargs))
    locs = " ".join("(l%d (+ n %d))" % (i, i) for i in range(nlocals))
    use = " ".join("(- l%d l%d)" % (i, i) for i in range(nlocals))
    body = "(+ 1 %s (f (- n 1) %s))" % (use, args)
    if nlocals:
        body = "(let (%s) %s)" % (locs, body)
    return "(define (f n %s) (if (= n 0) 0 %s))" % (params, body), " ".join("7" for _ in range(nargs))


PROBE = """(define (probe)
  (let* ((a (map (lambda (x) (* x x)) (list 1 2 3)))
         (b (call/cc (lambda (k) (dynamic-wind (lambda () #f) (lambda () (k (string-append "a" "b"))) (lambda () #f)))))
         (c (guard (e (#t 'caught)) (car 1)))
         (d (let loop ((i 0) (s 0)) (if (= i 100) s (loop (+ i 1) (+ s i)))))
         (p (make-parameter 1))
         (e (parameterize ((p 2)) (p)))
         (f (number->string (expt 2 100))))
    (list a b c d e f)))
"""
PROBE_WANT = '((1 4 9) "ab" caught 4950 2 "1267650600228229401496703205376")'


def run_job_b(arg):
    jobno, nargs, nlocals, depths, heap = arg
    d = common.scratch_dir("c05b")
    path = os.path.join(d, "job.scm")
    fdef, fargs = shape_b(nargs, nlocals)
    txt = HEADER + PROBE + fdef + "\n"
    for i, dep in enumerate(depths):
        txt += "(begin (display \"#%d \") (write (f %d %s)) (newline))\n" % (2 * i, dep, fargs)
        txt += "(begin (display \"#%d \") (write (probe)) (newline))\n" % (2 * i + 1)
    common.write_file(path, txt)
    r = common.evalbatch("opt", [path], timeout=1200, cwd=d, heap=heap)
    got = common.parse_tagged(r.out)
    # map form number -> exception line
    excs = {}
    for l in r.out.split("\n"):
        m = re.match(r";;EXC (\d+) (\S+) (.*)", l)
        if m:
            excs[int(m.group(1))] = m.group(3)
    bad, outcomes = [], []
    # form numbering: header import is form 0, probe def 1, f def 2, then 2 forms per depth
    for i, dep in enumerate(depths):
        form = 3 + 2 * i
        g = got.get(2 * i)
        if g is not None and g.strip() == str(dep):
            outcomes.append((dep, "ok"))
        elif form in excs and "out of stack" in excs[form]:
            outcomes.append((dep, "oos"))
        elif form in excs and "out of memory" in excs[form]:
            outcomes.append((dep, "oom"))
        else:
            outcomes.append((dep, "bad"))
            bad.append((nargs, nlocals, dep, "depth %d: neither the sum nor the out-of-stack error: got %r exc %r" % (dep, g, excs.get(form))))
        p = got.get(2 * i + 1)
        if p is None or p.strip() != PROBE_WANT:
            bad.append((nargs, nlocals, dep, "after depth %d the context no longer evaluates the probe correctly: %r %r" % (dep, p, excs.get(form + 1))))
    # monotone: once out of stack, deeper recursion is out of stack too; small depths must succeed, huge must not
    seen_oos = False
    for dep, o in sorted(outcomes):
        if o == "oos":
            seen_oos = True
        elif o == "ok" and seen_oos:
            bad.append((nargs, nlocals, dep, "depth %d succeeds although a smaller depth ran out of stack" % dep))
        if o != "ok" and dep <= 40000:
            bad.append((nargs, nlocals, dep, "depth %d must fit in the maximum stack but ended with %s" % (dep, o)))
        if o == "ok" and dep >= 2000000:
            bad.append((nargs, nlocals, dep, "depth %d cannot fit in the maximum stack but succeeded" % dep))
    import shutil
    shutil.rmtree(d, ignore_errors=True)
    if r.timed_out:
        return jobno, len(depths), [], "timeout", r.out[-300:], [o for o in outcomes if o[1] != "bad"]
    return jobno, len(depths), bad, r.rc != 0, r.out[-300:], outcomes


def main(tier):
    chk = Check("C05", "exploration", tier, quick_s=170, thorough_s=1500)
    chk.clean_replays()
    quick = tier == "quick"
    chk.rule = ("A: all nestings (depth <= %d) of %d tail contexts x 5 callee shapes, 50 iterations with stack-top samples; every single "
                "context x shape also with %d iterations.  B: recursion depth lattice x 8 frame shapes x 2 heap sizes.  "
                "distinct_nontrivial = loop programs with nesting >= 1 plus recursion cases beyond the initial stack") % (
                    2 if quick else 3, len(CONTEXTS), 300000 if quick else 10000000)
    chk.assumptions = ["the VM publishes its stack top before every foreign call ((%verif 'stack-top))",
                       "call/cc and call-with-values are not among the property's tail contexts and are not asserted",
                       "default SEXP_MAX_STACK_SIZE"]
    build.build_variant("opt")
    names = list(CONTEXTS)
    progs = []
    i = 0
    for depth in range(0, (2 if quick else 3) + 1):
        for ctxs in itertools.product(names, repeat=depth):
            if depth == 3 and (len(set(ctxs)) < 2 or ctxs[0] > ctxs[2]):
                continue      # thorough: depth 3 up to mirror symmetry of the outer pair, no triples of one context
            for shape in SHAPES:
                progs.append((i, ctxs, shape, 50))
                i += 1
    big = 300000 if quick else 10000000
    for c in names:
        for shape in SHAPES:
            progs.append((i, (c,), shape, big))
            i += 1
    per = 400
    small = [p for p in progs if p[3] <= 50]
    large = [p for p in progs if p[3] > 50]
    jobs = [progs_ for progs_ in (small[lo:lo + per] for lo in range(0, len(small), per))]
    # long loops go to small jobs of their own (one job of 120 x 10^7 iterations does not fit any sensible time limit)
    jobs = [large[lo:lo + (40 if quick else 3)] for lo in range(0, len(large), 40 if quick else 3)] + jobs
    jobs = list(enumerate(jobs))
    log("C05 A: %d loop programs in %d jobs" % (len(progs), len(jobs)))
    with Pool(common.NCPU) as pool:
        for jobno, n, bad, crashed, tail in pool.imap_unordered(run_job_a, jobs):
            chk.count(n, outcome="loop")
            for ctxs, shape, iters, why in bad:
                chk.violation({"op": "tail:" + "/".join(ctxs[-1:]), "contexts": list(ctxs), "shape": shape, "iters": iters, "why": why},
                              "tail call through %s (callee %s, %d iterations): %s" % ("/".join(ctxs) or "plain if", shape, iters, why),
                              HEADER + PRELUDE + program(0, ctxs, shape, iters))
            if crashed == "timeout":
                chk.exhaustive = False
                log("C05 A: loop batch %d ran out of wall-clock time; its remaining programs are undecided" % jobno)
            elif crashed:
                chk.violation({"op": "crash", "job": jobno}, "loop batch %d crashed: %s" % (jobno, tail))
            if chk.out_of_time():
                pool.terminate()
                break
    chk.nontrivial_n += sum(1 for p in progs if len(p[1]) >= 1)
    chk.sample(program(0, ("cond-=>", "let-values"), "variadic", 50)[:400])
    # ---- B
    depths = [1, 10, 100] + list(range(1000, 1031, 5)) + [2 ** k + d for k in (10, 11, 12, 13, 14, 15) for d in (-2, 0, 2)] + \
        [40000, 60000, 100000, 150000, 200000, 300000, 500000, 1000000, 2000000]
    if not quick:
        depths += [2 ** k + d for k in (16, 17, 18, 19) for d in (-2, 0, 2)] + list(range(160000, 180000, 1000))
    depths = sorted(set(depths))
    shapes = [(0, 0), (1, 0), (2, 1), (5, 3)] if quick else [(0, 0), (1, 0), (2, 0), (3, 1), (5, 0), (0, 3), (5, 3), (4, 2)]
    jobs = [(j, na, nl, depths, heap) for j, ((na, nl), heap) in enumerate(itertools.product(shapes, [None, "64M"] if not quick else [None]))]
    with Pool(common.NCPU) as pool:
        for jobno, n, bad, crashed, tail, outcomes in pool.imap_unordered(run_job_b, jobs):
            for dep, o in outcomes:
                chk.count(1, outcome="recursion-" + o)
                if dep > 1024:
                    chk.nontrivial_n += 1
            for na, nl, dep, why in bad:
                chk.violation({"op": "recursion", "nargs": na, "nlocals": nl, "depth": dep, "why": why},
                              "non-tail recursion (%d args, %d locals): %s" % (na, nl, why))
            if crashed == "timeout":
                chk.exhaustive = False
                log("C05 B: recursion batch %d ran out of wall-clock time; undecided" % jobno)
            elif crashed:
                chk.violation({"op": "crash-b", "job": jobno}, "recursion batch %d crashed: %s" % (jobno, tail))
    chk.sample({"recursion_depths": depths[:6] + ["..."] + depths[-4:], "frame_shapes": shapes})
    common.cleanup_scratch()
    return chk.finish()
