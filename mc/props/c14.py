"""C14 -- library imports expose exactly the requested bindings and nothing else.

Explicit-state exploration of the import-set algebra: states are (library, identifier map) pairs reached by applying
only / except / rename / prefix / drop-prefix to the export set of generated libraries (plain exports, an export
renamed from a private name, a prefixed name, a macro whose template uses a private helper, shared state); every
reachable import-set expression up to the nesting bound is handed to the real `environment` and queried name by name
over the union of all names ever mentioned.  Oracle: the R7RS set algebra (a Python dict name -> exporting library's value)."""
import os, itertools, re
from multiprocessing import Pool
from .. import common, build
from ..common import Check, log

LIB_S = """(define-library (t s)
  (export x1 x2 (rename hid x3) p:x4 p:)
  (import (scheme base))
  (begin (define x1 'v1) (define x2 'v2) (define hid 'v3) (define p:x4 'v4) (define p: 'v5) (define x9 'private)))
"""
LIB_A = """(define-library (t a)
  (export a1 (rename hidden a3) m1 get inc! load-count)
  (import (scheme base) (scheme write))
  (begin
    (define a1 'a1v) (define hidden 'a3v)
    (define (priv x) (list 'priv x))
    (define-syntax m1 (syntax-rules () ((_ e) (priv e))))
    (define counter 0)
    (define (get) counter)
    (define (inc!) (set! counter (+ counter 1)) counter)
    (define loads 0)
    (set! loads (+ loads 1))
    (display "LOADED-A") (newline)
    (define (load-count) loads)))
"""
LIB_B = """(define-library (t b)
  (export a1 b1 (rename a3 b3) bump m2)
  (import (scheme base) (t a))
  (begin
    (define b1 'b1v)
    (define (bump) (inc!))
    (define-syntax m2 (syntax-rules () ((_ e) (m1 (list 'm2 e)))))))
"""
LIB_C = """(define-library (t c)
  (export c1 cget)
  (import (scheme base) (prefix (only (t a) a1 get) z:))
  (begin (define c1 (list 'c z:a1)) (define (cget) (z:get))))
"""

BASE = {"x1": "v1", "x2": "v2", "x3": "v3", "p:x4": "v4", "p:": "v5"}     # `p:` is spelled exactly like the prefix that drop-prefix removes
ABSENT = ["hid", "x9", "r1", "r2", "q:x1", "x4", "q:p:x4", "car", "||", "q:", "q:p:"]   # names that must stay unbound unless the algebra says otherwise


def options(ids):
    """all modifier applications valid for the identifier set `ids` (dict name -> value)"""
    names = sorted(ids)
    out = []
    # the two import sets that expose NOTHING: `only` without identifiers and `except` naming every identifier
    out.append(("only", ()))
    if len(names) <= 8:
        out.append(("except", tuple(names)))
    for k in (1, 2, 3):
        for sub in itertools.combinations(names, k):
            if k < len(names) or k == len(names):
                out.append(("only", sub))
    for k in (1, 2):
        for sub in itertools.combinations(names, k):
            if k < len(names):
                out.append(("except", sub))
    fresh = [f for f in ("r1", "r2") if f not in ids]
    for a in names:
        if fresh:
            out.append(("rename", ((a, fresh[0]),)))
    for a, b in itertools.combinations(names, 2):
        out.append(("rename", ((a, b), (b, a))))                       # swap
        if len(fresh) >= 2:
            out.append(("rename", ((a, fresh[0]), (b, fresh[1]))))
        if fresh:
            out.append(("rename", ((a, b), (b, fresh[0]))))             # chain onto a name that is renamed away
    out.append(("prefix", "q:"))
    if any(n.startswith("p:") and len(n) > 2 for n in names):
        out.append(("drop-prefix", "p:"))
    if any(n.startswith("q:") and len(n) > 2 for n in names):
        out.append(("drop-prefix", "q:"))
    return out


def apply_model(ids, opt):
    kind, arg = opt
    if kind == "only":
        return {n: ids[n] for n in arg}
    if kind == "except":
        return {n: v for n, v in ids.items() if n not in arg}
    if kind == "rename":
        m = dict(arg)
        new = {}
        for n, v in ids.items():
            t = m.get(n, n)
            if t in new:
                return None        # duplicate: an error in R7RS, not generated
            new[t] = v
        return new
    if kind == "prefix":
        return {arg + n: v for n, v in ids.items()}
    if kind == "drop-prefix":
        new = {}
        for n, v in ids.items():
            t = n[len(arg):] if (n.startswith(arg) and len(n) > len(arg)) else n
            if t in new:
                return None
            new[t] = v
        return new
    raise ValueError(kind)


def render(expr, opt):
    kind, arg = opt
    if kind in ("only", "except"):
        return ("(%s %s %s)" % (kind, expr, " ".join(arg))) if arg else "(%s %s)" % (kind, expr)
    if kind == "rename":
        return "(rename %s %s)" % (expr, " ".join("(%s %s)" % p for p in arg))
    return "(%s %s %s)" % (kind, expr, arg)


def explore(depth, reduced_from=None):
    """BFS over import-set expressions; de-duplicates *states* (identifier maps) for counting but keeps every expression"""
    level = [("(t s)", dict(BASE), ())]
    allx = list(level)
    states = {tuple(sorted(BASE.items()))}
    transitions = 0
    for d in range(depth):
        nxt = []
        for expr, ids, path in level:
            if not ids:
                continue          # an empty import set is a leaf: it is checked (nothing may be visible) but not expanded
            opts = options(ids)
            if reduced_from is not None and d >= reduced_from:
                # deeper levels: one representative per modifier kind and argument size
                seen = set()
                red = []
                for o in opts:
                    key = (o[0], len(o[1]) if isinstance(o[1], tuple) else o[1])
                    if key not in seen:
                        seen.add(key)
                        red.append(o)
                opts = red
            for o in opts:
                new = apply_model(ids, o)
                if new is None:
                    continue
                transitions += 1
                states.add(tuple(sorted(new.items())))
                nxt.append((render(expr, o), new, path + (o,)))
        allx += nxt
        level = nxt
    return allx, len(states), transitions


PRELUDE = """(import (scheme base) (scheme write) (scheme eval))
(define (probe env names)
  (map (lambda (n) (guard (e (#t '%unbound)) (eval n env))) names))
(define (try-env spec) (guard (e (#t (list '%env-error (if (error-object? e) (error-object-message e) e)))) (environment spec)))
(define (check i spec names)
  (let ((env (try-env spec)))
    (display "#") (display i) (display " ")
    (write (if (pair? env) env (probe env names)))
    (newline)))
"""


def run_job(arg):
    jobno, cases, libdir = arg
    d = common.scratch_dir("c14")
    path = os.path.join(d, "job.scm")
    txt = PRELUDE
    for i, expr, ids, names in cases:
        txt += "(check %d '%s '(%s))\n" % (i, expr, " ".join(names))
    common.write_file(path, txt)
    e = build.env_for("opt")
    r = common.evalbatch("opt", [path], timeout=900, cwd=d, env={"CHIBI_MODULE_PATH": libdir + ":" + e["CHIBI_MODULE_PATH"]})
    got = common.parse_tagged(r.out)
    bad = []
    for i, expr, ids, names in cases:
        want = "(" + " ".join(ids.get(n, "%unbound") for n in names) + ")"
        g = got.get(i)
        if g is None or g.strip() != want:
            bad.append((expr, names, want, g))
    import shutil
    shutil.rmtree(d, ignore_errors=True)
    return jobno, len(cases), bad, (r.rc != 0 or r.timed_out), r.out[-300:]


EXTRA = r"""(import (scheme base) (scheme write) (scheme eval))
(define (show tag x) (display tag) (display " ") (write x) (newline))
(define-syntax t (syntax-rules () ((_ tag e) (show tag (guard (x (#t (list 'ERR (if (error-object? x) (error-object-message x) x)))) e)))))
(define e1 (environment '(only (t a) m1)))
(t 'macro-uses-private (eval '(m1 5) e1))
(t 'private-invisible (eval 'priv e1))
(t 'hidden-invisible (eval 'hidden (environment '(t a))))
(t 'renamed-export (eval 'a3 (environment '(t a))))
(define e2 (environment '(only (t a) inc! get)))
(define e3 (environment '(rename (only (t a) get) (get g))))
(define e4 (environment '(t b)))
(define e5 (environment '(prefix (t c) w:)))
(t 'inc1 (eval '(inc!) e2))
(t 'shared-get (eval '(g) e3))
(t 'bump-through-b (eval '(bump) e4))
(t 'shared-after-bump (list (eval '(get) e2) (eval '(g) e3) (eval '(w:cget) e5)))
(t 'reexport-same (list (eval 'a1 e4) (eval 'b3 e4) (eval 'b1 e4)))
(t 'reexport-not-all (eval 'get e4))
(t 'nested-macro (eval '(m2 7) e4))
(t 'c-lib (eval 'w:c1 e5))
(t 'c-private (eval 'z:a1 e5))
(t 'load-count (eval '(load-count) (environment '(only (t a) load-count))))
(t 'two-importers (let ((ea (environment '(t a) '(scheme base))) (eb (environment '(t b) '(scheme base))))
                    (eval '(inc!) ea) (let* ((x (eval '(get) ea)) (y (eval '(bump) eb)) (z (eval '(get) ea))) (list x y z))))
"""
EXTRA_WANT = """LOADED-A
macro-uses-private (priv 5)
private-invisible (ERR "undefined variable")
hidden-invisible (ERR "undefined variable")
renamed-export a3v
inc1 1
shared-get 1
bump-through-b 2
shared-after-bump (2 2 2)
reexport-same (a1v a3v b1v)
reexport-not-all (ERR "undefined variable")
nested-macro (priv (m2 7))
c-lib (c a1v)
c-private (ERR "undefined variable")
load-count 1
two-importers (3 4 4)
"""


# Scenario 2: exported macros of every transformer kind that (a) refer to private definitions of their library and (b) wrap
# user code; the user imports *other* bindings under the same names as those private definitions, by every import route.
LIB_M = """(define-library (t m)
  (export wrap-sr wrap-er wrap-sc wrap-sc-free wrap-rsc aif-sc)
  (import (scheme base) (chibi))
  (begin
    (define (probe x) (list 'PRIVATE-probe x))
    (define limit 'PRIVATE-limit)
    (define-syntax wrap-sr (syntax-rules () ((_ e) (list (probe 0) limit e))))
    (define-syntax wrap-er (er-macro-transformer (lambda (f r c) (list (r 'list) (list (r 'probe) 0) (r 'limit) (cadr f)))))
    (define-syntax wrap-sc (sc-macro-transformer (lambda (f env) (list 'list '(probe 0) 'limit (make-syntactic-closure env '() (cadr f))))))
    (define-syntax wrap-sc-free (sc-macro-transformer (lambda (f env) (list 'let '((it 7)) (list 'list '(probe 0) 'limit (make-syntactic-closure env '(it) (cadr f)))))))
    (define-syntax wrap-rsc (rsc-macro-transformer (lambda (f env) (let ((r (lambda (x) (make-syntactic-closure env '() x)))) (list (r 'list) (list (r 'probe) 0) (r 'limit) (cadr f))))))
    (define-syntax aif-sc (sc-macro-transformer (lambda (f env) (list 'let (list (list 'it (make-syntactic-closure env '() (cadr f)))) (list 'if 'it (make-syntactic-closure env '(it) (car (cddr f))) (list 'probe 'limit))))))))
"""
LIB_U = """(define-library (t u)
  (export (rename u-probe check) limit probe2)
  (import (scheme base))
  (begin
    (define (u-probe x) (list 'user-probe x))
    (define (probe2 x) (list 'user-probe2 x))
    (define limit 'user-limit)))
"""
ROUTES = [("rename+prefix", "(rename (prefix (t u) t:) (t:check probe) (t:limit limit))"),
          ("rename", "(rename (t u) (check probe))"),
          ("only+rename", "(rename (only (t u) probe2 limit) (probe2 probe))"),
          ("local-define", None)]
MACROS = ["wrap-sr", "wrap-er", "wrap-sc", "wrap-sc-free", "wrap-rsc"]


def scenario2():
    """(program text, expected lines): one program per import route, one line per macro kind and nesting"""
    progs = []
    for rname, imp in ROUTES:
        head = "(import (scheme base) (scheme write) (t m)%s)\n" % (" " + imp if imp else "")
        if imp is None:
            head += "(define (probe x) (list 'user-probe x))\n(define limit 'user-limit)\n"
        up = "user-probe2" if rname == "only+rename" else "user-probe"
        body, want = [], []
        body.append("(write (list 'outside (probe 1) limit)) (newline)")
        want.append("(outside (%s 1) user-limit)" % up)
        for m in MACROS:
            body.append("(write (list '%s (%s (list (probe 1) limit)))) (newline)" % (m, m))
            want.append("(%s ((PRIVATE-probe 0) PRIVATE-limit ((%s 1) user-limit)))" % (m, up))
            body.append("(write (list '%s-in-lambda ((lambda (q) (%s (list (probe q) limit))) 2))) (newline)" % (m, m))
            want.append("(%s-in-lambda ((PRIVATE-probe 0) PRIVATE-limit ((%s 2) user-limit)))" % (m, up))
            body.append("(write (list '%s-nested (%s (wrap-sr (probe 3))))) (newline)" % (m, m))
            want.append("(%s-nested ((PRIVATE-probe 0) PRIVATE-limit ((PRIVATE-probe 0) PRIVATE-limit (%s 3))))" % (m, up))
        body.append("(write (list 'free-it (wrap-sc-free (list it (probe it) limit)))) (newline)")
        want.append("(free-it ((PRIVATE-probe 0) PRIVATE-limit (7 (%s 7) user-limit)))" % up)
        body.append("(write (list 'aif (aif-sc (+ 1 1) (list it (probe it) limit) 'no) (aif-sc #f 'yes 'no))) (newline)")
        want.append("(aif (2 (%s 2) user-limit) (PRIVATE-probe PRIVATE-limit))" % up)
        body.append("(write (let ((probe (lambda (x) (list 'local-probe x))) (limit 'local-limit)) (list 'shadowed (wrap-sc-free (list it (probe it) limit)) (wrap-er (probe limit))))) (newline)")
        want.append("(shadowed ((PRIVATE-probe 0) PRIVATE-limit (7 (local-probe 7) local-limit)) ((PRIVATE-probe 0) PRIVATE-limit (local-probe local-limit)))")
        progs.append((rname, head + "\n".join(body) + "\n", want))
    return progs


def main(tier):
    chk = Check("C14", "model_checking", tier, quick_s=170, thorough_s=1500)
    chk.clean_replays()
    quick = tier == "quick"
    chk.rule = ("all import-set expressions reachable by <= %d nested modifiers (only/except with all subsets of size <= 3/2, rename with "
                "single, double, swap and chain lists, prefix, drop-prefix) over a library with plain, renamed-on-export and prefixed "
                "exports%s; each queried for every name of the universe; plus a fixed scenario for private helpers behind exported macros, "
                "re-exports and single evaluation of library bodies.  distinct_nontrivial = expressions with >= 2 modifiers") % (
                    3, "" if quick else " (a 4th level with one representative per modifier shape)")
    chk.assumptions = ["import sets that name an absent identifier or produce duplicates are an error in R7RS and are not generated",
                       "drop-prefix is a chibi extension: modelled as removing the prefix from names that carry it"]
    build.build_variant("opt")
    libdir = os.path.join(common.scratch_dir("c14libs"))
    os.makedirs(os.path.join(libdir, "t"), exist_ok=True)
    for n, txt in (("s", LIB_S), ("a", LIB_A), ("b", LIB_B), ("c", LIB_C)):
        common.write_file(os.path.join(libdir, "t", n + ".sld"), txt)
    allx, nstates, ntrans = explore(3) if quick else explore(4, reduced_from=3)
    cases = []
    for i, (expr, ids, path) in enumerate(allx):
        names = sorted(set(list(ids) + list(BASE) + ABSENT))
        cases.append((i, expr, ids, names))
    per = 600
    jobs = [(j, cases[lo:lo + per], libdir) for j, lo in enumerate(range(0, len(cases), per))]
    log("C14: %d import-set expressions, %d distinct identifier maps, %d jobs" % (len(cases), nstates, len(jobs)))
    with Pool(common.NCPU) as pool:
        for jobno, n, bad, crashed, tail in pool.imap_unordered(run_job, jobs):
            chk.count(n, outcome="import-set")
            for expr, names, want, got in bad:
                top = re.match(r"\((\S+)", expr).group(1)
                chk.violation({"op": "import:" + top, "expr": expr, "names": names, "want": want, "got": got},
                              "(environment '%s): names %s evaluate to %s, the import-set algebra gives %s" % (expr, " ".join(names), got, want),
                              PRELUDE + "(check 0 '%s '(%s))\n;; expected: %s\n;; libraries: %s\n" % (expr, " ".join(names), want, LIB_S))
            if crashed:
                chk.violation({"op": "crash", "job": jobno}, "batch %d crashed: %s" % (jobno, tail))
            if chk.out_of_time():
                pool.terminate()
                break
    chk.nontrivial_n += sum(1 for e in allx if len(e[2]) >= 2)
    # scenario
    d = common.scratch_dir("c14x")
    path = os.path.join(d, "extra.scm")
    common.write_file(path, EXTRA)
    e = build.env_for("opt")
    r = common.evalbatch("opt", [path], timeout=120, cwd=d, env={"CHIBI_MODULE_PATH": libdir + ":" + e["CHIBI_MODULE_PATH"]})
    body = "\n".join(l for l in r.out.split("\n") if l and not l.startswith(";;STATS"))
    got_lines = [l for l in body.split("\n") if l.strip()]
    want_lines = [l for l in EXTRA_WANT.split("\n") if l.strip()]
    chk.count(len(want_lines), outcome="scenario-line")
    for k in range(max(len(got_lines), len(want_lines))):
        g = got_lines[k] if k < len(got_lines) else None
        w = want_lines[k] if k < len(want_lines) else None
        if g != w:
            chk.violation({"op": "scenario", "line": k, "want": w, "got": g}, "library scenario line %d: got %r, expected %r" % (k, g, w), EXTRA)
            break
    # scenario 2: macro kinds x import routes with names that collide with private definitions
    common.write_file(os.path.join(libdir, "t", "m.sld"), LIB_M)
    common.write_file(os.path.join(libdir, "t", "u.sld"), LIB_U)
    for rname, text, want2 in scenario2():
        p2 = os.path.join(d, "macro-%s.scm" % rname)
        common.write_file(p2, text)
        r = common.run_chibi("opt", ["-I", libdir, p2], timeout=120, cwd=d)
        got2 = [l for l in r.out.split("\n") if l.strip() and not l.startswith("WARNING")]
        chk.count(len(want2), outcome="scenario-line")
        chk.nontrivial_n += len(want2)
        for k in range(max(len(got2), len(want2))):
            g = got2[k] if k < len(got2) else None
            w = want2[k] if k < len(want2) else None
            if g != w:
                chk.violation({"op": "macro-scenario:" + rname, "line": k, "want": w, "got": g},
                              "exported macros x import route %s, line %d: got %r, expected %r" % (rname, k, g, w),
                              ";; libraries (t m), (t u):\n;; " + (LIB_M + LIB_U).replace("\n", "\n;; ") + "\n" + text)
                break
    for expr, ids, path_ in allx[:: max(1, len(allx) // 6)][:6]:
        chk.sample({"import_set": expr, "model": ids})
    chk.cov["states"] = nstates
    chk.cov["transitions"] = ntrans
    chk.cov["traces_validated_against_impl"] = len(cases)
    common.cleanup_scratch()
    return chk.finish()
