"""C19 -- codec libraries invert each other and are total on hostile input.

Bounded-exhaustive enumeration on the real interpreter:
  enc      base64 / quoted-printable / uri-encode on every byte string of a stated finite family, every variant
           (bytevector, string, port); output compared with CPython base64, checked for RFC 2045 / RFC 3986
           legality and decoded by CPython quopri / urllib; decode(encode(x)) = x.
  hostile  every decoder on every string of length <= 6 over 10-symbol hostile alphabets (ASan build, watchdog).
  json     every value of depth <= 3 over an atom set (write -> CPython json.loads strict -> equal; read back ->
           equal), every \\uXXXX escape and surrogate pair, every text up to length 4/5 over a 22-symbol alphabet and
           every token string up to 4/5 tokens against CPython json (only RFC 8259-valid texts are asserted).
  csv      every table <= 2x2 (3x2 thorough) over 6 (9) cells written and parsed back, several documented grammars.
  acc      (scheme bytevector), (chibi bytevector), (srfi 160) numeric accessors: accessor x endianness x every
           offset in [-1, len] x value lattice against int.from_bytes / struct; mini-floats: all 256 / 65536 codes.
  utf      utf8->string / string->utf8 (and utf16/utf32) on every byte string <= 3 (4) over a 26-byte alphabet of
           lead / continuation / invalid bytes, against CPython's strict decoder.
"""
import os, sys, itertools, base64, binascii, json, math, re, shutil, struct, io, subprocess, threading, time, csv as pycsv
from collections import Counter
from fractions import Fraction
from multiprocessing import Pool

from .. import common, build
from ..common import Check, log
from ..models import codecs as M
from ..models.codecs import sstr, sbytes

PER_JOB_CAP = 4          # violation records kept per (job, op); the rest is only counted

# ------------------------------------------------------------------ shared Scheme prelude

PRE = r"""
(define hex-tab
  (let ((v (make-vector 256)) (d "0123456789abcdef"))
    (do ((i 0 (+ i 1))) ((= i 256) v)
      (vector-set! v i (string (string-ref d (quotient i 16)) (string-ref d (remainder i 16)))))))
(define (put-hex bv)
  (let ((n (bytevector-length bv)))
    (do ((i 0 (+ i 1))) ((= i n))
      (write-string (vector-ref hex-tab (bytevector-u8-ref bv i))))))
(define (put x)
  (cond ((bytevector? x) (write-char #\b) (put-hex x))
        ((string? x) (write-char #\s) (put-hex (string->utf8 x)))
        (else (write-char #\?))))
(define (sp) (write-char #\space))
(define-syntax try
  (syntax-rules () ((_ e) (guard (x (#t (write-char #\E))) (put e)))))
;; round trip: '=' when the decoded value equals the original, else the dump
(define-syntax rt
  (syntax-rules () ((_ orig e) (guard (x (#t (write-char #\E)))
                                 (let ((r e)) (if (equal? r orig) (write-char #\=) (put r)))))))
;; encode once, dump the encoding, then '=' when decoding it gives the original back (else the dump);
;; "E -" when the encoder itself raised
(define-syntax codec
  (syntax-rules ()
    ((_ orig enc-expr e dec-expr)
     (guard (x (#t (write-char #\E) (sp) (write-char #\-)))
       (let ((e enc-expr))
         (put e) (sp)
         (guard (x (#t (write-char #\E)))
           (let ((r dec-expr)) (if (equal? r orig) (write-char #\=) (put r)))))))))
(define (touch r)
  (cond ((bytevector? r) (write-char #\b) (write (bytevector-length r)))
        ((string? r) (write-char #\s) (write (string-length r)))
        (else (write-char #\o))))
(define-syntax tot
  (syntax-rules () ((_ e) (guard (x (#t (write-char #\E))) (touch e)))))
(define (latin1 bv)
  (let* ((n (bytevector-length bv)) (o (open-output-string)))
    (do ((i 0 (+ i 1))) ((= i n) (get-output-string o))
      (write-char (integer->char (bytevector-u8-ref bv i)) o))))
(define (digits->bytes al i len)
  (let ((k (vector-length al)) (bv (make-bytevector len 0)))
    (let lp ((i i) (p (- len 1)))
      (if (< p 0) bv
          (begin (bytevector-u8-set! bv p (vector-ref al (remainder i k)))
                 (lp (quotient i k) (- p 1)))))))
(define (digits->string al i len)
  (let ((k (vector-length al)))
    (let lp ((i i) (n len) (acc '()))
      (if (= n 0) (apply string-append acc)
          (lp (quotient i k) (- n 1) (cons (vector-ref al (remainder i k)) acc))))))
"""

LOOP = r"""
(define FLUSH %s)
(do ((i %d (+ i 1))) ((= i %d))
  (write-char #\>)
  (case-at i)
  (newline)
  (if FLUSH (flush-output-port)))
"""


def loop(start, end, flush):
    return LOOP % ("#t" if flush else "#f", start, end)


def idx_digits(k, i, n):
    out = []
    for _ in range(n):
        out.append(i % k)
        i //= k
    return out[::-1]


# ------------------------------------------------------------------ batch runner with crash localisation

def split_output(out):
    pieces = out.split("\n")
    complete = pieces[:-1]          # the last piece has no terminating newline
    got = [l[1:] for l in complete if l.startswith(">")]
    rest = [l for l in pieces if not l.startswith(">")]
    return got, "\n".join(rest)


IMPORT_FAILED = re.compile(r"^;;(?:READ-)?EXC 0 .*$", re.M)


def evalbatch_retry(variant, files, **kw):
    """common.evalbatch, retried while the variant is being rebuilt under our feet (another check noticed a change
    in /repo): the first top-level form of every driver is its (import ...), so ';;EXC 0' means the libraries were
    not loadable at that moment; a missing executable shows up as OSError."""
    last = None
    for attempt in range(8):
        try:
            res = common.evalbatch(variant, files, **kw)
        except (OSError, RuntimeError) as e:
            last = "evalbatch could not be started: %s" % e
            time.sleep(15)
            continue
        m = IMPORT_FAILED.search(res.out)
        if not m:
            return res
        last = m.group(0)
        time.sleep(15)
    raise common.HarnessError("libraries could not be imported after 8 attempts: %s" % last)


def run_cases(variant, make_text, n, tag="c19", timeout=900, max_stops=12):
    """make_text(start, end, flush) -> program printing one '>' line per case.  Returns (lines, events);
    lines[i] is None for a case that produced no line; events = [(kind, index, rc, tail)]."""
    lines = [None] * n
    events = []
    start, flush, stops = 0, False, 0
    while start < n:
        d = common.scratch_dir(tag)
        path = os.path.join(d, "job.scm")
        common.write_file(path, make_text(start, n, flush))
        res = evalbatch_retry(variant, [path], timeout=timeout if not flush else max(180, timeout // 3), cwd=d)
        shutil.rmtree(d, ignore_errors=True)
        got, tail = split_output(res.out)
        hdr = re.search(r"ERROR: AddressSanitizer.*", res.out)
        if hdr:
            frames = "\n".join(re.findall(r"^\s+#\d+ .*$", res.out, re.M)[:8])
            tail = hdr.group(0) + "\n" + frames + "\n" + tail[-600:]
        for k, l in enumerate(got):
            if start + k < n:
                lines[start + k] = l
        done = start + len(got)
        asan = "ERROR: AddressSanitizer" in res.out
        exc = re.search(r"^;;(READ-)?EXC .*$", res.out, re.M)
        if done >= n and not asan and not exc and res.rc == 0 and not res.timed_out:
            break
        if done >= n:
            # every case printed its line; only a sanitizer report or a bad exit status is an event
            # (a ;;EXC here belongs to a case that still completed its line in one-form-per-case mode)
            if asan or res.rc != 0 or res.timed_out:
                events.append(("asan" if asan else "exit", n - 1, res.rc, tail[:1800] if hdr else tail[-1500:]))
            break
        stops += 1
        if stops > max_stops:
            if events and all(e[0] == "escaped" for e in events) and not any(l is not None for l in lines):
                raise common.HarnessError("driver does not run (%s): %s" % (tag, res.out[-1200:]))
            events.append(("gave-up", done, n - done, tail[-600:]))      # third field: cases not run
            break
        if exc and not asan and not res.timed_out:
            # the harness flushes before printing ;;EXC, so `done` is exact
            events.append(("escaped", done, res.rc, exc.group(0)[:300]))
            lines[done] = None
            start = done + 1
            continue
        if not flush:
            flush, start = True, done      # run again from the last complete line, flushing every line
            continue
        kind = "timeout" if res.timed_out else ("asan" if asan else "signal")
        events.append((kind, done, res.rc, tail[:1800] if hdr else tail[-1500:]))
        lines[done] = None
        start = done + 1
    return lines, events


class JobResult:
    def __init__(self, title, variant):
        self.title = title
        self.variant = variant
        self.n = 0
        self.nontrivial = 0
        self.outcomes = Counter()
        self.excluded = Counter()
        self.viol = []
        self.viol_total = Counter()
        self.samples = []
        self.not_run = 0

    def violation(self, op, desc, what, replay, got_line=None):
        self.viol_total[op] += 1
        if sum(1 for v in self.viol if v[0]["op"] == op) < PER_JOB_CAP:
            d = dict(desc)
            d["op"] = op
            d["variant"] = self.variant
            if got_line is not None:
                d["got_line"] = got_line
            self.viol.append((d, what, replay))

    def events(self, events, section, describe, replay_of):
        for kind, idx, rc, tail in events:
            if kind == "escaped":
                # an error that bypassed guard (e.g. out of stack/memory) is still "signals an error"
                self.outcomes["error-bypassing-guard"] += 1
                continue
            if kind == "gave-up":
                self.not_run += rc
                continue
            if kind == "timeout":
                # rule 4: a batch that ran into the watchdog proves nothing by itself (the machine may be overloaded or
                # the driver slow); the case must fail to terminate when run alone in a fresh process
                d = common.scratch_dir("c19to")
                path = os.path.join(d, "alone.scm")
                common.write_file(path, replay_of(idx))
                alone = evalbatch_retry(self.variant, [path], timeout=240, cwd=d)
                shutil.rmtree(d, ignore_errors=True)
                if not alone.timed_out:
                    self.excluded["batch hit its time limit but the case terminates when run alone (not counted as run)"] += 1
                    self.not_run += 1
                    continue
            m = re.search(r"ERROR: AddressSanitizer: (\S+).*", tail)
            frames = re.findall(r"#\d+ \S+ in (\S+) (\S+)", tail)[:4]
            self.violation(section + "-" + ("hang" if kind == "timeout" else "crash"),
                           {"case": describe(idx), "rc": rc, "kind": kind, "asan": m.group(0)[:200] if m else None,
                            "frames": frames},
                           "%s: %s at case %s (rc=%s) %s %s" % (section, kind, describe(idx), rc,
                                                               m.group(0)[:160] if m else "", frames[:3]),
                           replay_of(idx))


def fields(line):
    return line.split(" ") if line is not None else None


def dec(f):
    """'b<hex>' / 's<hex>' -> (tag, bytes); 'E' / '=' / '?' stay"""
    if f and f[0] in "bs":
        try:
            return f[0], binascii.unhexlify(f[1:])
        except (binascii.Error, ValueError):
            return "!", f
    return f, None


# ================================================================== section enc: encoders + round trips (opt)

ENC_IMPORTS = "(import (scheme base) (scheme write) (chibi base64) (chibi quoted-printable) (chibi uri))\n"

ENC_CORE = r"""
    (codec x (base64-encode-bytevector x) e (base64-decode-bytevector e)) (sp)
    (codec x (quoted-printable-encode-bytevector x) e (quoted-printable-decode-bytevector e)) (sp)
    (codec ls (uri-encode ls) e (uri-decode e))
"""
ENC_STR = r"""
    (sp) (codec ls (uri-encode ls #t) e (uri-decode e #t))
    (sp) (codec ls (base64-encode-string ls) e (base64-decode-string e))
    (sp) (codec ls (quoted-printable-encode-string ls) e (quoted-printable-decode-string e))
"""
ENC_PORT = r"""
    (sp) (try (let ((o (open-output-bytevector))) (base64-encode (open-input-bytevector x) o) (get-output-bytevector o)))
    (sp) (rt x (let ((o (open-output-bytevector)))
                 (base64-decode (open-input-bytevector (base64-encode-bytevector x)) o) (get-output-bytevector o)))
    (sp) (try (let ((o (open-output-string))) (base64-encode (open-input-string ls) o) (get-output-string o)))
    (sp) (rt ls (let ((o (open-output-string)))
                  (base64-decode (open-input-string (base64-encode-string ls)) o) (get-output-string o)))
    (sp) (rt x (base64-decode-bytevector (string->utf8 (vector-ref WRAPPED (- i BASE)))))
    (sp) (rt x (quoted-printable-decode-bytevector (string->utf8 (vector-ref FOREIGNQP (- i BASE)))))
    (sp) (try (base64-encode-header "utf-8" ls))
    (sp) (try (quoted-printable-encode-header "utf-8" ls))
"""

UNRESERVED = set(b"ABCDEFGHIJKLMNOPQRSTUVWXYZabcdefghijklmnopqrstuvwxyz0123456789-._~")


def enc_case_def(extra):
    return "(define (case-at i)\n  (let* ((x (input-at i)) (ls (latin1 x)))\n" + ENC_CORE + extra + "))\n"


def qp_foreign_encode(x):
    """a second, deliberately different legal quoted-printable encoder (literal SPACE/TAB inside lines, '?' and '_'
    literal, soft breaks at 76 columns); used to feed the decoder text it did not produce itself"""
    out, col = [], 0
    n = len(x)
    for i, b in enumerate(x):
        if (33 <= b <= 126 and b != 61) or (b in (9, 32) and i + 1 < n):
            tok = bytes([b])
        else:
            tok = b"=%02X" % b
        if col + len(tok) > 75:
            out.append(b"=\r\n")
            col = 0
        out.append(tok)
        col += len(tok)
    enc = b"".join(out)
    # a literal blank may have ended up right before a soft break: '=' follows it, which is legal
    assert M.qp_illegal(enc) is None, (M.qp_illegal(enc), enc[:200])
    assert M.qp_decode_ref(enc) == x, (enc[:200], x[:100])
    return enc


def check_enc(r, x, line, with_str, with_port, replay, wrapped=None):
    """compare one output line of the enc driver with the references; returns the list of failing ops"""
    ls = x.decode("latin-1")
    u8 = ls.encode("utf-8")
    f = fields(line)
    want_n = 6 + (6 if with_str else 0) + (8 if with_port else 0)
    failed = []

    def bad(op, what, got):
        failed.append(op)
        r.violation(op, {"input": x.hex() if len(x) <= 64 else "%d bytes %s.." % (len(x), x[:16].hex()), "len": len(x),
                         "got": got if got is None or len(str(got)) < 300 else str(got)[:300] + ".."},
                    "%s on input %s: %s" % (op, x.hex() if len(x) <= 24 else "%d bytes" % len(x), what), replay, line)

    if f is None or len(f) != want_n:
        bad("enc-driver", "malformed result line %r" % (line if line is None else line[:120]), None)
        return failed

    def enc_field(op, fld, tag, want=None, legal=None, refdec=None, refwant=None):
        t, b = dec(fld)
        if t == "E":
            bad(op, "encoder raised an error on a legitimate value", "E")
            return
        if t != tag:
            bad(op, "encoder returned a %s" % {"b": "bytevector", "s": "string", "?": "non-string/bytevector"}.get(t, t), fld[:80])
            return
        if want is not None and b != want:
            k = next((i for i in range(min(len(b), len(want))) if b[i] != want[i]), min(len(b), len(want)))
            bad(op, "output differs from RFC 4648 at offset %d (lengths %d vs %d): got ..%r, want ..%r"
                % (k, len(b), len(want), b[max(0, k - 8):k + 12], want[max(0, k - 8):k + 12]), b[max(0, k - 40):k + 40].decode("latin-1"))
            return
        if legal is not None:
            why = legal(b)
            if why:
                bad(op, "output is not legal for the format: %s; output %r" % (why, b[:100]), b[:200].decode("latin-1"))
                return
        if refdec is not None:
            try:
                d = refdec(b)
            except Exception as e:          # reference decoder refused it
                d = "reference decoder failed: %s" % e
            if d != refwant:
                bad(op, "reference decoder maps the output %r to %r, not to the input" % (b[:80], d[:80] if hasattr(d, "__len__") else d),
                    b[:200].decode("latin-1"))

    def rt_field(op, fld):
        if fld in ("=", "-"):           # '-': the encoder already failed and was reported
            return
        t, b = dec(fld)
        bad(op, "decode(encode(x)) %s" % ("raised an error" if t == "E" else "= %s %r" % (t, (b or b"")[:80])), fld[:200])

    def uri_legal(plus):
        def g(b):
            try:
                s = b.decode("ascii")
            except UnicodeDecodeError:
                return "non-ASCII output"
            return M.uri_illegal(s, plus)
        return g

    b64 = base64.b64encode
    enc_field("base64-encode-bytevector", f[0], "b", want=b64(x))
    rt_field("base64-roundtrip-bytevector", f[1])
    enc_field("qp-encode-bytevector", f[2], "b", legal=M.qp_illegal, refdec=M.qp_decode_ref, refwant=x)
    rt_field("qp-roundtrip-bytevector", f[3])
    enc_field("uri-encode", f[4], "s", legal=uri_legal(False),
              refdec=lambda b: M.uri_decode_ref(b.decode("ascii"), False), refwant=ls)
    rt_field("uri-roundtrip", f[5])
    k = 6
    if with_str:
        enc_field("uri-encode-plus", f[6], "s", legal=uri_legal(True),
                  refdec=lambda b: M.uri_decode_ref(b.decode("ascii"), True), refwant=ls)
        rt_field("uri-roundtrip-plus", f[7])
        enc_field("base64-encode-string", f[8], "s", want=b64(u8))
        rt_field("base64-roundtrip-string", f[9])
        enc_field("qp-encode-string", f[10], "s", legal=M.qp_illegal, refdec=M.qp_decode_ref, refwant=u8)
        rt_field("qp-roundtrip-string", f[11])
        k = 12
    if with_port:
        enc_field("base64-encode-port-binary", f[k], "b", want=b64(x))
        rt_field("base64-roundtrip-port-binary", f[k + 1])
        enc_field("base64-encode-port-textual", f[k + 2], "s", want=b64(u8))
        rt_field("base64-roundtrip-port-textual", f[k + 3])
        rt_field("base64-decode-mime-wrapped", f[k + 4])
        rt_field("qp-decode-foreign-encoder", f[k + 5])
        # RFC 2047 encoded words
        t, b = dec(f[k + 6])
        if t != "s":
            bad("base64-encode-header", "raised an error / returned a non-string", f[k + 6][:60])
        else:
            words = b.split(b"\r\n\t")
            payload = b""
            okw = True
            for w in words:
                m = re.match(rb"^=\?utf-8\?B\?([A-Za-z0-9+/]*={0,2})\?=$", w)
                if not m or len(w) > 76:
                    okw = False
                    break
                try:
                    payload += base64.b64decode(m.group(1), validate=True)
                except Exception:
                    okw = False
                    break
            if not okw or payload != u8:
                bad("base64-encode-header", "encoded words do not carry the input / exceed 76 columns: %r" % b[:120], b[:200].decode("latin-1"))
        t, b = dec(f[k + 7])
        if t not in ("s", "b"):
            bad("qp-encode-header", "documented call (quoted-printable-encode-header \"utf-8\" str) raised an error", f[k + 7][:60])
        else:
            words = b.split(b"\r\n\t")
            payload = b""
            okw = True
            for w in words:
                m = re.match(rb"^=\?utf-8\?Q\?([!-~]*)\?=$", w)      # RFC 2047 4.2: any printable but ? and SPACE; =XX escapes allowed
                if not m or len(w) > 76 or b"?" in m.group(1) or b" " in m.group(1):
                    okw = False
                    break
                payload += M.qp_decode_ref(m.group(1).replace(b"_", b" "))
            if not okw or payload != u8:
                bad("qp-encode-header", "encoded words do not carry the input / are not RFC 2047 Q words: %r" % b[:120], b[:200].decode("latin-1"))
    return failed


def nontrivial_bytes(x):
    return len(x) % 3 != 0 or any(b not in UNRESERVED for b in x)


def job_enc(variant, al, ln, lo, hi, lite):
    """every byte string of length ln over alphabet al, enumeration indices lo..hi-1"""
    title = "enc len=%d |al|=%d [%d,%d)" % (ln, len(al), lo, hi)
    r = JobResult(title, variant)
    base = (ENC_IMPORTS + PRE + "(define AL (vector %s))\n(define (input-at i) (digits->bytes AL i %d))\n"
            % (" ".join(map(str, al)), ln) + enc_case_def("" if lite else ENC_STR))

    def mk(s, e, fl):
        return base + loop(lo + s, lo + e, fl)

    def inp(c):
        return bytes(al[d] for d in idx_digits(len(al), lo + c, ln))

    lines, events = run_cases(variant, mk, hi - lo, "c19enc")
    r.events(events, "enc", lambda c: inp(c).hex(), lambda c: mk(c, c + 1, True))
    for c, line in enumerate(lines):
        if line is None:
            continue
        x = inp(c)
        r.n += 1
        if nontrivial_bytes(x):
            r.nontrivial += 1
        failed = check_enc(r, x, line, not lite, False, mk(c, c + 1, True))
        r.outcomes["enc:" + ("ok" if not failed else "FAIL") + ":len%%3=%d:%s" % (len(x) % 3, "esc" if any(b not in UNRESERVED for b in x) else "plain")] += 1
    if lines and lines[0] is not None:
        r.samples.append("codecs on bytes %s -> %s" % (inp(0).hex() or "(empty)", lines[0][:100]))
    return r


PATTERNS = {
    0: "(lambda (i) (modulo (+ (* i 37) 11) 256))",
    1: "(lambda (i) 97)",
    2: "(lambda (i) 255)",
    3: "(lambda (i) (bytevector-u8-ref (bytevector 97 32 61 9 63 95 13 10 46 32) (modulo i 10)))",
}


def pattern_bytes(p, n):
    if p == 0:
        return bytes((i * 37 + 11) % 256 for i in range(n))
    if p == 1:
        return b"a" * n
    if p == 2:
        return b"\xff" * n
    cyc = bytes([97, 32, 61, 9, 63, 95, 13, 10, 46, 32])
    return bytes(cyc[i % 10] for i in range(n))


def lengths_for(tier):
    big = [2047, 2048, 2049, 2222, 2223, 2224, 3071, 3072, 3073, 4096]
    if tier != "quick":
        big += [4095, 4097, 4446, 6144, 6145]
    return list(range(0, 101)) + big


def job_enclen(variant, p, lens):
    """fixed pattern p at every length in lens, all variants including ports"""
    r = JobResult("enc pattern=%d lengths=%d..%d" % (p, lens[0], lens[-1]), variant)
    xs = [pattern_bytes(p, n) for n in lens]
    wrapped = [base64.encodebytes(x).decode("ascii") for x in xs]
    foreign = [qp_foreign_encode(x).decode("ascii") for x in xs]
    base = (ENC_IMPORTS + PRE + "(define BASE 0)\n(define LENS (vector %s))\n(define PAT %s)\n" % (" ".join(map(str, lens)), PATTERNS[p])
            + "(define (input-at i) (let* ((n (vector-ref LENS i)) (bv (make-bytevector n 0)))\n"
              "  (do ((j 0 (+ j 1))) ((= j n) bv) (bytevector-u8-set! bv j (PAT j)))))\n"
            + "(define WRAPPED (vector %s))\n(define FOREIGNQP (vector %s))\n" % (
                "\n".join(sstr(w) for w in wrapped), "\n".join(sstr(w) for w in foreign))
            + enc_case_def(ENC_STR + ENC_PORT))

    def mk(s, e, fl):
        return base + loop(s, e, fl)

    lines, events = run_cases(variant, mk, len(lens), "c19len")
    r.events(events, "enc", lambda c: "pattern %d length %d" % (p, lens[c]), lambda c: mk(c, c + 1, True))
    for c, line in enumerate(lines):
        if line is None:
            continue
        r.n += 1
        r.nontrivial += 1
        failed = check_enc(r, xs[c], line, True, True, mk(c, c + 1, True))
        r.outcomes["enclen:" + ("ok" if not failed else "FAIL:" + ",".join(sorted(set(failed)))[:120])] += 1
    r.samples.append("all variants (bytevector/string/binary+textual port/header) on pattern %d, lengths %s" % (p, lens[:3] + lens[-3:]))
    return r


QPPORT_CASE = r"""
(define INPUTS (vector %s))
(define (case-at i)
  (let ((x (vector-ref INPUTS i)))
    (try (let ((o (open-output-string)))
           (parameterize ((current-output-port o)) (quoted-printable-encode (open-input-bytevector x)))
           (get-output-string o)))
    (sp)
    (rt (utf8->string x)
        (let ((o (open-output-string)))
          (parameterize ((current-output-port o))
            (quoted-printable-decode (open-input-bytevector (quoted-printable-encode-bytevector x))))
          (get-output-string o)))))
"""


def job_qpport(variant):
    """port variants of quoted-printable: each call allocates a 10^9-byte buffer, so only three inputs"""
    r = JobResult("qp port variants", variant)
    xs = [b"a", b"a=b c", b"caf\xc3\xa9 " + b"x" * 80]
    base = ENC_IMPORTS + PRE + QPPORT_CASE % " ".join(sbytes(x) for x in xs)

    def mk(s, e, fl):
        return base + loop(s, e, fl)

    lines, events = run_cases(variant, mk, len(xs), "c19qpp", timeout=600)
    r.events(events, "enc", lambda c: xs[c].hex(), lambda c: mk(c, c + 1, True))
    for c, line in enumerate(lines):
        if line is None:
            continue
        r.n += 1
        r.nontrivial += 1
        f = fields(line)
        t, b = dec(f[0])
        ok = True
        if t != "s" or M.qp_illegal(b) or M.qp_decode_ref(b) != xs[c]:
            ok = False
            r.violation("qp-encode-port", {"input": xs[c].hex(), "got": (b or b"").decode("latin-1")[:200]},
                        "(quoted-printable-encode <binary port>) wrote %r, which is not a quoted-printable encoding of the input"
                        % ((b or f[0].encode())[:80],), mk(c, c + 1, True), line)
        if len(f) < 2 or f[1] != "=":
            ok = False
            r.violation("qp-decode-port", {"input": xs[c].hex(), "got": f[1][:200] if len(f) > 1 else None},
                        "(quoted-printable-decode <binary port>) of the encoding wrote %r instead of the input"
                        % (dec(f[1])[1] if len(f) > 1 else None,), mk(c, c + 1, True), line)
        r.outcomes["qpport:" + ("ok" if ok else "FAIL")] += 1
    return r


URIWIDE = [0x41, 0x20, 0xE9, 0xFF, 0x100, 0x20AC, 0xFFFD, 0x10000, 0x1F600, 0x10FFFF]


def job_uriwide(variant):
    """uri-encode on every string of length <= 2 over code points up to U+10FFFF"""
    r = JobResult("uri-encode beyond Latin-1", variant)
    strs = [""] + [chr(a) for a in URIWIDE] + [chr(a) + chr(b) for a in URIWIDE for b in URIWIDE]
    base = (ENC_IMPORTS + PRE + "(define INPUTS (vector %s))\n" % "\n".join(sstr(s) for s in strs) + r"""
(define (case-at i)
  (let ((ls (vector-ref INPUTS i)))
    (try (uri-encode ls)) (sp) (rt ls (uri-decode (uri-encode ls)))))
""")

    def mk(s, e, fl):
        return base + loop(s, e, fl)

    lines, events = run_cases(variant, mk, len(strs), "c19uw")
    r.events(events, "enc", lambda c: repr(strs[c]), lambda c: mk(c, c + 1, True))
    for c, line in enumerate(lines):
        if line is None:
            continue
        r.n += 1
        s = strs[c]
        if any(ord(ch) > 255 for ch in s):
            r.nontrivial += 1
        f = fields(line)
        t, b = dec(f[0])
        ok = True
        desc = {"input": [hex(ord(ch)) for ch in s], "got": (b or b"").decode("latin-1")}
        why = "raised an error" if t != "s" else M.uri_illegal(b.decode("latin-1"), False)
        if why:
            ok = False
            r.violation("uri-encode-wide", desc, "(uri-encode %s) = %r is not legal: %s" % (sstr(s), b, why), mk(c, c + 1, True), line)
        elif f[1] != "=":
            ok = False
            r.violation("uri-roundtrip-wide", dict(desc, back=f[1][:80]),
                        "(uri-decode (uri-encode %s)) is %s; the encoding was %r (RFC 3986 2.5: characters beyond "
                        "the octet range must be escaped octet by octet)" % (sstr(s), "an error" if f[1] == "E" else
                                                                         repr(dec(f[1])[1].decode("utf-8", "replace")), b),
                        mk(c, c + 1, True), line)
        r.outcomes["uriwide:" + ("ok" if ok else "FAIL") + (":wide" if any(ord(ch) > 255 for ch in s) else ":latin1")] += 1
    return r


# ================================================================== section hostile: decoders on arbitrary text (asan)

HOSTILE_ALPHABETS = {
    # the design's alphabet: base64 symbols of both dialects, padding, white space, an outsider, a 2-byte character
    "H": ["A", "/", "+", "=", "-", "_", "\n", " ", "*", "é"],
    # percent escapes: valid / invalid / truncated / signed hex
    "U": ["%", "4", "1", "f", "F", "-", "+", " ", "é", "g"],
    # quoted-printable: escapes, lower-case hex, soft breaks with CR / LF / CRLF, trailing blanks, header mode
    "Q": ["=", "4", "1", "F", "a", "\r", "\n", " ", "\t", "_"],
}

HOSTILE_DECODERS = {
    "H": ["base64-decode-string", "base64-decode-bytevector", "base64-decode/binary-port", "base64-decode/textual-port",
          "quoted-printable-decode-string", "quoted-printable-decode-bytevector", "quoted-printable-decode-string/header",
          "uri-decode", "uri-decode/plus", "uri-query->alist"],
    "U": ["uri-decode", "uri-decode/plus", "uri-query->alist", "string->uri"],
    "Q": ["quoted-printable-decode-string", "quoted-printable-decode-bytevector", "quoted-printable-decode-string/header",
          "quoted-printable-decode-bytevector/header"],
}

HOSTILE_EXPR = {
    "base64-decode-string": "(tot (base64-decode-string s))",
    "base64-decode-bytevector": "(tot (base64-decode-bytevector b))",
    "base64-decode/binary-port": "(tot (let ((o (open-output-bytevector))) (base64-decode (open-input-bytevector b) o) (get-output-bytevector o)))",
    "base64-decode/textual-port": "(tot (let ((o (open-output-string))) (base64-decode (open-input-string s) o) (get-output-string o)))",
    "quoted-printable-decode-string": "(tot (quoted-printable-decode-string s))",
    "quoted-printable-decode-bytevector": "(tot (quoted-printable-decode-bytevector b))",
    "quoted-printable-decode-string/header": "(tot (quoted-printable-decode-string s #t))",
    "quoted-printable-decode-bytevector/header": "(tot (quoted-printable-decode-bytevector b #t))",
    "uri-decode": "(tot (uri-decode s))",
    "uri-decode/plus": "(tot (uri-decode s #t))",
    "uri-query->alist": "(guard (x (#t (write-char #\\E))) (let ((r (uri-query->alist s #t))) (write-char #\\l) (write (length r))))",
    "string->uri": "(guard (x (#t (write-char #\\E))) (let ((r (string->path-uri 'http s #t #t))) (write-char (if (uri? r) #\\u #\\o))))",
}


def job_hostile(variant, name, ln, lo, hi):
    al = HOSTILE_ALPHABETS[name]
    decs = HOSTILE_DECODERS[name]
    r = JobResult("hostile %s len=%d [%d,%d)" % (name, ln, lo, hi), variant)
    base = (ENC_IMPORTS + PRE + "(define AL (vector %s))\n" % " ".join(sstr(a) for a in al)
            + "(define (case-at i)\n  (let* ((s (digits->string AL i %d)) (b (string->utf8 s)))\n    " % ln
            + "\n    (sp) ".join(HOSTILE_EXPR[d] for d in decs) + "))\n")

    def mk(s, e, fl):
        return base + loop(lo + s, lo + e, fl)

    def inp(c):
        return "".join(al[d] for d in idx_digits(len(al), lo + c, ln))

    lines, events = run_cases(variant, mk, hi - lo, "c19hos", timeout=900)
    r.events(events, "hostile", lambda c: repr(inp(c)), lambda c: mk(c, c + 1, True))
    pat = re.compile(r"^(?:[bsl]\d+|[ouE])$")
    for c, line in enumerate(lines):
        if line is None:
            continue
        r.n += 1
        r.nontrivial += 1          # every member of a hostile family counts
        f = line.split(" ")
        if len(f) != len(decs) or not all(pat.match(x) for x in f):
            r.violation("hostile-driver", {"input": inp(c), "got": line[:200]},
                        "decoders on %r: malformed result line %r" % (inp(c), line[:120]), mk(c, c + 1, True), line)
            continue
        r.outcomes["hostile-%s:" % name + "".join(x[0] for x in f)] += 1
    if lines and lines[-1] is not None:
        r.samples.append("decoders %s on %r -> %s" % (",".join(decs)[:60] + "..", inp(len(lines) - 1), lines[-1]))
    return r


# ================================================================== section json (asan)

JSON_IMPORTS = "(import (scheme base) (scheme write) (chibi json))\n"

JSON_PRE = r"""
(define (canon x)
  (cond ((eq? x 'null) (write-char #\N))
        ((eq? x #t) (write-char #\T))
        ((eq? x #f) (write-char #\F))
        ((number? x) (write-char #\#) (write-string (number->string x)) (write-char #\;))
        ((string? x) (write-char #\S) (put-hex (string->utf8 x)) (write-char #\;))
        ((vector? x) (write-char #\[) (vector-for-each canon x) (write-char #\]))
        ((null? x) (write-string "{}"))
        ((and (pair? x) (list? x))
         (write-char #\{)
         (for-each (lambda (p)
                     (if (and (pair? p) (symbol? (car p)))
                         (begin (write-char #\K) (put-hex (string->utf8 (symbol->string (car p)))) (write-char #\;)
                                (canon (cdr p)))
                         (write-string "?entry;")))
                   x)
         (write-char #\}))
        (else (write-string "?other;"))))
(define (fix x)     ; object keys arrive as strings
  (cond ((vector? x) (vector-map fix x))
        ((pair? x) (map (lambda (p) (cons (string->symbol (car p)) (fix (cdr p)))) x))
        (else x)))
(define (read-back text)
  (guard (x (#t (write-char #\E))) (canon (string->json text))))
(define (write-read v)
  (guard (x (#t (write-char #\E) (sp) (write-char #\-)))
    (let ((t (json->string v)))
      (if (string? t) (put-hex (string->utf8 t)) (write-char #\?))
      (sp)
      (read-back t))))
"""


def jshow(v):
    return json.dumps(v, ensure_ascii=True)[:100]


def check_json_value(r, v, line, replay):
    """line = hex(json->string v) SP canon(string->json of that)"""
    f = fields(line)
    desc = {"value": jshow(v)}
    if f is None or len(f) != 2:
        r.violation("json-driver", desc, "malformed result line %r" % (line,), replay, line)
        return "FAIL"
    if f[0] == "E":
        r.violation("json-write", dict(desc, got="E"), "(json->string %s) raised an error" % jshow(v), replay, line)
        return "write-error"
    try:
        text = binascii.unhexlify(f[0]).decode("utf-8", "surrogatepass")
    except Exception:
        r.violation("json-write", dict(desc, got=f[0][:100]), "(json->string %s) is not UTF-8: %s" % (jshow(v), f[0][:80]), replay, line)
        return "write-garbage"
    verdict = "ok"
    kind, ref = M.json_ref(text)
    if kind != "ok":
        r.violation("json-write-illegal", dict(desc, got=text[:200]),
                    "json->string of %s wrote %r, which is not a JSON text (CPython json, strict: %s)" % (jshow(v), text[:120], ref),
                    replay, line)
        verdict = "write-illegal"
    elif not M.jeq(ref, v):
        op = "json-write-number" if M.jeq(ref, v, 1e-6) else "json-write-value"
        r.violation(op, dict(desc, got=text[:200]),
                    "json->string of %s wrote %r, which denotes %s" % (jshow(v), text[:120], jshow(ref)), replay, line)
        verdict = "write-" + ("imprecise" if op.endswith("number") else "wrong")
    back = M.parse_canon(f[1]) if f[1] != "E" else None
    if f[1] == "E" or not M.jeq(back, v):
        if verdict == "ok":
            r.violation("json-roundtrip", dict(desc, text=text[:200], got=f[1][:200]),
                        "string->json of json->string of %s: text %r read back as %s" % (
                            jshow(v), text[:120], "an error" if f[1] == "E" else repr(back)[:120]), replay, line)
            verdict = "read-wrong"
    return verdict


def nontrivial_json(v):
    """a value that needs an escape, a non-fixnum number or nesting"""
    s = json.dumps(v)
    return "\\" in s or "[" in s or "{" in s or "." in s or len(s) > 12


def job_json_values(variant, reduced, shape, ilo, ihi):
    """shape None: the level-2 list itself; else level-3 values (shape, i, j) for i in [ilo, ihi), all j"""
    V = M.level2(reduced)
    n2 = len(V)
    r = JobResult("json values %s shape=%s i=[%s,%s)" % ("reduced" if reduced else "full", shape, ilo, ihi), variant)
    base = (JSON_IMPORTS + PRE + JSON_PRE + "(define V (vector-map fix '#(%s)))\n(define N2 %d)\n" % ("\n".join(M.sjson(v) for v in V), n2)
            + "(define K3 (string->symbol %s))\n(define KA (string->symbol \"a\"))\n" % sstr(M.KEYS[2]))
    if shape is None:
        base += "(define (case-at i) (write-read (vector-ref V i)))\n"
        n = n2
        val = lambda c: V[c]
    elif shape in (0, 2):
        base += "(define (case-at i) (write-read %s))\n" % (
            "(vector (vector-ref V i))" if shape == 0 else "(list (cons KA (vector-ref V i)))")
        n = ihi - ilo
        val = lambda c: M.level3_value(V, shape, ilo + c, 0)
    else:
        base += ("(define (case-at c) (let ((i (+ %d (quotient c N2))) (j (remainder c N2))) (write-read %s)))\n" % (
            ilo, "(vector (vector-ref V i) (vector-ref V j))" if shape == 1 else
            "(list (cons KA (vector-ref V i)) (cons K3 (vector-ref V j)))"))
        n = (ihi - ilo) * n2
        val = lambda c: M.level3_value(V, shape, ilo + c // n2, c % n2)
    off = ilo if shape in (0, 2) else 0

    def mk(s, e, fl):
        return base + loop(off + s, off + e, fl)

    lines, events = run_cases(variant, mk, n, "c19jv", timeout=1200)
    r.events(events, "json", lambda c: jshow(val(c)), lambda c: mk(c, c + 1, True))
    for c, line in enumerate(lines):
        if line is None:
            continue
        v = val(c)
        r.n += 1
        if nontrivial_json(v):
            r.nontrivial += 1
        r.outcomes["json-value:" + check_json_value(r, v, line, mk(c, c + 1, True))] += 1
    if n:
        r.samples.append("json->string/string->json on %s" % jshow(val(n - 1)))
    return r


def cps(s):
    return "".join("%d," % ord(ch) for ch in s)


ESC_PRE = r"""
(define (hex4 n)
  (let ((d (if UPPER "0123456789ABCDEF" "0123456789abcdef")))
    (string (string-ref d (quotient n 4096)) (string-ref d (remainder (quotient n 256) 16))
            (string-ref d (remainder (quotient n 16) 16)) (string-ref d (remainder n 16)))))
(define (show-cps text)
  (guard (x (#t (write-char #\E)))
    (let ((r (string->json text)))
      (if (string? r)
          (string-for-each (lambda (c) (write (char->integer c)) (write-char #\,)) r)
          (write-char #\?)))))
"""


def job_json_u1(variant, upper, lo, hi):
    """"\\uXXXX" for XXXX in [lo, hi)"""
    r = JobResult("json \\u escapes %s [%04x,%04x)" % ("upper" if upper else "lower", lo, hi), variant)
    base = (JSON_IMPORTS + PRE + "(define UPPER %s)\n" % ("#t" if upper else "#f") + ESC_PRE
            + '(define (case-at i) (show-cps (string-append "\\"a\\\\u" (hex4 i) "b\\"")))\n')

    def mk(s, e, fl):
        return base + loop(lo + s, lo + e, fl)

    def text(c):
        return '"a\\u%s' % (("%04X" if upper else "%04x") % (lo + c)) + 'b"'

    lines, events = run_cases(variant, mk, hi - lo, "c19ju")
    r.events(events, "json", text, lambda c: mk(c, c + 1, True))
    for c, line in enumerate(lines):
        if line is None:
            continue
        r.n += 1
        cp = lo + c
        if cp >= 0x80:
            r.nontrivial += 1
        if 0xD800 <= cp <= 0xDFFF:
            r.outcomes["json-escape:unpaired-surrogate(open):" + ("E" if line == "E" else "v")] += 1
            continue
        want = cps("a" + chr(cp) + "b")
        if line != want:
            r.violation("json-read-escape", {"text": text(c), "got": line, "want": want},
                        "(string->json %s) gave code points %s, RFC 8259 section 7 says %s" % (sstr(text(c)), line, want),
                        mk(c, c + 1, True), line)
            r.outcomes["json-escape:FAIL"] += 1
        else:
            r.outcomes["json-escape:ok:%d-byte" % len(chr(cp).encode("utf-8"))] += 1
    r.samples.append("string->json of %s" % text(0))
    return r


def job_json_u2(variant, his, los):
    """"\\uHHHH\\uLLLL" for every (h, l) in his x los"""
    r = JobResult("json surrogate pairs %d x %d from %04x" % (len(his), len(los), his[0]), variant)
    base = (JSON_IMPORTS + PRE + "(define UPPER #f)\n" + ESC_PRE
            + "(define HI (vector %s))\n(define LO (vector %s))\n(define NL %d)\n" % (" ".join(map(str, his)), " ".join(map(str, los)), len(los))
            + '(define (case-at c) (show-cps (string-append "\\"\\\\u" (hex4 (vector-ref HI (quotient c NL))) "\\\\u" '
              '(hex4 (vector-ref LO (remainder c NL))) "\\"")))\n')

    def mk(s, e, fl):
        return base + loop(s, e, fl)

    def pair(c):
        return his[c // len(los)], los[c % len(los)]

    def text(c):
        return '"\\u%04x\\u%04x"' % pair(c)

    lines, events = run_cases(variant, mk, len(his) * len(los), "c19jp")
    r.events(events, "json", text, lambda c: mk(c, c + 1, True))
    for c, line in enumerate(lines):
        if line is None:
            continue
        r.n += 1
        r.nontrivial += 1
        h, l = pair(c)
        kind, ref = M.json_ref(text(c))
        if kind != "ok":
            r.outcomes["json-pair:%s(open):%s" % (ref if kind == "open" else "invalid", "E" if line == "E" else "v")] += 1
            continue
        want = cps(ref)
        if line != want:
            r.violation("json-read-surrogate-pair", {"text": text(c), "got": line, "want": want},
                        "(string->json %s) gave code points %s, want %s" % (sstr(text(c)), line, want), mk(c, c + 1, True), line)
            r.outcomes["json-pair:FAIL"] += 1
        else:
            r.outcomes["json-pair:ok"] += 1
    r.samples.append("string->json of %s" % text(0))
    return r


def job_json_esc(variant):
    """"a\\Cb" for every byte C (the string is built from raw bytes, so C >= 128 gives malformed UTF-8)"""
    r = JobResult("json single-character escapes", variant)
    base = (JSON_IMPORTS + PRE + "(define UPPER #f)\n" + ESC_PRE
            + "(define (case-at i) (show-cps (utf8->string (bytevector 34 97 92 i 98 34))))\n")

    def mk(s, e, fl):
        return base + loop(s, e, fl)

    lines, events = run_cases(variant, mk, 256, "c19je")
    r.events(events, "json", lambda c: "\"a\\<byte %d>b\"" % c, lambda c: mk(c, c + 1, True))
    for c, line in enumerate(lines):
        if line is None:
            continue
        r.n += 1
        r.nontrivial += 1
        raw = bytes([34, 97, 92, c, 98, 34])
        try:
            kind, ref = M.json_ref(raw.decode("utf-8"))
        except UnicodeDecodeError:
            kind, ref = "bad", "not UTF-8"
        if kind != "ok":
            r.outcomes["json-esc1:invalid-text:" + ("E" if line == "E" else "v")] += 1
            continue
        want = cps(ref)
        if line != want:
            r.violation("json-read-escape", {"text": raw.decode(), "got": line, "want": want},
                        "(string->json %s) gave code points %s, RFC 8259 section 7 says %s" % (sstr(raw.decode()), line, want),
                        mk(c, c + 1, True), line)
            r.outcomes["json-esc1:FAIL"] += 1
        else:
            r.outcomes["json-esc1:ok"] += 1
    return r


NEST_DEPTHS = [1, 10, 100, 1000, 10000, 100000, 1000000]
NEST_SHAPES = [("array", "[", "]", "1"), ("object", "{\"a\":", "}", "1"), ("mixed", "[{\"a\":", "}]", "null")]


def job_json_nesting(variant):
    """nesting depth 10^0..10^6, complete and truncated texts through string->json, nested vectors/alists through
    json->string: a value or an error, never a crash (RFC 8259 section 9 allows a depth limit, i.e. an error)"""
    r = JobResult("json nesting depth up to 10^6", variant)
    cases = []
    for d in NEST_DEPTHS:
        for name, op, cl, leaf in NEST_SHAPES:
            cases.append(("read-complete", name, d))
            cases.append(("read-truncated", name, d))
        cases.append(("write-array", "array", d))
        cases.append(("write-object", "object", d))
    base = (JSON_IMPORTS + PRE + JSON_PRE + r"""
(define (rep s n) (let ((o (open-output-string))) (do ((i 0 (+ i 1))) ((= i n) (get-output-string o)) (write-string s o))))
(define (nest-vec n) (let lp ((i 0) (v 1)) (if (= i n) v (lp (+ i 1) (vector v)))))
(define (nest-obj n) (let lp ((i 0) (v 1)) (if (= i n) v (lp (+ i 1) (list (cons 'a v))))))
(define (depth-of x) (let lp ((x x) (n 0)) (cond ((and (vector? x) (= 1 (vector-length x))) (lp (vector-ref x 0) (+ n 1)))
                                                   ((and (pair? x) (pair? (car x))) (lp (cdar x) (+ n 1)))
                                                   (else n))))
(define CASES (vector %s))
(define (case-at i)
  (guard (x (#t (write-char #\E)))
    (let ((r ((vector-ref CASES i))))
      (cond ((string? r) (write-char #\s) (write (string-length r)))
            (else (write-char #\d) (write (depth-of r)))))))
""" % "\n".join(
        {"read-complete": "(lambda () (string->json (string-append (rep %s %d) %s (rep %s %d))))",
         "read-truncated": "(lambda () (string->json (rep %s %d)))",
         "write-array": "(lambda () (json->string (nest-vec %d)))",
         "write-object": "(lambda () (json->string (nest-obj %d)))"}[k] % (
            (sstr(dict((n, o) for n, o, c, l in NEST_SHAPES)[name]), d, sstr(dict((n, l) for n, o, c, l in NEST_SHAPES)[name]),
             sstr(dict((n, c) for n, o, c, l in NEST_SHAPES)[name]), d) if k == "read-complete" else
            (sstr(dict((n, o) for n, o, c, l in NEST_SHAPES)[name]), d) if k == "read-truncated" else (d,))
        for k, name, d in cases))

    def mk(s, e, fl):
        return base + loop(s, e, fl)

    lines, events = run_cases(variant, mk, len(cases), "c19jn", timeout=600, max_stops=60)
    r.events(events, "json-nesting", lambda c: "%s %s depth %d" % cases[c], lambda c: mk(c, c + 1, True))
    for c, line in enumerate(lines):
        if line is None:
            continue
        k, name, d = cases[c]
        r.n += 1
        r.nontrivial += 1
        mult = 2 if name == "mixed" else 1
        if k == "read-complete" and line not in ("E", "d%d" % (d * mult)):
            r.violation("json-read-nesting", {"shape": name, "depth": d, "got": line},
                        "string->json of %d nested %ss returned a value of depth %s" % (d, name, line), mk(c, c + 1, True), line)
        r.outcomes["json-nesting:%s:%s" % (k, "error" if line == "E" else "value")] += 1
    r.samples.append("string->json of 10^k '[' / '{\"a\":' with and without the closing half, json->string of 10^k nested vectors")
    return r


JSON_ALPHA = ["{", "}", "[", "]", ",", ":", '"', "\\", "-", "+", ".", "e", "E", "0", "1", "t", "r", "u", "n", "l", " ", "é"]
JSON_TOKENS = ["{", "}", "[", "]", ",", ":", '"a"', '""', '"\\u00e9\\n"', "1", "-0.5", "1e2", "12E-1", "true", "false", "null", " "]
JSON_TOKENS_SMALL = ["{", "}", "[", "]", ",", ":", '"a"', "1", "null", " "]


def job_json_texts(variant, which, ln, lo, hi):
    al = {"chars": JSON_ALPHA, "tokens": JSON_TOKENS, "tokens10": JSON_TOKENS_SMALL}[which]
    r = JobResult("json texts %s len=%d [%d,%d)" % (which, ln, lo, hi), variant)
    base = (JSON_IMPORTS + PRE + JSON_PRE + "(define AL (vector %s))\n" % " ".join(sstr(a) for a in al)
            + "(define (case-at i) (read-back (digits->string AL i %d)))\n" % ln)

    def mk(s, e, fl):
        return base + loop(lo + s, lo + e, fl)

    def text(c):
        return "".join(al[d] for d in idx_digits(len(al), lo + c, ln))

    lines, events = run_cases(variant, mk, hi - lo, "c19jt", timeout=1200)
    r.events(events, "json", lambda c: repr(text(c)), lambda c: mk(c, c + 1, True))
    for c, line in enumerate(lines):
        if line is None:
            continue
        r.n += 1
        t = text(c)
        kind, ref = M.json_ref(t)
        if kind != "ok":
            r.outcomes["json-text:%s:%s" % ("not-json" if kind == "bad" else "open", "rejected" if line == "E" else "accepted")] += 1
            continue
        r.nontrivial += 1
        got = M.parse_canon(line) if line != "E" else None
        if line != "E" and M.jeq(got, ref):
            r.outcomes["json-text:valid:equal"] += 1
        elif line != "E" and M.jeq(got, ref, 1e-9):
            r.outcomes["json-text:valid:equal-within-1e-9"] += 1
        else:
            isnum = isinstance(ref, (int, float)) and not isinstance(ref, bool)
            op = "json-read-number" if isnum else "json-read-text"
            r.violation(op, {"text": t, "got": line[:200], "want": jshow(ref)},
                        "(string->json %s) %s, but the text is valid RFC 8259 JSON for %s" % (
                            sstr(t), "raised an error" if line == "E" else "returned " + repr(got)[:100], jshow(ref)),
                        mk(c, c + 1, True), line)
            r.outcomes["json-text:valid:FAIL"] += 1
    if hi > lo:
        r.samples.append("string->json of %r" % text(hi - lo - 1))
    return r


# ================================================================== section csv (asan: pure Scheme, cheap)

CSV_IMPORTS = "(import (scheme base) (scheme write) (chibi csv))\n"

# name -> (spec datum, separator, quote, escape, documented row terminator)
CSV_GRAMMARS = {
    "default": ("'()", ",", '"', None, "\n"),
    "semicolon": ("'((separator-chars #\;))", ";", '"', None, "\n"),
    "single-quote": ("'((quote-char . #\\'))", ",", "'", None, "\n"),
    "backslash-escape": ("'((escape-char . #\\\\) (quote-doubling-escapes? . #f))", ",", '"', "\\", "\n"),
    "crlf": ("'((record-separator . crlf))", ",", '"', None, "\r\n"),
    "lf": ("'((record-separator . lf))", ",", '"', None, "\n"),
}

CSV_PRE = r"""
(define G (csv-grammar %s))
(define (show-rows rows)
  (if (list? rows)
      (for-each (lambda (row)
                  (write-char #\/)
                  (if (list? row)
                      (for-each (lambda (c) (write-char #\,) (if (string? c) (put-hex (string->utf8 c)) (write-char #\?))) row)
                      (write-char #\?)))
                rows)
      (write-char #\?)))
(define (case-at i)
  (let ((table (vector-ref TABLES i)))
    (guard (x (#t (write-char #\E) (sp) (write-char #\-)))
      (let ((text (let ((o (open-output-string))) ((csv-write (csv-writer G)) table o) (get-output-string o))))
        (put-hex (string->utf8 text)) (sp)
        (guard (x (#t (write-char #\E)))
          (show-rows (csv->list (csv-read->list (csv-parser G)) (open-input-string text))))))))
"""


def csv_tables(cells, max_rows):
    rows = [[a] for a in cells] + [[a, b] for a in cells for b in cells]
    out = []
    for n in range(1, max_rows + 1):
        out.extend([list(t) for t in itertools.product(rows, repeat=n)])
    return out


def parse_rows(s):
    rows = []
    for rs in s.split("/")[1:]:
        rows.append([binascii.unhexlify(c).decode("utf-8") if "?" not in c else None for c in rs.split(",")[1:]])
    return rows


def job_csv(variant, gname, cells, max_rows, lo, hi):
    spec, sep, quote, esc, term = CSV_GRAMMARS[gname]
    r = JobResult("csv %s tables[%d,%d)" % (gname, lo, hi), variant)
    tables = csv_tables(cells, max_rows)[lo:hi]
    lit = "\n".join("(" + " ".join("(" + " ".join(sstr(c) for c in row) + ")" for row in t) + ")" for t in tables)
    base = CSV_IMPORTS + PRE + "(define TABLES '#(%s))\n" % lit + CSV_PRE % spec

    def mk(s, e, fl):
        return base + loop(s, e, fl)

    lines, events = run_cases(variant, mk, len(tables), "c19csv")
    r.events(events, "csv", lambda c: repr(tables[c]), lambda c: mk(c, c + 1, True))
    for c, line in enumerate(lines):
        if line is None:
            continue
        t = tables[c]
        if any(row == [""] for row in t):
            # a record consisting of one empty field is written as an empty line, which CSV (RFC 4180 and the
            # library's reader, which documents "empty row, read again") cannot tell from no record at all
            r.excluded["csv: record with a single empty field is indistinguishable from a blank line"] += 1
            continue
        r.n += 1
        if any(any(ch in cell for ch in (sep, quote, "\n", "\r") + ((esc,) if esc else ())) for row in t for cell in row):
            r.nontrivial += 1
        f = fields(line)
        desc = {"grammar": gname, "table": json.dumps(t)}
        rp = mk(c, c + 1, True)
        if f[0] == "E":
            r.violation("csv-write", dict(desc, got="E"), "csv-write (%s grammar) of %s raised an error" % (gname, t), rp, line)
            r.outcomes["csv-%s:write-error" % gname] += 1
            continue
        text = binascii.unhexlify(f[0]).decode("utf-8")
        ok = True
        if gname in ("default", "crlf", "lf"):
            # independent reader: CPython csv, RFC 4180 dialect
            try:
                ref = [row for row in pycsv.reader(io.StringIO(text, newline=""), delimiter=sep, quotechar=quote, doublequote=True, strict=True)]
            except pycsv.Error as e:
                ref = "csv.Error: %s" % e
            if ref != t:
                ok = False
                r.violation("csv-write-illegal", dict(desc, got=text),
                            "csv-write (%s) of %s wrote %r, which an RFC 4180 reader takes as %s" % (gname, t, text, ref), rp, line)
        if gname == "crlf" and ok:
            # documented: 'crlf selects CR LF as the record separator
            if not text.endswith("\r\n"):
                ok = False
                r.violation("csv-grammar-record-separator", dict(desc, got=text),
                            "grammar ((record-separator . crlf)): csv-write of %s wrote %r; rows must end in CR LF" % (t, text), rp, line)
        if f[1] == "E" or parse_rows(f[1]) != t:
            if ok:
                r.violation("csv-roundtrip", dict(desc, text=text, got=f[1][:200]),
                            "csv (%s): %s written as %r and read back as %s" % (
                                gname, t, text, "an error" if f[1] == "E" else parse_rows(f[1])), rp, line)
            ok = False
        r.outcomes["csv-%s:%s" % (gname, "ok" if ok else "FAIL")] += 1
    if tables:
        r.samples.append("csv %s grammar: write then read %s" % (gname, tables[-1]))
    return r


# ================================================================== section acc: numeric accessors

ACC_PRE = r"""
(define (put-real r)
  (cond ((not (real? r)) (write-char #\?))
        ((nan? r) (write-string "nan"))
        ((infinite? r) (write-string (if (> r 0) "+inf" "-inf")))
        ((eqv? r -0.0) (write-string "-0"))
        (else (write (exact r)))))
(define (show x)
  (cond ((bytevector? x) (write-char #\b) (put-hex x))
        ((string? x) (write-char #\s) (put-hex (string->utf8 x)))
        ((and (number? x) (exact? x)) (write x))
        ((real? x) (put-real x))
        ((number? x) (put-real (real-part x)) (write-char #\i) (put-real (imag-part x)))
        ((pair? x) (write-char #\() (for-each (lambda (y) (show y) (write-char #\space)) x) (write-char #\)))
        ((null? x) (write-string "()"))
        ((boolean? x) (write x))
        (else (write-char #\?))))
(define BV (bytevector #x81 #x92 #xA3 #xB4 #xC5 #xD6 #xE7 #xF8 #x09 #x1A))
(define GUARD (make-bytevector 24 238))
;; run a mutator on a fresh copy of BV with a sentinel bytevector allocated right behind it
(define (mutate proc)
  (let* ((bv (bytevector-copy BV)) (nb (make-bytevector 24 238)))
    (proc bv)
    (%verif 'gc 0)          ; a write past the end of bv damages the next heap object: make the collector look at it now
    (show bv)
    (if (not (equal? nb GUARD)) (begin (write-string "!neighbour-clobbered:") (put-hex nb)))))
(define (run-case i)
  (write-char #\>)
  (guard (x (#t (write-char #\E))) ((vector-ref CASES i)))
  (newline))
(define (case-at i)
  (guard (x (#t (write-char #\E))) ((vector-ref CASES i))))
"""

BVBYTES = bytes([0x81, 0x92, 0xA3, 0xB4, 0xC5, 0xD6, 0xE7, 0xF8, 0x09, 0x1A])


def pshow(v):
    """mirror of the Scheme `show`"""
    if isinstance(v, bool):
        return "#t" if v else "#f"
    if isinstance(v, (bytes, bytearray)):
        return "b" + bytes(v).hex()
    if isinstance(v, int):
        return str(v)
    if isinstance(v, Fraction):
        return str(v.numerator) if v.denominator == 1 else "%d/%d" % (v.numerator, v.denominator)
    if isinstance(v, float):
        if math.isnan(v):
            return "nan"
        if math.isinf(v):
            return "+inf" if v > 0 else "-inf"
        if v == 0 and math.copysign(1, v) < 0:
            return "-0"
        return pshow(Fraction(v))
    if isinstance(v, complex):
        return pshow(v.real) + "i" + pshow(v.imag)
    if isinstance(v, list):
        return "(" + "".join(pshow(x) + " " for x in v) + ")" if v else "()"
    raise TypeError(v)


def sreal(v):
    """float -> Scheme expression denoting exactly that double"""
    if math.isnan(v):
        return "+nan.0"
    if math.isinf(v):
        return "+inf.0" if v > 0 else "-inf.0"
    if v == 0:
        return "-0.0" if math.copysign(1, v) < 0 else "0.0"
    m, e = math.frexp(v)
    mant = int(m * (1 << 53))
    e -= 53
    while mant % 2 == 0:
        mant //= 2
        e += 1
    if -60 <= e <= 60:
        return "(inexact %s)" % M.dyadic(v)
    e1 = e // 2
    # two exact scalings: the intermediate is a normal double, the product is representable by construction
    return "(* (* %d. (expt 2. %d)) (expt 2. %d))" % (mant, e1, e - e1)


class Case:
    __slots__ = ("expr", "want", "op", "desc", "risky", "why")

    def __init__(self, expr, want, op, desc, risky=False, why=""):
        self.expr = expr        # Scheme expression printing its own result
        self.want = want        # expected line, or None when the governing text leaves the case open
        self.op = op
        self.desc = desc
        self.risky = risky      # may touch memory out of bounds: gets a forked process of its own
        self.why = why


def int_lattice(bits, signed):
    if signed:
        lo, hi = -(1 << (bits - 1)), (1 << (bits - 1)) - 1
    else:
        lo, hi = 0, (1 << bits) - 1
    pat = int.from_bytes(bytes(range(1, bits // 8 + 1)), "big") if bits >= 8 else 1
    inr = sorted(set(v for v in [0, 1, 2, lo, lo + 1, hi - 1, hi, pat, -1, -2, (1 << (bits - 1)) - 1, 1 << (bits - 1) if bits > 1 else 1] if lo <= v <= hi))
    out = sorted(set([lo - 1, lo - 2, hi + 1, hi + 2, -(1 << bits), (1 << bits), (1 << bits) + 1, 1 << 64, (1 << 64) + 1, -(1 << 63) - 1, -(1 << 64)]) - set(inr))
    out = [v for v in out if not lo <= v <= hi]
    return inr, out


def r6rs_cases():
    """(scheme bytevector): R6RS (rnrs bytevectors) 2.4-2.8.  'k, ..., k+size-1 must be valid indices';
    'n must be in the interval'.  Alignment of the -native- procedures: only multiples of the size are asserted."""
    cs = []
    n = len(BVBYTES)
    for bits in (16, 32, 64):
        size = bits // 8
        for signed in (False, True):
            T = ("s" if signed else "u") + str(bits)
            inr, out = int_lattice(bits, signed)
            for native in (False, True):
                for end in (("little",) if native else ("big", "little")):
                    earg = "" if native else " '" + end
                    nm = "bytevector-%s-%sref" % (T, "native-" if native else "")
                    sm = "bytevector-%s-%sset!" % (T, "native-" if native else "")
                    for k in range(-1, n + 1):
                        valid = 0 <= k <= n - size
                        aligned = k % size == 0
                        d = {"proc": nm, "k": k, "len": n, "endianness": end}
                        if valid:
                            want = pshow(int.from_bytes(BVBYTES[k:k + size], end, signed=signed)) if (aligned or not native) else None
                            cs.append(Case("(show (%s BV %d%s))" % (nm, k, earg), want, "bytevector-ref", d))
                        else:
                            cs.append(Case("(show (%s BV %d%s))" % (nm, k, earg), "E", "bytevector-ref-bounds", d, risky=True,
                                           why="R6RS: k, ..., k+%d must be valid indices of the bytevector" % (size - 1)))
                        d = {"proc": sm, "k": k, "len": n, "endianness": end}
                        if valid and (aligned or not native):
                            if k in (0, 1, n - size):
                                for v in inr:
                                    exp = bytearray(BVBYTES)
                                    exp[k:k + size] = v.to_bytes(size, end, signed=signed)
                                    cs.append(Case("(mutate (lambda (bv) (%s bv %d %d%s)))" % (sm, k, v, earg), pshow(exp),
                                                   "bytevector-set", dict(d, value=v)))
                            if k == 0:
                                for v in out:
                                    cs.append(Case("(mutate (lambda (bv) (%s bv %d %d%s)))" % (sm, k, v, earg), "E",
                                                   "bytevector-set-value-range", dict(d, value=v),
                                                   why="R6RS: n must be an exact integer object in the interval of the type"))
                        elif not valid:
                            cs.append(Case("(mutate (lambda (bv) (%s bv %d 1%s)))" % (sm, k, earg), "E",
                                           "bytevector-set-bounds", dict(d, value=1), risky=True,
                                           why="R6RS: k, ..., k+%d must be valid indices of the bytevector" % (size - 1)))
    # 8-bit
    for k in range(-1, n + 1):
        valid = 0 <= k < n
        for nm, signed in (("bytevector-u8-ref", False), ("bytevector-s8-ref", True)):
            cs.append(Case("(show (%s BV %d))" % (nm, k), pshow(int.from_bytes(BVBYTES[k:k + 1], "big", signed=signed)) if valid else "E",
                           "bytevector-ref" if valid else "bytevector-ref-bounds", {"proc": nm, "k": k, "len": n}, risky=not valid,
                           why="R6RS: k must be a valid index"))
        for sm, signed in (("bytevector-u8-set!", False), ("bytevector-s8-set!", True)):
            inr, out = int_lattice(8, signed)
            if valid and k in (0, n - 1):
                for v in inr:
                    exp = bytearray(BVBYTES)
                    exp[k] = v & 255
                    cs.append(Case("(mutate (lambda (bv) (%s bv %d %d)))" % (sm, k, v), pshow(exp), "bytevector-set", {"proc": sm, "k": k, "value": v}))
                if k == 0:
                    for v in out:
                        cs.append(Case("(mutate (lambda (bv) (%s bv 0 %d)))" % (sm, v), "E", "bytevector-set-value-range",
                                       {"proc": sm, "k": 0, "value": v}, why="R6RS: octet / byte range"))
            elif not valid:
                cs.append(Case("(mutate (lambda (bv) (%s bv %d 1)))" % (sm, k), "E", "bytevector-set-bounds",
                               {"proc": sm, "k": k, "value": 1}, risky=True, why="R6RS: k must be a valid index"))
    # generic uint/sint
    for size in (1, 2, 3, 8, 9):
        for end in ("big", "little"):
            for k in range(-1, n + 1):
                valid = 0 <= k <= n - size
                for nm, signed in (("bytevector-uint-ref", False), ("bytevector-sint-ref", True)):
                    cs.append(Case("(show (%s BV %d '%s %d))" % (nm, k, end, size),
                                   pshow(int.from_bytes(BVBYTES[k:k + size], end, signed=signed)) if valid else "E",
                                   "bytevector-ref" if valid else "bytevector-ref-bounds",
                                   {"proc": nm, "k": k, "size": size, "endianness": end, "len": n}))
                for sm, signed in (("bytevector-uint-set!", False), ("bytevector-sint-set!", True)):
                    inr, out = int_lattice(8 * size, signed)
                    d = {"proc": sm, "k": k, "size": size, "endianness": end, "len": n}
                    if valid and k in (0, 1):
                        for v in inr:
                            exp = bytearray(BVBYTES)
                            exp[k:k + size] = v.to_bytes(size, end, signed=signed)
                            cs.append(Case("(mutate (lambda (bv) (%s bv %d %d '%s %d)))" % (sm, k, v, end, size), pshow(exp),
                                           "bytevector-set", dict(d, value=v)))
                        if k == 0 and end == "big":
                            for v in out[:6]:
                                cs.append(Case("(mutate (lambda (bv) (%s bv 0 %d '%s %d)))" % (sm, v, end, size), "E",
                                               "bytevector-set-value-range", dict(d, value=v),
                                               why="R6RS 2.5: n must be in the interval {0 .. 256^size-1} / two's complement range"))
                    elif not valid:
                        cs.append(Case("(mutate (lambda (bv) (%s bv %d 1 '%s %d)))" % (sm, k, end, size), "E",
                                       "bytevector-set-bounds", dict(d, value=1)))
    for nm in ("bytevector-uint-ref", "bytevector-sint-ref"):
        cs.append(Case("(show (%s BV 0 'big 0))" % nm, "E", "bytevector-ref-bounds", {"proc": nm, "size": 0},
                       why="R6RS: size must be a positive exact integer object"))
    # IEEE
    fl = [0.0, -0.0, 1.5, -1.5, 0.1, 16777217.0, 1e-310, 3.4028234663852886e38, 1.7976931348623157e308,
          float("inf"), float("-inf"), float("nan"), 5e-324, 1.401298464324817e-45]
    for prec, size, fmt in (("single", 4, "f"), ("double", 8, "d")):
        for native in (False, True):
            for end in (("little",) if native else ("big", "little")):
                earg = "" if native else " '" + end
                pf = (">" if end == "big" else "<") + fmt
                nm = "bytevector-ieee-%s-%sref" % (prec, "native-" if native else "")
                sm = "bytevector-ieee-%s-%sset!" % (prec, "native-" if native else "")
                for k in range(-1, n + 1):
                    valid = 0 <= k <= n - size
                    aligned = k % size == 0
                    d = {"proc": nm, "k": k, "len": n, "endianness": end}
                    if valid:
                        v = struct.unpack(pf, BVBYTES[k:k + size])[0]
                        cs.append(Case("(show (%s BV %d%s))" % (nm, k, earg), pshow(v) if (aligned or not native) else None,
                                       "bytevector-ieee-ref", d))
                    else:
                        cs.append(Case("(show (%s BV %d%s))" % (nm, k, earg), "E", "bytevector-ref-bounds", d, risky=True,
                                       why="R6RS 2.8: k, ..., k+%d must be valid indices" % (size - 1)))
                        cs.append(Case("(mutate (lambda (bv) (%s bv %d 1.5%s)))" % (sm, k, earg), "E", "bytevector-set-bounds",
                                       dict(d, proc=sm, value=1.5), risky=True,
                                       why="R6RS 2.8: k, ..., k+%d must be valid indices" % (size - 1)))
                k = 0 if native else 1
                for v in fl:
                    try:
                        packed = struct.pack(pf, v)
                    except OverflowError:
                        packed = None          # finite double beyond the single range: conversion not fixed by R6RS
                    exp = None
                    if packed is not None:
                        exp = bytearray(BVBYTES)
                        exp[k:k + size] = packed
                    wantset = None if (exp is None or math.isnan(v)) else pshow(exp)
                    cs.append(Case("(mutate (lambda (bv) (%s bv %d %s%s)))" % (sm, k, sreal(v), earg), wantset,
                                   "bytevector-ieee-set", {"proc": sm, "k": k, "value": repr(v), "endianness": end}))
                    if packed is not None:
                        back = struct.unpack(pf, packed)[0]
                        cs.append(Case("(show (let ((bv (bytevector-copy BV))) (%s bv %d %s%s) (%s bv %d%s)))" % (
                            sm, k, sreal(v), earg, nm, k, earg), pshow(back), "bytevector-ieee-roundtrip",
                            {"proc": sm + "/" + nm, "k": k, "value": repr(v), "endianness": end}))
    return cs


def job_acc_server(variant, which):
    """cases run through the fork server: every risky case in a process of its own"""
    cs = {"r6rs": r6rs_cases}[which]()
    r = JobResult("accessors %s (%d cases)" % (which, len(cs)), variant)
    d = common.scratch_dir("c19acc")
    pre = os.path.join(d, "prelude.scm")
    common.write_file(pre, "(import (scheme base) (scheme write) (scheme inexact) (scheme complex) (scheme bytevector))\n" + PRE + ACC_PRE
                      + "(define CASES (vector\n" + "\n".join("(lambda () %s)" % c.expr for c in cs) + "))\n")
    srv = None
    for attempt in range(8):
        try:
            srv = common.Server(variant, preludes=[pre])
        except (OSError, RuntimeError, common.HarnessError) as e:
            srv, why = None, str(e)
        else:
            if ";;EXC" not in srv.startup_output and "READ-EXC" not in srv.startup_output:
                break
            why = srv.startup_output[-1500:]
            srv.close()
            srv = None
        time.sleep(15)          # the variant is probably being rebuilt
    if srv is None:
        raise common.HarnessError("accessor prelude failed: " + why)
    got = {}
    crashes = {}

    def run(idxs):
        f = os.path.join(d, "run.scm")
        common.write_file(f, "".join("(run-case %d)\n" % i for i in idxs))
        # watchdog: the fork server has no time limit of its own, and a collector walking a damaged heap may spin.
        # The limit is on the CPU time of the forked child (a case needs milliseconds), so machine load cannot trip it.
        fired = []
        stop = threading.Event()
        cpu_limit = 3.0 if len(idxs) == 1 else 240.0

        def watchdog():
            tick = os.sysconf("SC_CLK_TCK")
            t0 = time.time()
            while not stop.wait(0.25):
                for pid in subprocess.run(["pgrep", "-P", str(srv.p.pid)], capture_output=True, text=True).stdout.split():
                    try:
                        st = open("/proc/%s/stat" % pid).read().rsplit(")", 1)[1].split()
                        cpu = (int(st[11]) + int(st[12])) / tick
                    except (OSError, IndexError, ValueError):
                        continue
                    if cpu > cpu_limit or time.time() - t0 > 900:
                        fired.append(cpu)
                        try:
                            os.kill(int(pid), 9)
                        except OSError:
                            pass

        th = threading.Thread(target=watchdog, daemon=True)
        th.start()
        try:
            res = srv.run(f)
        finally:
            stop.set()
            th.join()
        lines, tail = split_output(res.out)
        for i, l in zip(idxs, lines):
            got[i] = l
        if len(lines) < len(idxs) or res.rc != 0 or "ERROR: AddressSanitizer" in res.out:
            bad = idxs[min(len(lines), len(idxs) - 1)]
            got.pop(bad, None)
            crashes[bad] = ("watchdog" if fired else res.rc, tail[-1200:])
            return idxs[idxs.index(bad) + 1:]
        return []

    safe = [i for i, c in enumerate(cs) if not c.risky]
    CH = 400
    for lo in range(0, len(safe), CH):
        todo = safe[lo:lo + CH]
        while todo:
            todo = run(todo)
    for i, c in enumerate(cs):
        if c.risky:
            run([i])
    srv.close()
    shutil.rmtree(d, ignore_errors=True)
    judge_cases(r, cs, got, crashes, "(import (scheme base) (scheme write) (scheme inexact) (scheme complex) (scheme bytevector))\n")
    return r


def judge_cases(r, cs, got, crashes, imports):
    for i, c in enumerate(cs):
        replay = imports + PRE + ACC_PRE.replace("((vector-ref CASES i))", "(the-case)") \
            + "(define (the-case) %s)\n(run-case 0)\n" % c.expr
        if i in crashes:
            rc, tail = crashes[i]
            m = re.search(r"ERROR: AddressSanitizer: (\S+).*", tail)
            r.n += 1
            r.nontrivial += 1
            if rc == "watchdog":
                r.violation(c.op + "-hang", dict(c.desc, rc=rc, expr=c.expr),
                            "%s followed by a garbage collection did not terminate (killed after 3 s of CPU time; such a case "
                            "normally takes milliseconds): the store damaged the heap" % c.expr, replay)
                r.outcomes[c.op + ":hang"] += 1
                continue
            r.violation(c.op + "-crash", dict(c.desc, rc=rc, asan=m.group(0)[:200] if m else None, expr=c.expr),
                        "%s crashed the interpreter (rc=%s) %s" % (c.expr, rc, m.group(0)[:200] if m else tail[-200:]), replay)
            r.outcomes[c.op + ":crash"] += 1
            continue
        if i not in got:
            r.not_run += 1
            continue
        line = got[i]
        r.n += 1
        if c.want == "E" or c.risky or "value" in c.desc or c.desc.get("nt"):
            r.nontrivial += 1
        if c.want is None:
            r.outcomes[c.op + ":open:" + ("E" if line == "E" else "v")] += 1
            continue
        if line == c.want:
            r.outcomes[c.op + (":error-raised" if c.want == "E" else ":ok")] += 1
            continue
        r.outcomes[c.op + ":FAIL"] += 1
        what = "%s => %s, expected %s" % (c.expr, "an error" if line == "E" else line, "an error" if c.want == "E" else c.want)
        if c.why:
            what += " (" + c.why + ")"
        r.violation(c.op, dict(c.desc, got=line, want=c.want, expr=c.expr), what, replay, line)
    if cs:
        r.samples.append(cs[len(cs) // 2].expr)


def run_case_list(r, variant, cs, imports, tag):
    """cases that are memory-safe by construction of the library (bounds asserted in the stub): one batch, one
    top-level form per case (so an error that bypasses guard only loses that case), with crash localisation"""
    head = imports + PRE + ACC_PRE + r"""
(define FLUSH #f)
(define-syntax K
  (syntax-rules ()
    ((_ e) (begin (write-char #\>) (guard (x (#t (write-char #\E))) e) (newline) (if FLUSH (flush-output-port))))))
"""

    def mk(s, e, fl):
        return head + ("(set! FLUSH #t)\n" if fl else "") + "\n".join("(K %s)" % c.expr for c in cs[s:e]) + "\n"

    lines, events = run_cases(variant, mk, len(cs), tag)
    got = {i: l for i, l in enumerate(lines) if l is not None}
    crashes = {}
    for kind, idx, rc, tail in events:
        if kind == "escaped":
            got[idx] = "E"          # an error that bypassed guard is still an error
        elif kind != "gave-up" and 0 <= idx < len(cs):
            crashes[idx] = (rc, tail)
    judge_cases(r, cs, got, crashes, imports)


SRFI160_IMPORTS = ("(import (scheme base) (scheme write) (scheme inexact) (scheme complex) (srfi 160 base) (srfi 160 mini))\n")


def srfi160_cases():
    """SRFI 160: an out-of-range *value* 'is an error' (nothing asserted); an out-of-range index would be an access
    outside the vector, so an error is required for memory safety."""
    cs = []
    for T, bits, signed in (("u8", 8, False), ("s8", 8, True), ("u16", 16, False), ("s16", 16, True), ("u32", 32, False),
                            ("s32", 32, True), ("u64", 64, False), ("s64", 64, True)):
        inr, out = int_lattice(bits, signed)
        lo, hi = min(inr), max(inr)
        mk = "(%svector %d 1 %d)" % (T, lo, hi)
        for k in range(-1, 4):
            valid = 0 <= k < 3
            cs.append(Case("(show (%svector-ref %s %d))" % (T, mk, k), pshow([lo, 1, hi][k]) if valid else "E",
                           "uvector-ref" if valid else "uvector-ref-bounds", {"proc": T + "vector-ref", "k": k, "len": 3}))
            exp = [lo, 1, hi]
            if valid:
                exp[k] = 2
            cs.append(Case("(show (let ((v %s)) (%svector-set! v %d 2) (%svector->list v)))" % (mk, T, k, T),
                           pshow(exp) if valid else "E", "uvector-set" if valid else "uvector-set-bounds",
                           {"proc": T + "vector-set!", "k": k, "len": 3}))
        for v in inr + out:
            ok = v in inr
            cs.append(Case("(show (let ((v %s)) (%svector-set! v 1 %d) (%svector->list v)))" % (mk, T, v, T),
                           pshow([lo, v, hi]) if ok else None, "uvector-set" if ok else "uvector-set-value-range(open)",
                           {"proc": T + "vector-set!", "value": v}))
            cs.append(Case("(show (let ((v (list->%svector (list %d %d)))) (list (%svector-length v) (%svector->list v) (%s? %d))))" % (T, v, lo, T, T, T, v),
                           pshow([2, [v, lo], True]) if ok else None, "list->uvector" if ok else "list->uvector-value-range(open)",
                           {"proc": "list->%svector" % T, "value": v}))
            cs.append(Case("(show (%svector->list (make-%svector 2 %d)))" % (T, T, v), pshow([v, v]) if ok else None,
                           "make-uvector" if ok else "make-uvector-value-range(open)", {"proc": "make-%svector" % T, "value": v}))
    # u1
    for k in range(-1, 10):
        valid = 0 <= k < 9
        bitsv = [1, 0, 1, 1, 0, 0, 1, 0, 1]
        cs.append(Case("(show (u1vector-ref (u1vector 1 0 1 1 0 0 1 0 1) %d))" % k, pshow(bitsv[k]) if valid else "E",
                       "uvector-ref" if valid else "uvector-ref-bounds", {"proc": "u1vector-ref", "k": k, "len": 9}))
        exp = list(bitsv)
        if valid:
            exp[k] ^= 1
        cs.append(Case("(show (let ((v (u1vector 1 0 1 1 0 0 1 0 1))) (u1vector-set! v %d %d) (u1vector->list v)))" % (k, bitsv[k % 9] ^ 1 if valid else 1),
                       pshow(exp) if valid else "E", "uvector-set" if valid else "uvector-set-bounds",
                       {"proc": "u1vector-set!", "k": k, "len": 9}))
    # floats
    fl = [0.0, -0.0, 1.5, -1.5, 0.1, 16777217.0, 3.4028234663852886e38, float("inf"), float("-inf"), float("nan"), 1e-310, 5e-324]
    for T, fmt in (("f32", "<f"), ("f64", "<d")):
        for k in range(-1, 4):
            valid = 0 <= k < 3
            cs.append(Case("(show (%svector-ref (%svector 1.5 -2.5 0.5) %d))" % (T, T, k), pshow([1.5, -2.5, 0.5][k]) if valid else "E",
                           "uvector-ref" if valid else "uvector-ref-bounds", {"proc": T + "vector-ref", "k": k, "len": 3}))
            cs.append(Case("(show (let ((v (%svector 1.5 -2.5 0.5))) (%svector-set! v %d 4.) (%svector->list v)))" % (T, T, k, T),
                           pshow([4.0 if i == k else x for i, x in enumerate([1.5, -2.5, 0.5])]) if valid else "E",
                           "uvector-set" if valid else "uvector-set-bounds", {"proc": T + "vector-set!", "k": k, "len": 3}))
        for v in fl:
            back = struct.unpack(fmt, struct.pack(fmt, v))[0]
            cs.append(Case("(show (let ((v (make-%svector 2 0.))) (%svector-set! v 1 %s) (%svector->list v)))" % (T, T, sreal(v), T),
                           pshow([0.0, back]), "uvector-float-roundtrip", {"proc": T + "vector-set!/ref", "value": repr(v)}))
            cs.append(Case("(show (%svector->list (list->%svector (list %s))))" % (T, T, sreal(v)), pshow([back]),
                           "uvector-float-roundtrip", {"proc": "list->%svector" % T, "value": repr(v)}))
    for T, fmt in (("c64", "<f"), ("c128", "<d")):
        for k in range(-1, 3):
            valid = 0 <= k < 2
            cs.append(Case("(show (%svector-ref (%svector 1.5+2.5i -0.5-4i) %d))" % (T, T, k),
                           pshow([complex(1.5, 2.5), complex(-0.5, -4)][k]) if valid else "E",
                           "uvector-ref" if valid else "uvector-ref-bounds", {"proc": T + "vector-ref", "k": k, "len": 2}))
            cs.append(Case("(show (let ((v (%svector 1.5+2.5i -0.5-4i))) (%svector-set! v %d 8.+16.i) (%svector->list v)))" % (T, T, k, T),
                           pshow([complex(8, 16) if i == k else x for i, x in enumerate([complex(1.5, 2.5), complex(-0.5, -4)])]) if valid else "E",
                           "uvector-set" if valid else "uvector-set-bounds", {"proc": T + "vector-set!", "k": k, "len": 2}))
    # mini-float vectors: index bounds
    for T in ("f8", "f16"):
        for k in range(-1, 4):
            valid = 0 <= k < 3
            cs.append(Case("(show (%svector-ref (%svector 1.5 -2. 0.5) %d))" % (T, T, k), pshow([1.5, -2.0, 0.5][k]) if valid else "E",
                           "uvector-ref" if valid else "uvector-ref-bounds", {"proc": T + "vector-ref", "k": k, "len": 3}))
            cs.append(Case("(show (let ((v (%svector 1.5 -2. 0.5))) (%svector-set! v %d 4.) (%svector->list v)))" % (T, T, k, T),
                           pshow([4.0 if i == k else x for i, x in enumerate([1.5, -2.0, 0.5])]) if valid else "E",
                           "uvector-set" if valid else "uvector-set-bounds", {"proc": T + "vector-set!", "k": k, "len": 3}))
        # encoder totality on doubles outside the format (no governing text: nothing asserted beyond termination)
        for v in [1e300, -1e300, 1e-300, 57344.0, 65504.0, 65520.0, 61440.0, 1e5, 9.0, 0.1, 5e-324]:
            cs.append(Case("(show (let ((v (make-%svector 1 0.))) (%svector-set! v 0 %s) (%svector-ref v 0)))" % (T, T, sreal(v), T), None,
                           "minifloat-encode-any-double(open)", {"proc": T + "vector-set!", "value": repr(v)}))
    return cs


def job_acc_batch(variant, which):
    cs, imports = {"srfi160": (srfi160_cases, SRFI160_IMPORTS), "chibi": (chibi_bv_cases, CHIBI_BV_IMPORTS)}[which]
    cs = cs()
    r = JobResult("accessors %s (%d cases)" % (which, len(cs)), variant)
    run_case_list(r, variant, cs, imports, "c19" + which)
    return r


CHIBI_BV_IMPORTS = "(import (scheme base) (scheme write) (scheme inexact) (scheme complex) (chibi bytevector))\n"


def ber(n):
    out = [n & 127]
    n >>= 7
    while n:
        out.append(128 | (n & 127))
        n >>= 7
    return bytes(out[::-1])


def chibi_bv_cases():
    """(chibi bytevector): documented inverses (integer<->bytevector, BER, hex) and the fixed-width readers"""
    cs = []
    n = len(BVBYTES)
    for nm, size, end in (("bytevector-u16-ref-le", 2, "little"), ("bytevector-u16-ref-be", 2, "big"),
                          ("bytevector-u32-ref-le", 4, "little"), ("bytevector-u32-ref-be", 4, "big")):
        for k in range(-1, n + 1):
            valid = 0 <= k <= n - size
            cs.append(Case("(show (%s BV %d))" % (nm, k), pshow(int.from_bytes(BVBYTES[k:k + size], end)) if valid else "E",
                           "chibi-bytevector-ref" if valid else "chibi-bytevector-ref-bounds", {"proc": nm, "k": k, "len": n}))
    ints = [0, 1, 127, 128, 255, 256, 16383, 16384, 65535, 65536, 2 ** 31, 2 ** 32 - 1, 2 ** 32, 2 ** 62 - 1, 2 ** 62, 2 ** 63,
            2 ** 64 - 1, 2 ** 64, 2 ** 70, 2 ** 128 - 1, 0x0102030405060708090A]
    for v in ints:
        be = v.to_bytes(max(1, (v.bit_length() + 7) // 8), "big")
        cs.append(Case("(show (integer->bytevector %d))" % v, pshow(be), "integer->bytevector", {"value": v}))
        cs.append(Case("(show (bytevector->integer (integer->bytevector %d)))" % v, pshow(v), "integer-bytevector-roundtrip", {"value": v}))
        cs.append(Case("(show (bytevector->integer %s))" % sbytes(b"\0\0" + be), pshow(v), "bytevector->integer", {"value": v}))
        cs.append(Case("(show (let ((bv (make-bytevector 24 255))) (bytevector-ber-set! bv %d 1) (list (bytevector-copy bv 0 %d) (bytevector-ber-ref bv 1))))"
                       % (v, len(ber(v)) + 2), pshow([b"\xff" + ber(v) + b"\xff", v]), "ber-roundtrip", {"value": v}))
        if len(ber(v)) > 1:
            cs.append(Case("(show (let ((bv (make-bytevector 24 255))) (bytevector-ber-set! bv %d 0 %d) bv))" % (v, len(ber(v)) - 1), "E",
                           "ber-set-bounds", {"value": v}, why="documented: error \"integer doesn't fit in bytevector as ber\""))
        hx = "%x" % v
        hx = hx if len(hx) % 2 == 0 else "0" + hx
        cs.append(Case("(show (integer->hex-string %d))" % v, "s" + hx.encode().hex(), "integer->hex-string", {"value": v},
                       why="documented: big-endian, padded to even length"))
        cs.append(Case("(show (hex-string->integer (integer->hex-string %d)))" % v, pshow(v), "hex-integer-roundtrip", {"value": v}))
        cs.append(Case("(show (bytevector->hex-string %s))" % sbytes(b"\0" + be), "s" + (b"\0" + be).hex().encode().hex(),
                       "bytevector->hex-string", {"value": v}))
        if v:
            cs.append(Case("(show (hex-string->bytevector (bytevector->hex-string %s)))" % sbytes(be), pshow(be), "hex-bytevector-roundtrip", {"value": v}))
        for L in (0, len(be), len(be) + 1, len(be) + 3):
            cs.append(Case("(show (let ((p (bytevector-pad-left %s %d))) (list (bytevector-length p) (bytevector->integer p))))" % (sbytes(be), L),
                           pshow([max(L, len(be)), v]), "bytevector-pad-left", {"value": v, "len": L},
                           why="documented: padding is added to the left so as not to change the big-endian value"))
    # truncated BER input
    cs.append(Case("(show (bytevector-ber-ref (bytevector 129 130)))", "E", "ber-ref-bounds", {"input": "8182"},
                   why="documented: error \"unterminated ber integer\""))
    return cs


def job_minifloat(variant, T, lo, hi):
    """every code of the 8-bit 1.5.2 / 16-bit 1.5.10 format: value -> vector element -> value"""
    r = JobResult("mini-floats %s codes [%d,%d)" % (T, lo, hi), variant)
    valf = M.quarter_value if T == "f8" else M.half_value
    vals = [valf(c) for c in range(lo, hi)]
    lit = " ".join("#f" if math.isnan(v) else ("+inf.0" if v == math.inf else "-inf.0" if v == -math.inf else
                                               ("-0.0" if (v == 0 and math.copysign(1, v) < 0) else M.dyadic(v))) for v in vals)
    base = (SRFI160_IMPORTS + PRE + ACC_PRE + "(define VALS '#(%s))\n" % lit + r"""
(define vec (make-%(T)svector 3 0.))
(define (case-at i)
  (let* ((x (vector-ref VALS i)) (d (if x (inexact x) +nan.0)))
    (%(T)svector-set! vec 1 d)
    (put-real (%(T)svector-ref vec 1))
    (sp)
    (put-real (car (%(T)svector->list (list->%(T)svector (list d)))))))
""" % {"T": T})

    def mk(s, e, fl):
        return base + loop(s, e, fl)

    lines, events = run_cases(variant, mk, hi - lo, "c19mf")
    r.events(events, "minifloat", lambda c: "%s code %d" % (T, lo + c), lambda c: mk(c, c + 1, True))
    for c, line in enumerate(lines):
        if line is None:
            continue
        r.n += 1
        v = vals[c]
        if v != 0 and not math.isnan(v):
            r.nontrivial += 1
        want = pshow(v)
        f = line.split(" ")
        okz = lambda g: g == want or (want == "-0" and g == "0")       # the sign of zero is not asserted
        if len(f) == 2 and okz(f[0]) and okz(f[1]):
            r.outcomes["minifloat-%s:%s" % (T, "ok" if f[0] == want else "ok-but-sign-of-zero-lost")] += 1
        else:
            r.outcomes["minifloat-%s:FAIL" % T] += 1
            r.violation("minifloat-roundtrip", {"type": T, "code": lo + c, "value": repr(v), "got": line, "want": want},
                        "%svector: storing %r (code %d of the format) and reading it back gives %s (set!/ref, list->vector)" % (T, v, lo + c, line),
                        mk(c, c + 1, True), line)
    r.samples.append("%svector-set!/ref of %r" % (T, vals[len(vals) // 2]))
    return r


# ================================================================== section utf (asan)

UTF_ALPHA = [0x00, 0x41, 0x7F, 0x80, 0x81, 0x8F, 0x90, 0x9F, 0xA0, 0xBF, 0xC0, 0xC1, 0xC2, 0xDF, 0xE0, 0xE1, 0xED, 0xEE,
             0xEF, 0xF0, 0xF1, 0xF4, 0xF5, 0xF7, 0xF8, 0xFF]
UTF_ALPHA4 = [0x41, 0x80, 0x8F, 0x90, 0xBF, 0xC2, 0xE0, 0xED, 0xF0, 0xF4, 0xF5, 0xFF]

UTF_IMPORTS = "(import (scheme base) (scheme write) (scheme bytevector))\n"

UTF8_CASE = r"""
(define (walk s)      ; touch every character the way a consumer would
  (let ((n (string-length s)))
    (write n)
    (do ((i 0 (+ i 1))) ((or (= i n) (> i 8)))
      (write-char #\,) (write (char->integer (string-ref s i))))))
(define (case-at i)
  (let ((x (digits->bytes AL i LEN)))
    (guard (e (#t (write-char #\E)))
      (let ((s (utf8->string x)))
        (if (string? s)
            (begin (put-hex (string->utf8 s)) (sp)
                   (guard (e (#t (write-char #\E))) (walk s)) (sp)
                   (guard (e (#t (write-char #\E))) (put-hex (string->utf8 (string-copy s)))) (sp)
                   (guard (e (#t (write-char #\E))) (put-hex (string->utf8 (string-append s "!" s)))))
            (write-char #\?))))))
"""


def job_utf8(variant, al, ln, lo, hi):
    r = JobResult("utf8 len=%d |al|=%d [%d,%d)" % (ln, len(al), lo, hi), variant)
    base = UTF_IMPORTS + PRE + "(define AL (vector %s))\n(define LEN %d)\n" % (" ".join(map(str, al)), ln) + UTF8_CASE

    def mk(s, e, fl):
        return base + loop(lo + s, lo + e, fl)

    def inp(c):
        return bytes(al[d] for d in idx_digits(len(al), lo + c, ln))

    lines, events = run_cases(variant, mk, hi - lo, "c19utf")
    r.events(events, "utf8", lambda c: inp(c).hex(), lambda c: mk(c, c + 1, True))
    for c, line in enumerate(lines):
        if line is None:
            continue
        r.n += 1
        x = inp(c)
        try:
            s = x.decode("utf-8", "strict")
        except UnicodeDecodeError:
            s = None
        if s is None:
            # ill-formed input: only totality (a value or an error, no crash) is required
            r.outcomes["utf8:ill-formed:" + ("error" if line == "E" else "value")] += 1
            r.nontrivial += 1
            continue
        if any(b >= 0x80 for b in x):
            r.nontrivial += 1
        cpsx = [ord(ch) for ch in s]
        want = "%s %s %s %s" % (x.hex(), ",".join([str(len(s))] + [str(v) for v in cpsx[:9]]), x.hex(), (x + b"!" + x).hex())
        if line == want:
            r.outcomes["utf8:well-formed:ok:%d-chars" % len(s)] += 1
        else:
            r.outcomes["utf8:well-formed:FAIL"] += 1
            r.violation("utf8-roundtrip", {"input": x.hex(), "got": line, "want": want},
                        "utf8->string of well-formed %s (U+%s): bytes/length+code points/copy/append = %s, expected %s" % (
                            x.hex(), " U+".join("%04X" % v for v in cpsx), line, want), mk(c, c + 1, True), line)
    if hi > lo:
        r.samples.append("utf8->string/string->utf8 on bytes %s" % inp(hi - lo - 1).hex())
    return r


UTF_CPS = [0x0, 0x41, 0x7F, 0x80, 0x7FF, 0x800, 0xD7FF, 0xE000, 0xFEFF, 0xFFFD, 0xFFFF, 0x10000, 0x1F600, 0x10FFFF]


def job_utfn(variant, max_len):
    """string->utf8 / utf16 / utf32 and back on every string of length <= max_len over a code point lattice;
    utf16->string / utf32->string totality on every byte string <= 4 over surrogate / BOM bytes"""
    strs = [""]
    for n in range(1, max_len + 1):
        strs += ["".join(map(chr, t)) for t in itertools.product(UTF_CPS, repeat=n)]
    cs = []
    for s in strs:
        lit = "(S%s)" % "".join(" %d" % ord(ch) for ch in s)     # built from code points, not read as a literal
        d = {"string": [hex(ord(ch)) for ch in s], "nt": any(ord(ch) >= 0x80 for ch in s)}
        u8 = s.encode("utf-8")
        cs.append(Case("(show (string->utf8 %s))" % lit, pshow(u8), "string->utf8", d))
        cs.append(Case("(show (equal? %s (utf8->string (string->utf8 %s))))" % (lit, lit), "#t", "utf8-roundtrip", d))
        if len(s) >= 2:
            k = len(s[0].encode("utf-8"))
            cs.append(Case("(show (list (string->utf8 %s 1) (utf8->string %s %d)))" % (lit, sbytes(u8), k),
                           pshow([s[1:].encode("utf-8"), s[1:].encode("utf-8")]).replace("b" + s[1:].encode("utf-8").hex() + " )", "s" + s[1:].encode("utf-8").hex() + " )"),
                           "utf8-slices", d))
        for end, sfx in (("big", "be"), ("little", "le")):
            u16 = s.encode("utf-16-" + sfx)
            u32 = s.encode("utf-32-" + sfx)
            cs.append(Case("(show (string->utf16 %s '%s))" % (lit, end), pshow(u16), "string->utf16", dict(d, endianness=end),
                           why="R6RS 2.9: UTF-16 encoding, surrogate pairs for supplementary characters, no BOM"))
            cs.append(Case("(show (string->utf32 %s '%s))" % (lit, end), pshow(u32), "string->utf32", dict(d, endianness=end)))
            cs.append(Case("(show (equal? %s (utf16->string %s '%s #t)))" % (lit, sbytes(u16), end), "#t", "utf16->string", dict(d, endianness=end),
                           why="R6RS 2.9: decodes surrogate pairs"))
            cs.append(Case("(show (equal? %s (utf32->string %s '%s #t)))" % (lit, sbytes(u32), end), "#t", "utf32->string", dict(d, endianness=end)))
        if s and s[0] != "﻿":
            cs.append(Case("(show (equal? %s (utf16->string (string->utf16 %s))))" % (lit, lit), "#t", "utf16-roundtrip", d))
            cs.append(Case("(show (equal? %s (utf32->string (string->utf32 %s))))" % (lit, lit), "#t", "utf32-roundtrip", d))
    hb = [0x00, 0x41, 0xD8, 0xDB, 0xDC, 0xDF, 0xFE, 0xFF]
    for n in range(0, 5):
        for t in itertools.product(hb, repeat=n):
            x = bytes(t)
            for proc in ("utf16->string", "utf32->string"):
                for args in (" 'big", " 'little #t"):
                    cs.append(Case("(let ((s (%s %s%s))) (write (string-length s)) (sp) (put-hex (string->utf8 s)))" % (proc, sbytes(x), args),
                                   None, proc + "-hostile(open)", {"input": x.hex()}))
    r = JobResult("utf8/16/32 on %d strings + hostile utf16/32 (%d cases)" % (len(strs), len(cs)), variant)
    run_case_list(r, variant, cs, UTF_IMPORTS.replace("(scheme write)", "(scheme write) (scheme inexact) (scheme complex)")
                  + "(define (S . cps) (list->string (map integer->char cps)))\n", "c19utfn")
    return r


# ================================================================== job table and driver

SPECIALS = [0, 10, 13, 32, 43, 47, 61, 127, 128, 255]
ALL256 = list(range(256))


def chunks(n, size):
    return [(lo, min(n, lo + size)) for lo in range(0, n, size)]


def jobs_for(tier):
    """-> list of (section, function name, args); heavy sections are listed so that the thorough-only exhaustive
    length-3 family comes last (it is the part a deadline may cut)"""
    q = tier == "quick"
    J = []
    # ---- hostile decoders (asan)
    maxlen = 5 if q else 6
    for name, per in (("H", 20000), ("Q", 50000), ("U", 50000)):
        for ln in range(maxlen, -1, -1):
            for lo, hi in chunks(10 ** ln, per):
                J.append(("hostile", "job_hostile", ("asan", name, ln, lo, hi)))
    # ---- encoders (opt)
    for ln in range(6, 2, -1):          # lengths 0..2 are contained in the all-256 families below
        for lo, hi in chunks(10 ** ln, 40000):
            J.append(("enc", "job_enc", ("opt", SPECIALS, ln, lo, hi, True)))
    for lo, hi in chunks(65536, 8192):
        J.append(("enc", "job_enc", ("opt", ALL256, 2, lo, hi, False)))
    J.append(("enc", "job_enc", ("opt", ALL256, 1, 0, 256, False)))
    J.append(("enc", "job_enc", ("opt", ALL256, 0, 0, 1, False)))
    for p in range(4):
        J.append(("enc", "job_enclen", ("opt", p, lengths_for(tier))))
    J.append(("enc", "job_qpport", ("opt",)))
    J.append(("enc", "job_uriwide", ("asan",)))
    # ---- json (asan)
    if q:
        n2 = len(M.level2(True))
        J.append(("json", "job_json_values", ("asan", False, None, 0, 0)))
        for shape in (1, 3):
            for lo, hi in chunks(n2, 60):
                J.append(("json", "job_json_values", ("asan", True, shape, lo, hi)))
        for shape in (0, 2):
            J.append(("json", "job_json_values", ("asan", True, shape, 0, n2)))
    else:
        n2 = len(M.level2(False))
        J.append(("json", "job_json_values", ("asan", False, None, 0, 0)))
        for shape in (1, 3):
            for lo, hi in chunks(n2, 46):
                J.append(("json", "job_json_values", ("asan", False, shape, lo, hi)))
        for shape in (0, 2):
            J.append(("json", "job_json_values", ("asan", False, shape, 0, n2)))
    for upper in (False, True):
        for lo, hi in chunks(65536, 16384):
            J.append(("json", "job_json_u1", ("asan", upper, lo, hi)))
    allhi = list(range(0xD800, 0xDC00))
    alllo = list(range(0xDC00, 0xE000))
    nonlo = [0x0041, 0xD7FF, 0xD800, 0xDBFF, 0xE000, 0xFFFF]
    if q:
        his = sorted(set([0xD800, 0xD801, 0xD83D, 0xDBFE, 0xDBFF] + [0xD800 + (1 << k) for k in range(10)] + [0xD800 + 0x155]))
        los = sorted(set([0xDC00, 0xDC01, 0xDE00, 0xDFFE, 0xDFFF] + [0xDC00 + (1 << k) for k in range(10)] + [0xDC00 + 0x2AA]))
        J.append(("json", "job_json_u2", ("asan", his, alllo + nonlo)))
        for lo, hi in chunks(1024, 512):
            J.append(("json", "job_json_u2", ("asan", allhi[lo:hi], los + nonlo)))
    else:
        for lo, hi in chunks(1024, 32):
            J.append(("json", "job_json_u2", ("asan", allhi[lo:hi], alllo + nonlo)))
    J.append(("json", "job_json_esc", ("asan",)))
    J.append(("json", "job_json_nesting", ("asan",)))
    for ln in range(4 if q else 5, -1, -1):
        for lo, hi in chunks(len(JSON_ALPHA) ** ln, 60000):
            J.append(("json", "job_json_texts", ("asan", "chars", ln, lo, hi)))
    for ln in range(4 if q else 5, -1, -1):
        for lo, hi in chunks(len(JSON_TOKENS) ** ln, 60000):
            J.append(("json", "job_json_texts", ("asan", "tokens", ln, lo, hi)))
    if not q:
        for lo, hi in chunks(len(JSON_TOKENS_SMALL) ** 6, 60000):
            J.append(("json", "job_json_texts", ("asan", "tokens10", 6, lo, hi)))
    # ---- csv
    for g, (spec, sep, quote, esc, term) in CSV_GRAMMARS.items():
        cells = ["", "a", sep, quote, "\n", "é"] + ([esc] if esc else [])
        if g == "default":
            cells = cells + ["\r", "a\rb"]          # a bare carriage return inside a field must be quoted by the writer too
        J.append(("csv", "job_csv", ("asan", g, cells, 2, 0, 10 ** 9)))
    if not q:
        cells = ["", "a", ",", '"', "\n", "é"]
        ntab = len(csv_tables(cells, 3))
        # chunks of 2000 tables: the interpreter takes super-linear time to load a larger quoted literal
        for lo, hi in chunks(ntab, 2000):
            if hi > 1806:          # the first 1806 tables are the <= 2-row ones above
                J.append(("csv", "job_csv", ("asan", "default", cells, 3, max(lo, 1806), hi)))
        cells9 = cells + ["\r", " ", 'a"b,c']
        for lo, hi in chunks(len(csv_tables(cells9, 2)), 2000):
            J.append(("csv", "job_csv", ("asan", "default", cells9, 2, lo, hi)))
    # ---- accessors
    J.append(("acc", "job_acc_server", ("asan", "r6rs")))
    J.append(("acc", "job_acc_batch", ("asan", "srfi160")))
    J.append(("acc", "job_acc_batch", ("asan", "chibi")))
    J.append(("acc", "job_minifloat", ("asan", "f8", 0, 256)))
    for lo, hi in chunks(65536, 8192):
        J.append(("acc", "job_minifloat", ("asan", "f16", lo, hi)))
    # ---- utf
    J.append(("utf", "job_utfn", ("asan", 2)))
    if not q:
        for lo, hi in chunks(26 ** 4, 60000):
            J.append(("utf", "job_utf8", ("asan", UTF_ALPHA, 4, lo, hi)))
    J.append(("utf", "job_utf8", ("asan", UTF_ALPHA4, 4, 0, 12 ** 4)))
    for ln in (3, 2, 1, 0):
        J.append(("utf", "job_utf8", ("asan", UTF_ALPHA, ln, 0, 26 ** ln)))
    # ---- thorough only: every byte string of length 3 (1.7e7), last
    if not q:
        for lo, hi in chunks(256 ** 3, 65536):
            J.append(("enc", "job_enc", ("opt", ALL256, 3, lo, hi, True)))
    return J


def run_job(job):
    section, fn, args = job
    try:
        r = globals()[fn](*args)
        r.section = section
        return r
    except common.HarnessError as e:
        r = JobResult("%s%r" % (fn, args[:5]), args[0])
        r.section = section
        r.harness_error = str(e)[-1500:]
        return r


def first_line(out):
    got, _ = split_output(out + "\n")
    return got[0] if got else None


def confirm_alone(v):
    """rule 4: run the minimal replay in a fresh process and see whether the same line comes out"""
    desc, what, replay = v
    if not replay or "got_line" not in desc:
        return None
    d = common.scratch_dir("c19cf")
    path = os.path.join(d, "replay.scm")
    common.write_file(path, replay)
    res = evalbatch_retry(desc.get("variant", "asan"), [path], timeout=300, cwd=d)
    shutil.rmtree(d, ignore_errors=True)
    return first_line(res.out) == desc["got_line"]


def main(tier, replay=None):
    chk = Check("C19", "exploration", tier, quick_s=150, thorough_s=1150)
    chk.clean_replays()
    chk.max_reported = 80
    chk.rule = ("bounded-exhaustive families (see cov.sections): byte strings <=2 over all 256 values and <=6 over 10 special "
                "bytes (thorough: all 2^24 of length 3) plus 4 patterns at every length 0..100 and chunk-boundary lengths "
                "through every encoder variant; every string <=5 (thorough 6) over three 10-symbol hostile alphabets through "
                "every decoder; JSON values of depth <=3, all \\uXXXX, surrogate pairs (thorough: all 2^20), all texts <=4/5 over "
                "22 characters and <=4/5(6) over 17(10) tokens; CSV tables <=2x2 (3x2); accessor x endianness x offset -1..len x "
                "value lattice; all 256+65536 mini-float codes; UTF-8 byte strings <=3(4) over 26 bytes.  distinct_nontrivial = "
                "cases whose input needs an escape / padding / multi-byte sequence / boundary offset or value, or (hostile and "
                "JSON-text families) are RFC-valid texts or any hostile string")
    chk.assumptions = [
        "oracles: CPython base64, quopri, urllib.parse, json (strict, no NaN/Infinity, duplicate names and unpaired surrogates treated as open), csv, struct, int.from_bytes",
        "governing texts: RFC 4648, RFC 2045 6.7, RFC 2047, RFC 3986 2, RFC 8259, RFC 4180, R6RS-lib 2 (bytevectors), SRFI 160, library doc comments",
        "SRFI 160 out-of-range element values and ill-formed UTF-8/UTF-16 input are 'an error'/unspecified: only termination without a sanitizer report is required",
        "a CSV record consisting of one empty field is excluded (indistinguishable from a blank line)",
        "hostile-input and C-codec parts run on the AddressSanitizer build, bulk round trips on the -O2 build; little-endian 64-bit host",
        "strings handed to the drivers are built from code points or ASCII literals (the reader mis-decodes the literal \"\\x80;\", outside this property)",
    ]
    variants = ["opt", "asan"]
    for v in variants:
        build.build_variant(v)
    jobs = jobs_for(tier)
    if chk.seed:
        import random
        random.Random(chk.seed).shuffle(jobs)
    log("C19 %s: %d jobs" % (tier, len(jobs)))
    sections = {}
    viol = []
    viol_total = Counter()
    done = 0
    not_run = 0
    harness_errors = []
    worker_pids = []
    with Pool(common.NCPU) as pool:
        worker_pids = [w.pid for w in getattr(pool, "_pool", [])]
        for r in pool.imap_unordered(run_job, jobs, chunksize=1):
            done += 1
            sec = sections.setdefault(r.section, {"jobs": 0, "evaluations": 0, "nontrivial": 0})
            sec["jobs"] += 1
            sec["evaluations"] += r.n
            sec["nontrivial"] += r.nontrivial
            chk.evaluations += r.n
            chk.nontrivial_n += r.nontrivial
            for k, c in r.outcomes.items():
                chk.outcomes[k] += c
            for k, c in r.excluded.items():
                chk.excluded[k] += c
            for s in r.samples[:1]:
                if len([x for x in chk.samples if x.split(" ")[0] == s.split(" ")[0]]) < 2:
                    chk.sample(s, cap=14)
            viol.extend(r.viol)
            viol_total.update(r.viol_total)
            not_run += r.not_run
            if getattr(r, "harness_error", None):
                harness_errors.append((r.title, r.harness_error))
            if done % 25 == 0:
                log("C19 %s: %d/%d jobs, %d evaluations, %d violating cases" % (tier, done, len(jobs), chk.evaluations, sum(viol_total.values())))
            if chk.out_of_time():
                pool.terminate()
                log("deadline reached after %d/%d jobs" % (done, len(jobs)))
                break
    if harness_errors:
        for t, e in harness_errors[:3]:
            log("HARNESS problem in %s: %s" % (t, e[-400:]))
        raise common.HarnessError("%d jobs could not run: %s" % (len(harness_errors), harness_errors[0]))
    if not_run:
        chk.exhaustive = False
    # one representative per op first, so that replay files exist for every distinct op
    byop = {}
    for v in viol:
        byop.setdefault(v[0]["op"], []).append(v)
    ordered = []
    rank = 0
    while any(len(l) > rank for l in byop.values()) and rank < 3:
        for op in sorted(byop):
            if len(byop[op]) > rank:
                ordered.append(byop[op][rank])
        rank += 1
    firsts = [v for v in ordered[:len(byop) * 2]]
    conf = common.pmap(confirm_alone, firsts, workers=8) if firsts else []
    for v, ok in zip(firsts, conf):
        if ok is not None:
            v[0]["reproduced_in_fresh_process"] = bool(ok)
    for desc, what, rp in ordered:
        tag = desc.get("reproduced_in_fresh_process")
        if tag is True:
            what += "  [same result in a fresh process]"
        elif tag is False:
            what += "  [NOT reproduced in a fresh process: depends on earlier cases of the batch]"
        chk.violation(desc, what, rp)
    chk.cov["sections"] = sections
    chk.cov["jobs_completed"] = done
    chk.cov["jobs_total"] = len(jobs)
    chk.cov["violating_cases_by_op"] = dict(viol_total)
    chk.cov["violating_cases_total"] = int(sum(viol_total.values()))
    chk.cov["cases_not_run_after_repeated_crashes"] = not_run
    chk.cov["variants"] = variants
    common.cleanup_scratch()
    # scratch directories of workers that were terminated at the deadline
    if os.path.isdir(common.SCRATCH_ROOT):
        for f in os.listdir(common.SCRATCH_ROOT):
            if f.startswith("c19") and any("-%d-" % pid in f for pid in worker_pids):
                shutil.rmtree(os.path.join(common.SCRATCH_ROOT, f), ignore_errors=True)
    return chk.finish()


def replay(path):
    """re-run one recorded case; exit 1 when it still produces the recorded (violating) line"""
    meta = {}
    if os.path.exists(path + ".json"):
        meta = json.load(open(path + ".json"))
    variant = meta.get("variant", "asan")
    build.build_variant(variant)
    res = common.evalbatch(variant, [path], timeout=60 if "hang" in str(meta.get("op", "")) else 600)
    print(res.out)
    if res.timed_out:
        print("no termination within the time limit")
        return 1
    line = first_line(res.out)
    print("result line: %r" % line)
    if "got_line" in meta:
        print("recorded   : %r" % meta["got_line"])
        print("expectation: %s" % meta.get("what", ""))
        return 1 if line == meta["got_line"] or "AddressSanitizer" in res.out else 0
    return 1 if ("AddressSanitizer" in res.out or res.rc != 0) else 0


if __name__ == "__main__":
    sys.exit(main(sys.argv[1] if len(sys.argv) > 1 else "quick"))
