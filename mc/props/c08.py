"""C08 -- external representations round-trip; the native and the library reader/writer pairs agree.

Bounded-exhaustive enumeration on the real implementation (no sampling):
  * data spaces (doubles by bit pattern, every Unicode scalar value as char / 1-char string / 1-char symbol,
    all strings and symbols up to a length over a 20-character quoting alphabet, integer/rational lattices,
    a complex grid, small bytevectors, all trees up to a depth, all rooted graphs of <= n pair/vector nodes)
    are generated *inside Scheme by constructors* (never through the reader), written by every writer
    (native `write` of (chibi) == write-simple, (scheme write) `write`, `write-shared`), every distinct text is
    read by both readers (native `read`, (scheme read) `read`) and compared with the original with a
    structural comparison written in the driver (flonums by their 64 bits, graphs by isomorphism /
    bisimulation).  The relation is metamorphic: read(write(x)) ~ x.
  * reader agreement: ALL texts up to a length over a 30-symbol reader alphabet; a conservative Python
    recogniser of the R7RS 7.1 datum grammar says how many leading data of each text are certainly valid;
    on those both readers must return values that are structurally equal; on everything else only
    totality (value or error object; no crash, hang or sanitizer report) is required.
"""
import os, sys, re, itertools, struct, shutil, math, json
from fractions import Fraction
from multiprocessing import Pool

from .. import common, build
from ..common import Check, log
from ..models import nums

# ------------------------------------------------------------------------------------------------ Scheme side
PRELUDE = r"""
(import (scheme base) (scheme char) (scheme write) (scheme read) (scheme complex) (scheme inexact)
        (rename (only (chibi) read write) (read nread) (write nwrite))
        (only (scheme bytevector) bytevector-ieee-double-native-ref bytevector-ieee-double-native-set!
              bytevector-u32-native-ref bytevector-u32-native-set!))
(define (nws x) (let ((o (open-output-string))) (nwrite x o) (get-output-string o)))
(define (lws x) (let ((o (open-output-string))) (write x o) (get-output-string o)))
(define (lss x) (let ((o (open-output-string))) (write-shared x o) (get-output-string o)))
(define bvA (make-bytevector 8 0))
(define bvB (make-bytevector 8 0))
(define bvC (make-bytevector 8 0))
(define (dbl hi lo)
  (bytevector-u32-native-set! bvA 0 lo) (bytevector-u32-native-set! bvA 4 hi)
  (bytevector-ieee-double-native-ref bvA 0))
(define (flo-hi x) (bytevector-ieee-double-native-set! bvB 0 x) (bytevector-u32-native-ref bvB 4))
(define (flo-lo x) (bytevector-ieee-double-native-set! bvB 0 x) (bytevector-u32-native-ref bvB 0))
(define (nan-bits? hi lo)
  (and (= (remainder (quotient hi 1048576) 2048) 2047)
       (not (and (= (remainder hi 1048576) 0) (= lo 0)))))
(define (same-flo? a b)
  (bytevector-ieee-double-native-set! bvB 0 a)
  (bytevector-ieee-double-native-set! bvC 0 b)
  (let ((ah (bytevector-u32-native-ref bvB 4)) (al (bytevector-u32-native-ref bvB 0))
        (bh (bytevector-u32-native-ref bvC 4)) (bl (bytevector-u32-native-ref bvC 0)))
    (or (and (= ah bh) (= al bl))
        (and (nan-bits? ah al) (nan-bits? bh bl)))))
(define (flo? x) (and (number? x) (real? x) (inexact? x)))
(define (same-real? a b)
  (cond ((exact? a) (and (exact? b) (= a b) (eqv? a b)))
        (else (and (flo? b) (same-flo? a b)))))
(define (same-num? a b)
  (if (real? a)
      (and (real? b) (same-real? a b))
      (and (not (real? b))
           (same-real? (real-part a) (real-part b))
           (same-real? (imag-part a) (imag-part b)))))
(define (same-string? a b)
  (let lp ((x (string->list a)) (y (string->list b)))
    (cond ((null? x) (null? y))
          ((null? y) #f)
          (else (and (= (char->integer (car x)) (char->integer (car y))) (lp (cdr x) (cdr y)))))))
(define (same-bytes? a b)
  (and (= (bytevector-length a) (bytevector-length b))
       (let lp ((i 0)) (or (= i (bytevector-length a))
                           (and (= (bytevector-u8-ref a i) (bytevector-u8-ref b i)) (lp (+ i 1)))))))
;; structural equality on finite trees (terminates on acyclic data only)
(define (same? a b)
  (cond ((pair? a) (and (pair? b) (same? (car a) (car b)) (same? (cdr a) (cdr b))))
        ((vector? a) (and (vector? b) (= (vector-length a) (vector-length b))
                          (let lp ((i 0)) (or (= i (vector-length a))
                                              (and (same? (vector-ref a i) (vector-ref b i)) (lp (+ i 1)))))))
        ((string? a) (and (string? b) (same-string? a b)))
        ((bytevector? a) (and (bytevector? b) (same-bytes? a b)))
        ((symbol? a) (and (symbol? b) (eq? a b)))
        ((char? a) (and (char? b) (= (char->integer a) (char->integer b))))
        ((number? a) (and (number? b) (same-num? a b)))
        (else (eq? a b))))
(define (node? x) (or (pair? x) (and (vector? x) (> (vector-length x) 0))))
;; canonical first-visit serialisation of a rooted graph (isomorphism <=> equal serialisations)
(define (canon x)
  (let ((seen '()) (n 0) (out '()))
    (define (push! v) (set! out (cons v out)))
    (let walk ((x x))
      (cond ((node? x)
             (let ((p (assq x seen)))
               (if p
                   (begin (push! 'ref) (push! (cdr p)))
                   (begin (set! seen (cons (cons x n) seen)) (set! n (+ n 1))
                          (if (pair? x)
                              (begin (push! 'P) (walk (car x)) (walk (cdr x)))
                              (begin (push! 'V) (push! (vector-length x))
                                     (do ((i 0 (+ i 1))) ((= i (vector-length x))) (walk (vector-ref x i)))))))))
            ((and (vector? x) (= (vector-length x) 0)) (push! 'V0))
            (else (push! (list x)))))
    (reverse out)))
(define (canon=? a b)
  (cond ((null? a) (null? b))
        ((null? b) #f)
        ((pair? (car a)) (and (pair? (car b)) (same? (caar a) (caar b)) (canon=? (cdr a) (cdr b))))
        (else (and (eqv? (car a) (car b)) (canon=? (cdr a) (cdr b))))))
(define (iso? a b) (canon=? (canon a) (canon b)))
;; equality of the (possibly infinite) tree unfoldings
(define (bisim? a b)
  (let ((assumed '()))
    (let eq ((a a) (b b))
      (cond ((node? a)
             (and (node? b)
                  (or (let lp ((l assumed)) (and (pair? l) (or (and (eq? (caar l) a) (eq? (cdar l) b)) (lp (cdr l)))))
                      (begin
                        (set! assumed (cons (cons a b) assumed))
                        (if (pair? a)
                            (and (pair? b) (eq (car a) (car b)) (eq (cdr a) (cdr b)))
                            (and (vector? b) (= (vector-length a) (vector-length b))
                                 (let lp ((i 0)) (or (= i (vector-length a))
                                                     (and (eq (vector-ref a i) (vector-ref b i)) (lp (+ i 1)))))))))))
            ((node? b) #f)
            (else (same? a b))))))
(define (cyclic? x)
  (let ((stack '()) (done '()))
    (let walk ((x x))
      (cond ((not (node? x)) #f)
            ((memq x stack) #t)
            ((memq x done) #f)
            (else (set! stack (cons x stack))
                  (let ((r (if (pair? x)
                               (or (walk (car x)) (walk (cdr x)))
                               (let lp ((i 0)) (and (< i (vector-length x)) (or (walk (vector-ref x i)) (lp (+ i 1))))))))
                    (set! stack (cdr stack)) (set! done (cons x done)) r))))))
(define (shared? x)      ; some node reachable along two different paths (or a cycle)
  (let ((seen '()))
    (let walk ((x x))
      (cond ((not (node? x)) #f)
            ((memq x seen) #t)
            (else (set! seen (cons x seen))
                  (if (pair? x) (or (walk (car x)) (walk (cdr x)))
                      (let lp ((i 0)) (and (< i (vector-length x)) (or (walk (vector-ref x i)) (lp (+ i 1)))))))))))
(define hexdigits "0123456789abcdef")
(define (hex s)
  (let* ((bv (string->utf8 s)) (n (bytevector-length bv)) (o (open-output-string)))
    (do ((i 0 (+ i 1))) ((= i n) (get-output-string o))
      (let ((b (bytevector-u8-ref bv i)))
        (write-char (string-ref hexdigits (quotient b 16)) o)
        (write-char (string-ref hexdigits (remainder b 16)) o)))))
(define (join strs) (let lp ((l strs) (acc "")) (if (null? l) acc (lp (cdr l) (string-append acc " " (car l))))))
(define (num->expr x)
  (cond ((not (real? x)) (string-append "(make-rectangular " (num->expr (real-part x)) " " (num->expr (imag-part x)) ")"))
        ((exact? x) (number->string x))
        (else (string-append "(dbl " (number->string (flo-hi x)) " " (number->string (flo-lo x)) ")"))))
(define (->expr x)
  (cond ((null? x) "'()") ((eq? x #t) "#t") ((eq? x #f) "#f")
        ((char? x) (string-append "(integer->char " (number->string (char->integer x)) ")"))
        ((string? x) (string-append "(cps->string '(" (join (map (lambda (c) (number->string (char->integer c))) (string->list x))) "))"))
        ((symbol? x) (string-append "(string->symbol " (->expr (symbol->string x)) ")"))
        ((number? x) (num->expr x))
        ((bytevector? x) (string-append "(bytevector" (join (map number->string (let lp ((i (- (bytevector-length x) 1)) (acc '())) (if (< i 0) acc (lp (- i 1) (cons (bytevector-u8-ref x i) acc)))))) ")"))
        ((pair? x) (string-append "(cons " (->expr (car x)) " " (->expr (cdr x)) ")"))
        ((vector? x) (string-append "(vector" (join (map ->expr (vector->list x))) ")"))
        (else "?")))
(define (cps->string cps) (list->string (map integer->char cps)))
(define space "?")
(define cap 40)
(define counts '())
(define n-data 0) (define n-texts 0) (define n-reads 0) (define n-nontrivial 0)
(define (bump! key)
  (let ((p (assoc key counts)))
    (if p (begin (set-cdr! p (+ (cdr p) 1)) (cdr p))
        (begin (set! counts (cons (cons key 1) counts)) 1))))
(define (err-string e)
  (guard (x (#t "?"))
    (if (error-object? e)
        (let ((o (open-output-string)))
          (display (error-object-message e) o)
          (get-output-string o))
        "non-error-object")))
(define (safe-show y) (guard (e (#t "<unprintable>")) (nws y)))
(define (fail! kind cls w r text got descr)
  (let* ((key (string-append space ":" cls ":" kind ":" w ":" r)) (n (bump! key)))
    (if (<= n cap)
        (begin (display "F\t") (display key) (display "\t") (display (hex (guard (e (#t "<descr failed>")) (descr))))
               (display "\t") (display (if text (hex text) "-"))
               (display "\t") (display (if got (hex got) "-")) (newline)))))
(define-syntax try
  (syntax-rules () ((_ e) (guard (x (#t (cons 'err (err-string x)))) (cons 'ok e)))))
(define readers (list (cons "nr" nread) (cons "lr" read)))
;; wl: list of (name proc strong?) ; weak/strong: oracles (orig read-back) -> bool
(define (rest-empty? p)      ; nothing but white space is left unread
  (let ((c (read-char p))) (or (eof-object? c) (and (char-whitespace? c) (rest-empty? p)))))
(define (read-ok? rd text x oracle)
  (let* ((p (open-input-string text)) (v (rd p)))
    (and (not (eof-object? v)) (oracle x v) (rest-empty? p))))
;; fast path: no per-step guards; anything unexpected falls back to the attributing slow path below
(define (check-datum x cls wl weak strong descr)
  (if (guard (e (#t #f))
        (let lp ((wl wl) (texts '()) (strongs '()))
          (if (pair? wl)
              (let ((t ((cadr (car wl)) x)))
                (let find ((ts texts) (ss strongs))
                  (cond ((null? ts) (lp (cdr wl) (cons t texts) (cons (list (car (cddr (car wl)))) strongs)))
                        ((string=? (car ts) t) (if (car (cddr (car wl))) (set-car! (car ss) #t)) (lp (cdr wl) texts strongs))
                        (else (find (cdr ts) (cdr ss))))))
              (let chk ((ts texts) (ss strongs) (nt 0))
                (if (null? ts)
                    (begin (set! n-data (+ n-data 1)) (set! n-texts (+ n-texts nt)) (set! n-reads (+ n-reads (* 2 nt))) #t)
                    (let ((oracle (if (caar ss) strong weak)))
                      (and (read-ok? nread (car ts) x oracle)
                           (read-ok? read (car ts) x oracle)
                           (chk (cdr ts) (cdr ss) (+ nt 1)))))))))
      #t
      (check-datum-slow x cls wl weak strong descr)))
(define (check-datum-slow x cls wl weak strong descr)
  (set! n-data (+ n-data 1))
  (let lp ((wl wl) (texts '()))      ; texts: list of (text names strong?)
    (if (pair? wl)
        (let* ((w (car wl)) (r (try ((cadr w) x))))
          (cond ((eq? (car r) 'err)
                 (fail! "werr" cls (car w) "-" #f (cdr r) descr)
                 (lp (cdr wl) texts))
                ((assoc (cdr r) texts)
                 => (lambda (p)
                      (set-car! (cdr p) (string-append (cadr p) "+" (car w)))
                      (if (car (cddr w)) (set-car! (cddr p) #t))
                      (lp (cdr wl) texts)))
                (else (lp (cdr wl) (cons (list (cdr r) (car w) (car (cddr w))) texts)))))
        (for-each
         (lambda (t)
           (set! n-texts (+ n-texts 1))
           (for-each
            (lambda (rd)
              (set! n-reads (+ n-reads 1))
              (let ((r (try (let* ((p (open-input-string (car t))) (v ((cdr rd) p)))
                              (cons v (if (rest-empty? p) (eof-object) 'trailing-characters))))))
                (cond ((eq? (car r) 'err) (fail! "rerr" cls (cadr t) (car rd) (car t) (cdr r) descr))
                      ((eof-object? (cadr r)) (fail! "reof" cls (cadr t) (car rd) (car t) #f descr))
                      ((not (guard (e (#t #f)) ((if (car (cddr t)) strong weak) x (cadr r))))
                       (fail! "neq" cls (cadr t) (car rd) (car t) (safe-show (cadr r)) descr))
                      ((not (eof-object? (cddr r)))
                       (fail! "trail" cls (cadr t) (car rd) (car t) (safe-show (cddr r)) descr)))))
            readers))
         (reverse texts)))))
(define W3 (list (list "nw" nws #f) (list "lw" lws #f) (list "ls" lss #f)))
(define W2 (list (list "nw" nws #f) (list "lw" lws #f)))
(define (check-plain x cls) (check-datum x cls W3 same? same? (lambda () (->expr x))))
(define (check-atom x cls) (check-datum x cls W3 same? same? (lambda () (->expr x))))
(define (finish)
  (for-each (lambda (p) (display "N\t") (display (car p)) (display "\t") (display (cdr p)) (newline)) counts)
  (display "T\t") (display n-data) (display "\t") (display n-texts) (display "\t") (display n-reads)
  (display "\t") (display n-nontrivial) (newline)
  (display "END-OK") (newline))
(define (nslots t) (cond ((eq? t 'p) 2) ((eq? t 'v1) 1) (else 2)))
;; types: list of p / v1 / v2 ; slots: flat list, fixnum k = node k, (q . atom) = atom
(define (mkgraph types slots)
  (let* ((n (length types))
         (nodes (list->vector (map (lambda (t) (if (eq? t 'p) (cons #f #f) (make-vector (nslots t) #f))) types))))
    (let lp ((k 0) (ts types) (sl slots))
      (if (pair? ts)
          (let ((node (vector-ref nodes k)))
            (do ((j 0 (+ j 1)) (sl sl (cdr sl)))
                ((= j (nslots (car ts))) (lp (+ k 1) (cdr ts) sl))
              (let ((v (if (pair? (car sl)) (cdar sl) (vector-ref nodes (car sl)))))
                (cond ((pair? node) (if (= j 0) (set-car! node v) (set-cdr! node v)))
                      (else (vector-set! node j v))))))))
    (vector-ref nodes 0)))
;; self test of the harness primitives (a wrong `dbl` would make the double space vacuous)
(if (not (and (= (dbl #x3ff00000 0) 1) (= (dbl #x40590000 0) 100) (= (dbl #xc0000000 0) -2)
              (= (flo-hi 1.0) #x3ff00000) (= (flo-lo 1.0) 0)
              (same? '(a #(1 "x") . 2.5) (cons 'a (cons (vector 1 (string #\x)) 2.5)))
              (not (same? 1 1.0)) (not (same? 0.0 (- 0.0))) (not (same? "a" 'a))
              (let ((g (list 1 2))) (set-cdr! (cdr g) g)
                (and (cyclic? g) (iso? g g) (bisim? g (let ((h (list 1 2 1 2))) (set-cdr! (cdr (cddr h)) h) h))
                     (not (iso? g (let ((h (list 1 2 1 2))) (set-cdr! (cdr (cddr h)) h) h)))))))
    (begin (display "SELFTEST-FAILED") (newline))
    (begin (display "SELFTEST-OK") (newline)))
"""

# --- per-space drivers (appended to PRELUDE) ------------------------------------------------------------------

SCM_DOUBLES_GRID = r"""
(set! space "dbl")
(define MS '#(%(ms)s))
(define (dcls hi lo)
  (let ((e (remainder (quotient hi 1048576) 2048)))
    (cond ((= e 0) (if (and (= (remainder hi 1048576) 0) (= lo 0)) "zero" "subnormal"))
          ((= e 2047) (if (nan-bits? hi lo) "nan" "inf"))
          (else "normal"))))
(define (check-dbl hi lo)
  (let ((x (dbl hi lo)))
    (if (not (and (= (flo-hi x) hi) (= (flo-lo x) lo))) (if (not (nan-bits? hi lo)) (begin (display "SELFTEST-FAILED dbl") (newline))))
    (check-datum x (dcls hi lo) W3 same? same? (lambda () (string-append "(dbl " (number->string hi) " " (number->string lo) ")")))))
(do ((e %(elo)d (+ e 1))) ((= e %(ehi)d))
  (do ((k 0 (+ k 2))) ((= k (vector-length MS)))
    (check-dbl (+ (* e 1048576) (vector-ref MS k)) (vector-ref MS (+ k 1)))
    (check-dbl (+ 2147483648 (* e 1048576) (vector-ref MS k)) (vector-ref MS (+ k 1)))))
(finish)
"""

SCM_DOUBLES_LIST = r"""
(set! space "%(space)s")
(define BS '#(%(bits)s))
(define (dcls hi lo)
  (let ((e (remainder (quotient hi 1048576) 2048)))
    (cond ((= e 0) (if (and (= (remainder hi 1048576) 0) (= lo 0)) "zero" "subnormal"))
          ((= e 2047) (if (nan-bits? hi lo) "nan" "inf"))
          (else "normal"))))
(do ((k 0 (+ k 2))) ((= k (vector-length BS)))
  (let* ((hi (vector-ref BS k)) (lo (vector-ref BS (+ k 1))) (x (dbl hi lo)))
    (check-datum x (dcls hi lo) W3 same? same? (lambda () (string-append "(dbl " (number->string hi) " " (number->string lo) ")")))))
(finish)
"""

SCM_UNICODE = r"""
(set! space "uni")
(define (ucls form cp)
  (cond ((< cp 128) (string-append form "-a" (number->string cp)))
        ((< cp 2048) (string-append form "-u2"))
        ((< cp 65536) (string-append form "-u3"))
        (else (string-append form "-u4"))))
(do ((cp %(lo)d (+ cp 1))) ((= cp %(hi)d))
  (if (not (and (>= cp #xD800) (<= cp #xDFFF)))
      (let* ((c (integer->char cp)) (s (string c)) (y (string->symbol s)))
        (check-datum c (ucls "c" cp) W2 same? same? (lambda () (->expr c)))
        (check-datum s (ucls "s" cp) W2 same? same? (lambda () (->expr s)))
        (check-datum y (ucls "y" cp) W2 same? same? (lambda () (->expr y))))))
(finish)
"""

SCM_STRINGS = r"""
(set! space "str")
(define CS '#(48 49 43 45 46 105 110 97 101 124 92 35 34 40 32 9 10 0 233 128512))
(define (str-at len idx)
  (let lp ((i 0) (idx idx) (acc '()))
    (if (= i len) (list->string acc)
        (lp (+ i 1) (quotient idx 20) (cons (integer->char (vector-ref CS (remainder idx 20))) acc)))))
(define len %(len)d)
(do ((i %(lo)d (+ i 1))) ((= i %(hi)d))
  (let* ((s (str-at len i)) (y (string->symbol s)))
    (if (not (= (string-length s) len)) (begin (display "SELFTEST-FAILED str-at") (newline)))
    (check-datum s (string-append "s" (number->string len)) W3 same? same? (lambda () (->expr s)))
    (check-datum y (string-append "y" (number->string len)) W3 same? same? (lambda () (->expr y)))
    ;; how a symbol is tokenised depends on what surrounds it (delimiters, the dot of a dotted pair, the closing parenthesis of a
    ;; vector): every symbol also as a later element of a list, as the cdr of a pair, and as an element of a vector
    (let ((in-list (list 'x y 'z)) (in-cdr (cons y y)) (in-vec (vector y 'z)))
      (check-datum in-list (string-append "yl" (number->string len)) W3 same? same? (lambda () (->expr in-list)))
      (check-datum in-cdr (string-append "yd" (number->string len)) W3 same? same? (lambda () (->expr in-cdr)))
      (check-datum in-vec (string-append "yv" (number->string len)) W3 same? same? (lambda () (->expr in-vec))))))
(finish)
"""

SCM_LOOKALIKE = r"""
(set! space "look")
(for-each (lambda (s)
            (let ((y (string->symbol s)))
              (check-datum y "lookalike" W3 same? same? (lambda () (->expr y)))))
          (list %(names)s))
(finish)
"""


def lookalike_names():
    """names that differ from number / boolean syntax only in letter case, or sit next to it: every case variant"""
    bases = ["+inf.0", "-inf.0", "+nan.0", "-nan.0", "+i", "-i", "+inf.0i", "-nan.0i", "1e3", "1e+3", "#t", "#f", "#true", "#false",
             "+5i", "1+i", "1-2i", "inf.0", "nan.0", "+inf", "+inf.00", "+inf.0x", "+nan.0x", "#e1", "#x1f", "#b101", "1/2x", "0x1f", "1f3", "1d3", "1l3", "1s3"]
    out = []
    for b in bases:
        letters = [i for i, c in enumerate(b) if c.isalpha()]
        for mask in range(2 ** min(len(letters), 8)):
            cs = list(b)
            for k, i in enumerate(letters[:8]):
                if mask >> k & 1:
                    cs[i] = cs[i].upper()
            out.append("".join(cs))
    seen, uniq = set(), []
    for x in out:
        if x not in seen:
            seen.add(x)
            uniq.append(x)
    return uniq


SCM_NUMBERS = r"""
(set! space "num")
(define NS (list %(nums)s))
(define (ncls x) (cond ((not (exact? x)) "flo") ((integer? x) (if (< (abs x) 4611686018427387904) "fix" "big")) (else "ratio")))
(for-each (lambda (x)
            (check-plain x (ncls x))
            (check-plain (- x) (ncls x))
            (let ((f (guard (e (#t #f)) (inexact x))))
              (if (flo? f) (check-plain f "flo"))))
          NS)
;; complex grid built from parts (no numeric literals pass through the reader for the inexact parts)
(set! space "cpx")
(define PARTS (list 0 1 -1 1/2 (dbl #x3ff80000 0) (dbl #x80000000 0) (dbl #x7ff00000 0) (dbl #xfff00000 0) (dbl #x7ff80000 0)
                    (dbl 0 0) (dbl #xbff80000 0) -1/2 (dbl #x3fb99999 #x9999999a)))
(define (pcls p) (cond ((exact? p) "x") ((nan-bits? (flo-hi p) (flo-lo p)) "nan") ((= (remainder (quotient (flo-hi p) 1048576) 2048) 2047) "inf") (else "f")))
(for-each (lambda (re)
            (for-each (lambda (im)
                        (let ((z (make-rectangular re im)))
                          (check-datum z (string-append (pcls re) "," (pcls im)) W3 same? same?
                                       (lambda () (string-append "(make-rectangular " (num->expr re) " " (num->expr im) ")")))))
                      PARTS))
          PARTS)
;; bytevectors of length 0..4 over {0,1,127,128,255}
(set! space "bv")
(define BYTES '#(0 1 127 128 255))
(do ((len 0 (+ len 1))) ((= len 5))
  (do ((i 0 (+ i 1))) ((= i (expt 5 len)))
    (let ((bv (make-bytevector len 0)))
      (let lp ((k 0) (idx i)) (if (< k len) (begin (bytevector-u8-set! bv k (vector-ref BYTES (remainder idx 5))) (lp (+ k 1) (quotient idx 5)))))
      (check-plain bv (string-append "len" (number->string len))))))
(finish)
"""

SCM_TREES = r"""
(set! space "tree")
(define (for-tuples n k f)     ; f gets a list of k indices, every tuple in [0,n)^k
  (let rec ((k k) (acc '()))
    (if (= k 0) (f acc)
        (do ((i 0 (+ i 1))) ((= i n)) (rec (- k 1) (cons i acc))))))
(define (composites children B unary-cons emit)
  (let ((n (vector-length children)))
    (do ((k 0 (+ k 1))) ((> k B))
      (for-tuples n k (lambda (ix) (emit (map (lambda (i) (vector-ref children i)) ix))))
      (for-tuples n k (lambda (ix) (emit (list->vector (map (lambda (i) (vector-ref children i)) ix))))))
    (do ((i 0 (+ i 1))) ((= i n))
      (do ((j 0 (+ j 1))) ((= j n))
        (if (and (not (list? (vector-ref children j)))
                 (or (not unary-cons) (eq? (vector-ref children i) unary-cons) (eq? (vector-ref children j) unary-cons)))
            (emit (cons (vector-ref children i) (vector-ref children j))))))))
(define (level atoms children B unary-cons)
  (let ((acc (reverse (vector->list atoms))))
    (composites children B unary-cons (lambda (t) (set! acc (cons t acc))))
    (list->vector (reverse acc))))
(define level-total 0)
(define (level-slice atoms children B lo hi)     ; the elements lo..hi-1 of (level atoms children B #f), without retaining the rest
  (let ((acc '()) (i 0))
    (define (take t) (if (and (>= i lo) (< i hi)) (set! acc (cons t acc))) (set! i (+ i 1)))
    (vector-for-each take atoms)
    (composites children B #f take)
    (set! level-total i)
    (list->vector (reverse acc))))
(define (depth x)
  (cond ((pair? x) (let lp ((x x) (d 0)) (cond ((pair? x) (lp (cdr x) (max d (depth (car x))))) ((null? x) (+ d 1)) (else (+ 1 (max d (depth x)))))))
        ((vector? x) (+ 1 (let lp ((i 0) (d 0)) (if (= i (vector-length x)) d (lp (+ i 1) (max d (depth (vector-ref x i))))))))
        (else 0)))
(define A6 (vector 'a 1 (string #\s) (integer->char 120) (dbl #x3ff80000 0) #t))
(define A3 (vector 'a (dbl #x3ff80000 0) (string #\s)))
(define A2 (vector 'a 1))
(define A1 (vector 'a))
%(setup)s
(define (tcheck t)
  (if (>= (depth t) 2) (set! n-nontrivial (+ n-nontrivial 1)))
  (check-datum t (string-append "%(fam)s-" (cond ((pair? t) (if (list? t) "list" "dotted")) ((vector? t) "vec") ((null? t) "nil") (else "atom")))
               W3 same? same? (lambda () (->expr t))))
(define n (vector-length children))
(define (top-tuples make k)
  (if (= k 0)
      (if (= %(lo)d 0) (tcheck (make '())))
      (do ((i %(lo)d (+ i 1))) ((>= i (min n %(hi)d)))
        (for-tuples n (- k 1)
          (lambda (ix) (tcheck (make (cons (vector-ref children i) (map (lambda (j) (vector-ref children j)) ix)))))))))
(define kind '%(kind)s)
(cond ((eq? kind 'atoms) (vector-for-each tcheck atoms))
      ((eq? kind 'list) (top-tuples (lambda (l) l) %(k)d))
      ((eq? kind 'vec) (top-tuples list->vector %(k)d))
      ((eq? kind 'cons)
       (do ((i %(lo)d (+ i 1))) ((>= i (min n %(hi)d)))
         (do ((j 0 (+ j 1))) ((= j n))
           (if (not (list? (vector-ref children j)))
               (tcheck (cons (vector-ref children i) (vector-ref children j)))))))
      ((eq? kind 'unary)     ; (t) #(t) (t . a) (a . t) ; `children` is already the slice lo..hi-1
       (do ((i 0 (+ i 1))) ((>= i n))
         (let ((t (vector-ref children i)))
           (tcheck (list t)) (tcheck (vector t)) (tcheck (cons t 'a))
           (if (not (list? t)) (tcheck (cons 'a t)))))))
(display "CHILDREN\t") (display (if (eq? kind 'unary) level-total n)) (newline)
(finish)
"""

SCM_GRAPHS = r"""
(set! space "graph")
(define GW-cyc (list (list "lw" lws #f) (list "ls" lss #t)))
(define GW-acyc (list (list "nw" nws #f) (list "lw" lws #f) (list "ls" lss #t)))
(define n-cyclic 0) (define n-sharedonly 0) (define n-canon 0)
(define (gcheck types slots)
  (let* ((g (mkgraph types slots)) (cyc (cyclic? g)) (sh (shared? g)))
    (set! n-canon (+ n-canon 1))
    (cond (cyc (set! n-cyclic (+ n-cyclic 1)) (set! n-nontrivial (+ n-nontrivial 1)))
          (sh (set! n-sharedonly (+ n-sharedonly 1)) (set! n-nontrivial (+ n-nontrivial 1))))
    (check-datum g (string-append "n" (number->string (length types)) (cond (cyc "-cyclic") (sh "-shared") (else "-tree")))
                 (if cyc GW-cyc GW-acyc) bisim? iso?
                 (lambda () (string-append "(mkgraph '" (nws types) " '" (nws slots) ")")))))
(define (canonical? n tv sv offs)
  (let ((next 1) (ok #t) (visited (make-vector n #f)))
    (vector-set! visited 0 #t)
    (let walk ((k 0))
      (do ((j 0 (+ j 1))) ((or (not ok) (= j (nslots (vector-ref tv k)))))
        (let ((t (vector-ref sv (+ (vector-ref offs k) j))))
          (if (and (fixnum? t) (not (vector-ref visited t)))
              (if (= t next)
                  (begin (vector-set! visited t #t) (set! next (+ next 1)) (walk t))
                  (set! ok #f))))))
    (and ok (= next n))))
(define (fixnum? x) (and (number? x) (exact? x) (integer? x)))
%(body)s
(display "G\t") (display n-canon) (display "\t") (display n-cyclic) (display "\t") (display n-sharedonly) (newline)
(finish)
"""

# general family: every slot -> any node or an atom of its slot kind; only canonically numbered graphs are kept
SCM_GRAPH_GENERAL = r"""
(define types '%(types)s)
(define tv (list->vector types))
(define n (vector-length tv))
(define offs (let ((v (make-vector n 0))) (let lp ((k 0) (o 0)) (if (< k n) (begin (vector-set! v k o) (lp (+ k 1) (+ o (nslots (vector-ref tv k)))))) ) v))
(define total-slots (apply + (map nslots types)))
(define car-atoms '%(car_atoms)s) (define cdr-atoms '%(cdr_atoms)s) (define vec-atoms '%(vec_atoms)s)
;; per slot: list of atoms allowed
(define slot-atoms
  (list->vector (apply append (map (lambda (t) (if (eq? t 'p) (list car-atoms cdr-atoms) (if (eq? t 'v1) (list vec-atoms) (list vec-atoms vec-atoms)))) types))))
(define sv (make-vector total-slots 0))
(let lp ((idx %(lo)d))
  (if (< idx %(hi)d)
      (begin
        (let dec ((s 0) (r idx))
          (if (< s total-slots)
              (let* ((atoms (vector-ref slot-atoms s)) (radix (+ n (length atoms))) (c (remainder r radix)))
                (vector-set! sv s (if (< c n) c (cons 'q (list-ref atoms (- c n)))))
                (dec (+ s 1) (quotient r radix)))))
        (if (canonical? n tv sv offs) (gcheck types (vector->list sv)))
        (lp (+ idx 1)))))
"""

# spine family: k pairs p0..pk-1, cdr(pi)=pi+1, last cdr -> () or any pj ; car(pi) -> a or any pj   (up to k labels)
SCM_GRAPH_SPINE = r"""
(define k %(k)d)
(define types (let lp ((i 0) (acc '())) (if (= i k) acc (lp (+ i 1) (cons 'p acc)))))
(define radix (+ k 1))
(let lp ((idx %(lo)d))
  (if (< idx %(hi)d)
      (begin
        (let dec ((i 0) (r idx) (acc '()))
          (if (< i k)
              (let ((c (remainder r radix)))
                (dec (+ i 1) (quotient r radix)
                     (cons (if (< i (- k 1)) (+ i 1) (let ((t (remainder (quotient idx (expt radix k)) radix))) (if (< t k) t (cons 'q '()))))
                           (cons (if (< c k) c (cons 'q 'a)) acc))))
              (gcheck types (reverse acc))))
        (lp (+ idx 1)))))
"""

SCM_TEXTS = r"""
(set! space "text")
(define ALPHA '#(%(alpha)s))
(define NA (vector-length ALPHA))
(define (text-at len idx)
  (let lp ((i 0) (idx idx) (acc '()))
    (if (= i len) (list->string acc)
        (lp (+ i 1) (quotient idx NA) (cons (integer->char (vector-ref ALPHA (remainder idx NA))) acc)))))
(define (read-seq reader text)
  (let ((p (open-input-string text)))
    (let lp ((i 0) (acc '()))
      (if (= i 6) (reverse acc)
          (let ((r (try (reader p))))
            (cond ((eq? (car r) 'err) (reverse (cons 'err acc)))
                  ((eof-object? (cdr r)) (reverse (cons 'eof acc)))
                  (else (lp (+ i 1) (cons r acc)))))))))
(define (seq-same? a b)
  (cond ((null? a) (null? b)) ((null? b) #f)
        ((pair? (car a)) (and (pair? (car b)) (guard (e (#t #f)) (same? (cdar a) (cdar b))) (seq-same? (cdr a) (cdr b))))
        (else (and (eq? (car a) (car b)) (seq-same? (cdr a) (cdr b))))))
(define (show-seq s)
  (join (map (lambda (r) (cond ((pair? r) (safe-show (cdr r))) (else (symbol->string r)))) s)))
(define len %(len)d)
(define expect "%(expect)s")
(define trace %(trace)s)
(define n-agree 0) (define n-disagree 0) (define n-asserted 0)
(define (tfail kind text rn rl)
  (fail! (if (seq-same? rn rl) (string-append kind "(readers-agree-with-each-other)") kind) (string-append "len" (number->string len)) "-" "-" text (string-append "native:" (show-seq rn) " | library:" (show-seq rl)) (lambda () text)))
(do ((i %(lo)d (+ i 1))) ((= i %(hi)d))
  (if (or trace (= 0 (remainder i 64))) (begin (display "P\t") (display i) (newline) (flush-output-port)))
  (let* ((text (text-at len i))
         (code (- (char->integer (string-ref expect (- i %(lo)d))) 48))
         (k (quotient code 2)) (eofp (= 1 (remainder code 2)))
         (rn (read-seq nread text)) (rl (read-seq read text)))
    (set! n-data (+ n-data 1)) (set! n-reads (+ n-reads 2))
    (if (seq-same? rn rl) (set! n-agree (+ n-agree 1))
        (begin (set! n-disagree (+ n-disagree 1))
               (if (not (or (> k 0) eofp)) (tfail "na-disagree" text rn rl))))
    (if (or (> k 0) eofp)
        (begin
          (set! n-asserted (+ n-asserted 1))
          (let lp ((j 0) (a rn) (b rl))
            (cond ((< j k)
                   (cond ((or (null? a) (not (pair? (car a)))) (tfail "native-rejects" text rn rl))
                         ((or (null? b) (not (pair? (car b)))) (tfail "library-rejects" text rn rl))
                         ((not (guard (e (#t #f)) (same? (cdar a) (cdar b)))) (tfail "differ" text rn rl))
                         (else (lp (+ j 1) (cdr a) (cdr b)))))
                  (eofp
                   (cond ((or (null? a) (not (eq? (car a) 'eof))) (tfail "native-no-eof" text rn rl))
                         ((or (null? b) (not (eq? (car b) 'eof))) (tfail "library-no-eof" text rn rl))))))))))
(display "X\t") (display n-agree) (display "\t") (display n-disagree) (display "\t") (display n-asserted) (newline)
(finish)
"""

# ------------------------------------------------------------------------------------------------ recogniser
# Reader alphabet for the text-agreement space (30 symbols).
ALPHA = "()#'`,@\"\\|;.+-019aeixtfu8/ \n=b"
assert len(ALPHA) == 30 and len(set(ALPHA)) == 30
WS = " \n\t\r"
DELIM = set(' \n\t\r|()";')


class NotAsserted(Exception):
    """the text (from this point) is not certainly a valid R7RS datum: nothing is asserted"""


def _num_re(radix):
    d = {2: '[01]', 8: '[0-7]', 10: '[0-9]', 16: '[0-9a-f]'}[radix]
    uint = d + '+'
    if radix == 10:
        suffix = r'(?:e[+-]?[0-9]+)?'
        dec = r'(?:[0-9]+\.[0-9]*%s|\.[0-9]+%s|[0-9]+%s)' % (suffix, suffix, suffix)
        ureal = r'(?:%s/%s|%s)' % (uint, uint, dec)
    else:
        ureal = r'(?:%s/%s|%s)' % (uint, uint, uint)
    infnan = r'(?:[+-]inf\.0|[+-]nan\.0)'
    real = r'(?:[+-]?%s|%s)' % (ureal, infnan)
    imag = r'(?:[+-]%s|[+-]|%s)i' % (ureal, infnan)
    cplx = r'(?:%s@%s|%s%s|%s|%s)' % (real, real, real, imag, imag, real)
    return re.compile(cplx)


NUM_RE = {r: _num_re(r) for r in (2, 8, 10, 16)}
_INI = r'a-z!$%&*/:<=>?^_~'
_SUB = _INI + r'0-9+\-.@'
IDENT_RE = re.compile(r'(?:[%s][%s]*|[+-]|[+-][%s+\-@][%s]*|[+-]\.[%s+\-@.][%s]*|\.[%s+\-@.][%s]*)'
                      % (_INI, _SUB, _INI, _SUB, _INI, _SUB, _INI, _SUB))
CHAR_NAMES = {"alarm", "backspace", "delete", "escape", "newline", "null", "return", "space", "tab"}


def number_token(tok):
    """True if tok is certainly a valid R7RS <number>; raises NotAsserted for doubtful ones; False otherwise."""
    radix, exact, i = 10, None, 0
    seen_r = seen_e = False
    while tok.startswith('#', i):
        if i + 1 >= len(tok):
            return False
        c = tok[i + 1]
        if c in 'bodx' and not seen_r:
            radix = {'b': 2, 'o': 8, 'd': 10, 'x': 16}[c]
            seen_r = True
        elif c in 'ei' and not seen_e:
            exact = c
            seen_e = True
        else:
            return False
        i += 2
    body = tok[i:]
    if not NUM_RE[radix].fullmatch(body):
        return False
    for m in re.finditer(r'/([0-9a-f]+)', body):
        if int(m.group(1), radix) == 0:
            raise NotAsserted      # zero denominator: R7RS does not say
    if i > 0 and ('@' in body or body.endswith('i')):
        raise NotAsserted          # prefixed complex: exactness of parts is under-specified
    if 'inf' in body or 'nan' in body:
        if exact == 'e':
            raise NotAsserted
    return True


def classify_token(tok):
    if tok.startswith('#'):
        if number_token(tok):
            return 'number'
        raise NotAsserted
    if number_token(tok):
        return 'number'
    if re.match(r'[+-]i.', tok) or re.match(r'[+-](inf|nan)', tok):
        raise NotAsserted          # the "+i, -i, <infnan> are not identifiers" exception: prefix cases are doubtful
    if IDENT_RE.fullmatch(tok):
        return 'ident'
    raise NotAsserted


def skip_atmosphere(s, i):
    n = len(s)
    while i < n:
        c = s[i]
        if c in WS:
            i += 1
        elif c == ';':
            while i < n and s[i] != '\n':
                i += 1
        elif s.startswith('#|', i):
            depth, i = 1, i + 2
            while depth:
                if i >= n:
                    raise NotAsserted
                if s.startswith('|#', i):
                    depth, i = depth - 1, i + 2
                elif s.startswith('#|', i):
                    depth, i = depth + 1, i + 2
                else:
                    i += 1
        elif s.startswith('#;', i):
            j = skip_atmosphere(s, i + 2)
            if j >= n:
                raise NotAsserted
            i = parse_datum(s, j)
        else:
            break
    return i


def _token_end(s, i):
    while i < len(s) and s[i] not in DELIM:
        i += 1
    return i


def _hex_escape(s, i):
    """s[i] is 'x' after a backslash: -> index after ';'"""
    j = i + 1
    while j < len(s) and s[j] in '0123456789abcdefABCDEF':
        j += 1
    if j == i + 1 or j >= len(s) or s[j] != ';':
        raise NotAsserted
    v = int(s[i + 1:j], 16)
    if v > 0x10FFFF or 0xD800 <= v <= 0xDFFF:
        raise NotAsserted
    return j + 1


def _delimited(s, i, term):
    """after the opening quote/bar at i-1; returns index after the terminator"""
    n = len(s)
    while True:
        if i >= n:
            raise NotAsserted
        c = s[i]
        if c == term:
            return i + 1
        if c == '\\':
            if i + 1 >= n:
                raise NotAsserted
            e = s[i + 1]
            if e in 'abtnr':
                i += 2
            elif e == 'x' or e == 'X':
                i = _hex_escape(s, i + 1)
            elif term == '"' and e in '"\\':
                i += 2
            elif term == '|' and e == '|':
                i += 2
            elif term == '"' and e in ' \t\n':
                j = i + 1
                while j < n and s[j] in ' \t':
                    j += 1
                if j >= n or s[j] != '\n':
                    raise NotAsserted
                j += 1
                while j < n and s[j] in ' \t':
                    j += 1
                i = j
            else:
                raise NotAsserted   # \| in strings, \\ in |symbols|, unknown escapes: doubtful or invalid
        else:
            i += 1


def _sequence(s, i, allow_dot):
    """elements up to the closing paren; i is after the opening paren"""
    n = len(s)
    count = 0
    while True:
        i = skip_atmosphere(s, i)
        if i >= n:
            raise NotAsserted
        if s[i] == ')':
            return i + 1
        if s[i] == '.' and (i + 1 >= n or s[i + 1] in DELIM):
            if not allow_dot or count == 0:
                raise NotAsserted
            i = skip_atmosphere(s, i + 1)
            if i >= n:
                raise NotAsserted
            i = parse_datum(s, i)
            i = skip_atmosphere(s, i)
            if i >= n or s[i] != ')':
                raise NotAsserted
            return i + 1
        i = parse_datum(s, i)
        count += 1


def parse_datum(s, i):
    """s[i] starts a token (atmosphere already skipped).  Returns the index after one certainly-valid datum."""
    n = len(s)
    c = s[i]
    if c == '(':
        return _sequence(s, i + 1, True)
    if c == ')':
        raise NotAsserted
    if c in "'`":
        j = skip_atmosphere(s, i + 1)
        if j >= n:
            raise NotAsserted
        return parse_datum(s, j)
    if c == ',':
        j = i + 2 if s.startswith(',@', i) else i + 1
        j = skip_atmosphere(s, j)
        if j >= n:
            raise NotAsserted
        return parse_datum(s, j)
    if c == '"':
        return _delimited(s, i + 1, '"')
    if c == '|':
        return _delimited(s, i + 1, '|')
    if c == '#':
        if i + 1 >= n:
            raise NotAsserted
        d = s[i + 1]
        if d == '(':
            return _sequence(s, i + 2, False)
        if d == '\\':
            if i + 2 >= n:
                raise NotAsserted
            e = _token_end(s, i + 3)
            name = s[i + 2:e]
            if len(name) == 1:
                return e
            if name[0] == 'x' and re.fullmatch(r'[0-9a-fA-F]+', name[1:]):
                v = int(name[1:], 16)
                if v > 0x10FFFF or 0xD800 <= v <= 0xDFFF:
                    raise NotAsserted
                return e
            if name in CHAR_NAMES:
                return e
            raise NotAsserted
        if d in 'tf':
            e = _token_end(s, i)
            if s[i:e] in ('#t', '#f', '#true', '#false'):
                return e
            raise NotAsserted
        if d.isdigit():
            j = i + 1
            while j < n and s[j].isdigit():
                j += 1
            if j < n and s[j] == '=' and j + 1 < n and s[j + 1] not in WS and not s.startswith('#;', j + 1) \
                    and not s.startswith('#|', j + 1) and s[j + 1] != ';':
                if s[j + 1] == '#' and j + 2 < n and s[j + 2].isdigit():
                    raise NotAsserted      # label of a label / self reference
                return parse_datum(s, j + 1)
            raise NotAsserted              # #n# references need an enclosing definition: never valid at <= 4 chars
        if d == 'u':
            if s.startswith('#u8(', i):
                j = i + 4
                while True:
                    j = skip_atmosphere(s, j)
                    if j >= n:
                        raise NotAsserted
                    if s[j] == ')':
                        return j + 1
                    e = _token_end(s, j)
                    tok = s[j:e]
                    if not re.fullmatch(r'[0-9]+', tok) or int(tok) > 255:
                        raise NotAsserted
                    j = e
            raise NotAsserted
        if d in 'eibodx':
            e = _token_end(s, i)
            classify_token(s[i:e])
            return e
        raise NotAsserted
    e = _token_end(s, i)
    tok = s[i:e]
    if tok == '' or tok == '.':
        raise NotAsserted
    classify_token(tok)
    return e


def recognise_without_bar_delimiter(s):
    """the same recogniser if `|` did not terminate tokens (used only to name the root cause of a failing text)"""
    global DELIM
    saved = DELIM
    DELIM = saved - {'|'}
    try:
        return recognise(s)
    finally:
        DELIM = saved


def recognise(s):
    """-> (k, eof): the first k data of s are certainly valid R7RS data (both readers must return equal values for
    them); eof: after them only intertoken space remains, so the next read must return an eof object."""
    i, k = 0, 0
    while True:
        try:
            i = skip_atmosphere(s, i)
            if i >= len(s):
                return k, True
            i = parse_datum(s, i)
            k += 1
        except NotAsserted:
            return k, False
        if k >= 4:
            return k, False


RECOGNISER_SELFTEST = [
    ("a", (1, True)), ("1", (1, True)), ("", (0, True)), (" ", (0, True)), (";a", (0, True)), ("#;a", (0, True)),
    ("#;", (0, False)), ("(", (0, False)), (")", (0, False)), ("()", (1, True)), ("(a)", (1, True)), ("(.a)", (1, True)),
    ("(. a", (0, False)), ("(a.)", (1, True)), ("(a .)", (0, False)), ("#()", (1, True)), ("#(.)", (0, False)), ("'a", (1, True)), ("'", (0, False)),
    (",@a", (1, True)), ("`,a", (1, True)), ("\"\"", (1, True)), ("\"\\t\"", (1, True)), ("\"\\e\"", (0, False)),
    ("\"\\|\"", (0, False)), ("\"\\\n\"", (1, True)), ("||", (1, True)), ("|\\||", (1, True)), ("|\\\\|", (0, False)),
    ("|a|b", (2, True)), ("a|", (1, False)), ("#t", (1, True)), ("#ta", (0, False)), ("#t(", (1, False)),
    ("#\\a", (1, True)), ("#\\(", (1, True)), ("#\\((", (1, False)), ("#\\(a", (0, False)), ("#\\xa", (1, True)),
    ("#\\xx", (0, False)), ("#\\", (0, False)), ("#\\ ", (1, True)), ("#\\  ", (1, True)), ("#\\ a", (0, False)),
    ("1/0", (0, False)), ("1/1", (1, True)), ("+i", (1, True)), ("+ia", (0, False)), ("1+i", (1, True)), ("1i", (0, False)),
    ("+.1", (1, True)), ("+.", (0, False)), ("..", (1, True)), (".", (0, False)), (".e1", (1, True)), ("1e1", (1, True)),
    ("1e", (0, False)), ("e1", (1, True)), ("-e1", (1, True)), ("1.e1", (1, True)), ("#e.1", (1, True)), ("#x1f", (1, True)),
    ("#b9", (0, False)), ("#x.1", (0, False)), ("#i+i", (0, False)), ("1@1", (1, True)), ("#e1@", (0, False)),
    ("#0=a", (1, True)), ("#0#", (0, False)), ("#0=", (0, False)), ("#0= ", (0, False)), ("1 a", (2, True)), ("1)", (1, False)),
    ("a#", (0, False)), ("a'b", (0, False)), ("@a", (0, False)), ("/1", (1, True)), ("=", (1, True)), ("#||#", (0, True)),
    ("#|", (0, False)), ("1#", (0, False)), ("a;b", (1, True)), ("#u8(", (0, False)), ("-", (1, True)), ("+@", (1, True)),
    ("1.", (1, True)), ("-0", (1, True)), ("00", (1, True)), ("1/", (0, False)), ("#x-a", (1, True)), ("#xa/b", (1, True)),
]


def recogniser_selftest():
    bad = [(t, recognise(t), w) for t, w in RECOGNISER_SELFTEST if recognise(t) != w]
    if bad:
        raise common.HarnessError("C08 recogniser self-test failed: %r" % bad[:5])


# ------------------------------------------------------------------------------------------------ job generation
M52 = (1 << 52) - 1
MANT16 = [0, 1, 2, M52, M52 - 1, 1 << 51, (1 << 51) - 1, (1 << 51) + 1, 0x5555555555555, 0xAAAAAAAAAAAAA,
          1 << 29, (1 << 29) - 1, 0xFFFFFE0000000, 0x999999999999A, 0x243F6A8885A30, 0x3333333333333]


def mantissas(tier):
    if tier == "quick":
        return list(MANT16)
    s = list(MANT16)
    for k in range(0, 52):
        s += [1 << k, M52 - (1 << k), (1 << k) - 1, (1 << 52) - (1 << k)]
    out, seen = [], set()
    for m in s:
        m &= M52
        if m not in seen:
            seen.add(m)
            out.append(m)
    j = 1
    while len(out) < 256:          # fixed multiplicative (Weyl) fill: deterministic, dense-looking mantissas needing 17 digits
        m = (j * 0x9E3779B97F4A7) & M52
        j += 1
        if m not in seen:
            seen.add(m)
            out.append(m)
    return out[:256]


def dbits(f):
    b = struct.unpack('<Q', struct.pack('<d', f))[0]
    return b


def listed_doubles():
    """explicitly listed bit patterns: all half-precision values widened, powers of ten +-1 ulp, specials"""
    half = []
    for h in range(65536):
        f = struct.unpack('<e', struct.pack('<H', h))[0]
        half.append(dbits(f))
    p10 = []
    for k in range(-323, 309):
        f = float(Fraction(10) ** k)
        b = dbits(f)
        p10 += [b - 1, b, b + 1, (b - 1) | (1 << 63), b | (1 << 63), (b + 1) | (1 << 63)]
    special = [0, 1 << 63, 0x7ff0 << 48, 0xfff0 << 48, 0x7ff8 << 48, 0xfff8 << 48, 0x7ff0000000000001, 0x7fffffffffffffff,
               1, 0x000fffffffffffff, 0x0010000000000000, 0x7fefffffffffffff, dbits(0.1), dbits(1 / 3), dbits(5e-324),
               dbits(2.2250738585072014e-308), dbits(2.2250738585072011e-308), dbits(9007199254740993.0), dbits(1e23),
               dbits(8.41e21), dbits(2 ** 53 + 2.0), dbits(1e21), dbits(1e22), dbits(123456789012345680.0), dbits(4.35),
               dbits(0.3), dbits(2.5), dbits(1e-7), dbits(9.5e-5), dbits(5e-5), dbits(1.7976931348623157e308)]
    return half, p10, special


def level_size(n_atoms, n_child, n_child_nonlist, B):
    lists = sum(n_child ** k for k in range(B + 1))
    cons = n_child * n_child_nonlist
    size = n_atoms + 2 * lists + cons
    nonlist = n_atoms + lists + cons
    return size, nonlist


def tree_families(tier):
    """-> list of (family, setup scheme text, n_children, n_children_nonlist, top kinds) ; sizes by formula"""
    fams = []
    d1 = level_size(6, 6, 6, 2)
    fams.append(("d2a6", "(define atoms A6) (define children (level A6 A6 2 #f))", d1, 2, True))
    e1 = level_size(1, 1, 1, 2)
    e2 = level_size(1, e1[0], e1[1], 2)
    fams.append(("d3a1", "(define atoms A1) (define children (level A1 (level A1 A1 2 #f) 2 #f))", e2, 2, False))
    if tier != "quick":
        t1 = level_size(3, 3, 3, 3)
        fams.append(("d2a3b3", "(define atoms A3) (define children (level A3 A3 3 #f))", t1, 3, False))
        f1 = level_size(2, 2, 2, 1)        # innermost level capped at breadth 1
        f2 = level_size(2, f1[0], f1[1], 2)
        fams.append(("d3a2", "(define atoms A2) (define children (level A2 (level A2 A2 1 #f) 2 #f))", f2, 2, False))
        e3 = level_size(1, e2[0], e2[1], 2)
        fams.append(("d4a1u", "(define atoms A1) (define children (level-slice A1 (level A1 (level A1 A1 2 #f) 2 #f) 2 %(lo)d %(hi)d))", e3, "unary", False))
        chain = ("(define (unary-level ch) (let ((acc '())) (vector-for-each (lambda (t) (set! acc (cons (cons t 'a) (cons (vector t) (cons (list t) acc))))) ch)"
                 " (list->vector (cons 'a (reverse acc)))))"
                 "(define atoms A1) (define children (unary-level (unary-level (unary-level A1))))")
        # C3: 40 trees; non-lists: a, #(t) x13, (t . a) x13 = 27
        fams.append(("d4chain", chain, (40, 27), 2, False))
    return fams


def tree_jobs(tier, target=40000):
    jobs = []
    total = 0
    for fam, setup, (n, nonlist), top, with_atoms in tree_families(tier):
        base = {"space": "tree", "fam": fam, "setup": setup, "n_children": n, "variant": "opt"}
        if with_atoms:
            jobs.append(dict(base, kind="atoms", k=0, lo=0, hi=1, size=6))
            total += 6
        if top == "unary":
            step = 2500
            for lo in range(0, n, step):
                hi = min(n, lo + step)
                jobs.append(dict(base, kind="unary", k=1, lo=lo, hi=hi, size=4 * (hi - lo)))
            total += 3 * n + nonlist
            continue
        for kind in ("list", "vec"):
            for k in range(0, top + 1):
                if k == 0:
                    jobs.append(dict(base, kind=kind, k=0, lo=0, hi=1, size=1))
                    total += 1
                    continue
                per_first = n ** (k - 1)
                step = max(1, target // per_first)
                for lo in range(0, n, step):
                    hi = min(n, lo + step)
                    jobs.append(dict(base, kind=kind, k=k, lo=lo, hi=hi, size=(hi - lo) * per_first))
                total += n ** k
        step = max(1, target // max(1, nonlist))
        for lo in range(0, n, step):
            hi = min(n, lo + step)
            jobs.append(dict(base, kind="cons", k=2, lo=lo, hi=hi, size=(hi - lo) * nonlist))
        total += n * nonlist
    return jobs, total


GRAPH_ATOMS_SMALL = {"car_atoms": "(a 1.5 ())", "cdr_atoms": "(() a)", "vec_atoms": "(a ())"}
GRAPH_ATOMS_N4 = {"car_atoms": "(a)", "cdr_atoms": "(())", "vec_atoms": "(a)"}
NSLOTS = {"p": 2, "v1": 1, "v2": 2}


def graph_space(types, atoms):
    """number of slot assignments (mixed radix) for a type tuple"""
    na = {"car": len(_plist(atoms["car_atoms"])), "cdr": len(_plist(atoms["cdr_atoms"])), "vec": len(_plist(atoms["vec_atoms"]))}
    n = len(types)
    radices = []
    for t in types:
        radices += [n + na["car"], n + na["cdr"]] if t == "p" else [n + na["vec"]] * NSLOTS[t]
    tot = 1
    for r in radices:
        tot *= r
    return tot, radices


def _plist(s):
    """top-level elements of a flat scheme list text like "(a 1.5 ())" """
    inner = s.strip()[1:-1]
    return re.findall(r'\(\)|[^\s()]+', inner)


def count_canonical(types, radices):
    """independent Python count of canonically numbered graphs (cross-check of the Scheme enumerator), small n only"""
    n = len(types)
    offs, o = [], 0
    for t in types:
        offs.append(o)
        o += NSLOTS[t]
    cnt = 0
    for slots in itertools.product(*[range(r) for r in radices]):
        nxt = 1
        visited = [False] * n
        visited[0] = True
        ok = True
        stack = [(0, 0)]
        while stack and ok:
            k, j = stack.pop()
            if j >= NSLOTS[types[k]]:
                continue
            stack.append((k, j + 1))
            t = slots[offs[k] + j]
            if t < n and not visited[t]:
                if t == nxt:
                    visited[t] = True
                    nxt += 1
                    stack.append((t, 0))
                else:
                    ok = False
        if ok and nxt == n:
            cnt += 1
    return cnt


def graph_jobs(tier, variant="opt", target=120000):
    jobs = []
    maxn = 3 if tier == "quick" else 4
    for n in range(1, maxn + 1):
        atoms = GRAPH_ATOMS_SMALL if n <= 3 else GRAPH_ATOMS_N4
        for types in itertools.product(("p", "v1", "v2"), repeat=n):
            tot, radices = graph_space(types, atoms)
            for lo in range(0, tot, target):
                jobs.append({"space": "graph", "fam": "general", "types": types, "atoms": atoms, "lo": lo, "hi": min(tot, lo + target),
                             "size": min(tot, lo + target) - lo, "variant": variant, "radices": radices, "whole": tot <= target})
    maxk = 5 if tier == "quick" else 6
    for k in range(1, maxk + 1):
        tot = (k + 1) ** (k + 1)
        step = 26000
        for lo in range(0, tot, step):
            jobs.append({"space": "graph", "fam": "spine", "k": k, "lo": lo, "hi": min(tot, lo + step), "size": min(tot, lo + step) - lo,
                         "variant": variant})
    return jobs


def hi_lo(b):
    return "%d %d" % (b >> 32, b & 0xffffffff)


def num_expr(x):
    """an expression that BUILDS the exact rational x from literals below 10^9 (Horner in base 10^9), so that no long digit string
    passes through the reader on the way in: the reader is the thing under test"""
    if isinstance(x, Fraction) and x.denominator != 1:
        return "(/ %s %s)" % (num_expr(x.numerator), num_expr(x.denominator))
    n = int(x)
    if n < 0:
        return "(- %s)" % num_expr(-n)
    if n < 10 ** 9:
        return str(n)
    chunks = []
    while n:
        chunks.append(n % 10 ** 9)
        n //= 10 ** 9
    e = str(chunks[-1])
    for c in reversed(chunks[:-1]):
        e = "(+ (* %s 1000000000) %d)" % (e, c)
    return e


def digit_family(maxlen):
    """decimal digit strings as such: two leading digits followed by zeros / by nines, every length: the reader's accumulation
    loop (fixnum -> bignum hand-over) depends on the leading digits, which the power-of-two lattice does not vary"""
    out = []
    for ln in range(3, maxlen + 1):
        for ab in range(10, 100):
            out.append(ab * 10 ** (ln - 2))
            out.append((ab + 1) * 10 ** (ln - 2) - 1)
    return out


def all_jobs(tier):
    jobs = []
    quick = tier == "quick"
    # --- numbers, complex grid, bytevectors (opt and asan)
    L = nums.lattice(1 if quick else 2)
    R = nums.ratios(0 if quick else 1)
    big = nums.big_operands()
    allnums = [x for x in L if x >= 0] + [r for r in R if r >= 0] + [abs(b) for b in big] + digit_family(26 if quick else 45)
    seen, uniq = set(), []
    for x in allnums:
        if x not in seen:
            seen.add(x)
            uniq.append(x)
    nchunk = 120
    for v in ("opt", "asan"):
        src = uniq if v == "opt" else uniq[::7]
        for lo in range(0, len(src), nchunk):
            jobs.append({"space": "num", "variant": v, "nums": src[lo:lo + nchunk], "extras": lo == 0, "size": 3 * len(src[lo:lo + nchunk])})
    # --- symbols that look like numbers up to letter case
    la = lookalike_names()
    jobs.append({"space": "look", "variant": "opt", "names": la, "size": 2 * len(la)})
    # --- strings / symbols over the 20-character set
    maxlen = 3 if quick else 4
    for ln in range(0, maxlen + 1):
        tot = 20 ** ln
        step = 4000
        for lo in range(0, tot, step):
            jobs.append({"space": "str", "variant": "opt", "len": ln, "lo": lo, "hi": min(tot, lo + step), "size": 5 * (min(tot, lo + step) - lo)})
    for ln in range(0, 3 if quick else 4):
        tot = 20 ** ln
        for lo in range(0, tot, 2000):
            jobs.append({"space": "str", "variant": "asan", "len": ln, "lo": lo, "hi": min(tot, lo + 2000), "size": 5 * (min(tot, lo + 2000) - lo)})
    # --- reader agreement on all texts (asan, poisoning on)
    for ln in range(0, maxlen + 1):
        tot = len(ALPHA) ** ln
        step = 3375 if ln <= 3 else 6750
        for lo in range(0, tot, step):
            jobs.append({"space": "text", "variant": "asan", "len": ln, "lo": lo, "hi": min(tot, lo + step), "size": min(tot, lo + step) - lo})
    # --- doubles
    ms = mantissas(tier)
    estep = 128 if quick else 32
    for elo in range(0, 2048, estep):
        jobs.append({"space": "dbl", "variant": "opt", "elo": elo, "ehi": elo + estep, "ms": ms, "size": estep * len(ms) * 2})
    half, p10, special = listed_doubles()
    for name, bits in (("half", half), ("pow10", p10), ("special", special)):
        for lo in range(0, len(bits), 8192):
            jobs.append({"space": "dbl-" + name, "variant": "opt", "bits": bits[lo:lo + 8192], "size": len(bits[lo:lo + 8192])})
    # --- graphs (small ones also under asan)
    gj = graph_jobs(tier)
    jobs += [dict(j, variant="asan") for j in gj if (j["fam"] == "general" and len(j["types"]) <= 2) or (j["fam"] == "spine" and j["k"] <= 3)]
    jobs += gj
    # --- every Unicode scalar value
    ustep = 0x110000 // 64
    for lo in range(0, 0x110000, ustep):
        jobs.append({"space": "uni", "variant": "opt", "lo": lo, "hi": lo + ustep, "size": 3 * ustep})
    # --- trees
    tj, _ = tree_jobs(tier)
    jobs += tj
    return jobs


def job_source(job, trace=False):
    sp = job["space"]
    if sp == "num":
        body = SCM_NUMBERS
        if not job["extras"]:
            body = body.split(';; complex grid')[0] + "(finish)\n"
        return PRELUDE + body % {"nums": " ".join(num_expr(x) for x in job["nums"])}
    if sp == "look":
        return PRELUDE + SCM_LOOKALIKE % {"names": " ".join('"%s"' % n for n in job["names"])}
    if sp == "str":
        return PRELUDE + SCM_STRINGS % job
    if sp == "dbl":
        ms = " ".join("%d %d" % (m >> 32, m & 0xffffffff) for m in job["ms"])
        return PRELUDE + SCM_DOUBLES_GRID % {"ms": ms, "elo": job["elo"], "ehi": job["ehi"]}
    if sp.startswith("dbl-"):
        return PRELUDE + SCM_DOUBLES_LIST % {"space": sp, "bits": " ".join(hi_lo(b) for b in job["bits"])}
    if sp == "uni":
        return PRELUDE + SCM_UNICODE % job
    if sp == "tree":
        return PRELUDE + SCM_TREES % dict(job, setup=job["setup"] % job if "%(" in job["setup"] else job["setup"])
    if sp == "graph":
        if job["fam"] == "general":
            body = SCM_GRAPH_GENERAL % dict(job["atoms"], types="(" + " ".join(job["types"]) + ")", lo=job["lo"], hi=job["hi"])
        else:
            body = SCM_GRAPH_SPINE % job
        return PRELUDE + SCM_GRAPHS % {"body": body}
    if sp == "text":
        exp = []
        n = len(ALPHA)
        for idx in range(job["lo"], job["hi"]):
            k, eof = recognise(text_at(job["len"], idx))
            exp.append(chr(48 + 2 * k + (1 if eof else 0)))
        return PRELUDE + SCM_TEXTS % {"alpha": " ".join(str(ord(c)) for c in ALPHA), "len": job["len"], "lo": job["lo"], "hi": job["hi"],
                                      "expect": "".join(exp), "trace": "#t" if trace else "#f"}
    raise ValueError(sp)


def text_at(ln, idx):
    n = len(ALPHA)
    out = []
    for _ in range(ln):
        out.append(ALPHA[idx % n])
        idx //= n
    return "".join(reversed(out))


# ------------------------------------------------------------------------------------------------ running jobs
def unhex(h):
    if h == "-" or h is None:
        return None
    try:
        return bytes.fromhex(h).decode("utf-8", "replace")
    except ValueError:
        return "<bad hex %s>" % h


def parse_output(out):
    r = {"fails": [], "counts": {}, "T": None, "G": None, "X": None, "children": None, "end": False, "selftest": None,
         "exc": [], "last_p": None}
    for line in out.split("\n"):
        if not line:
            continue
        f = line.split("\t")
        tag = f[0]
        if tag == "F" and len(f) >= 5:
            r["fails"].append((f[1], unhex(f[2]), unhex(f[3]), unhex(f[4])))
        elif tag == "N" and len(f) >= 3:
            r["counts"][f[1]] = int(f[2])
        elif tag == "T" and len(f) >= 5:
            r["T"] = tuple(int(x) for x in f[1:5])
        elif tag == "G":
            r["G"] = tuple(int(x) for x in f[1:4])
        elif tag == "X":
            r["X"] = tuple(int(x) for x in f[1:4])
        elif tag == "P":
            r["last_p"] = int(f[1])
        elif tag == "CHILDREN":
            r["children"] = int(f[1])
        elif line.startswith("SELFTEST-OK"):
            r["selftest"] = True if r["selftest"] is None else r["selftest"]
        elif line.startswith("SELFTEST-FAILED"):
            r["selftest"] = False
        elif line.startswith("END-OK"):
            r["end"] = True
        elif line.startswith(";;EXC") or line.startswith(";;READ-EXC"):
            r["exc"].append(line)
    return r


def _run_once(job, d, trace=False):
    path = os.path.join(d, "job.scm")
    common.write_file(path, job_source(job, trace))
    env = {"VERIF_POISON": "1"} if job["variant"] == "asan" else None
    for attempt in range(6):
        res = common.evalbatch(job["variant"], [path], timeout=job.get("timeout", 1500), cwd=d, env=env)
        p = parse_output(res.out)
        # the (import ...) form (form 0) failing, or the harness not starting, means the variant directory was being
        # rebuilt under us (/repo or /verif/harness changed during the run): wait for the build lock and run again
        broken = any(e.startswith(";;EXC 0 ") or e.startswith(";;READ-EXC") for e in p["exc"]) or \
            (res.rc in (3, 126, 127) and p["selftest"] is None) or ("error while loading shared libraries" in res.out)
        if not broken:
            return res, p
        import time as _t
        _t.sleep(3 + 3 * attempt)
    raise common.HarnessError("C08: driver could not be started (variant %s): %s" % (job["variant"], res.out[-500:]))


def merge_parsed(acc, p):
    acc["fails"] += p["fails"]
    for k, c in p["counts"].items():
        acc["counts"][k] = acc["counts"].get(k, 0) + c
    for key in ("T", "G", "X"):
        if p[key]:
            acc[key] = tuple(a + b for a, b in zip(acc[key], p[key])) if acc.get(key) else p[key]


def run_job(job):
    d = common.scratch_dir("c08")
    acc = {"fails": [], "counts": {}, "T": None, "G": None, "X": None}
    crashes = []
    problems = []
    try:
        if job["space"] != "text":
            res, p = _run_once(job, d)
            merge_parsed(acc, p)
            if p["selftest"] is not True:
                problems.append("driver self-test did not pass: " + res.out[-600:])
            if res.rc != 0 or res.timed_out or not p["end"] or p["exc"] or "AddressSanitizer" in res.out:
                crashes.append({"rc": res.rc, "timed_out": res.timed_out, "asan": res.asan(), "exc": p["exc"][:3],
                                "tail": res.out[-1500:], "at": None})
            if job["space"] == "tree" and p["children"] is not None and p["children"] != job["n_children"]:
                problems.append("tree family %s: %d children in Scheme, %d by formula" % (job["fam"], p["children"], job["n_children"]))
            if job["space"] == "graph" and job.get("whole") and len(job["types"]) <= 3 and p["G"]:
                want = count_canonical(job["types"], job["radices"])
                if want != p["G"][0]:
                    problems.append("graph types %s: %d canonical graphs in Scheme, %d in Python" % (job["types"], p["G"][0], want))
        else:
            lo = job["lo"]
            guard = 0
            while lo < job["hi"] and guard < 20:
                guard += 1
                sub = dict(job, lo=lo, timeout=600)
                res, p = _run_once(sub, d)
                if p["end"] and res.rc == 0 and not res.timed_out and "AddressSanitizer" not in res.out and not p["exc"]:
                    merge_parsed(acc, p)
                    if p["selftest"] is not True:
                        problems.append("driver self-test did not pass")
                    break
                # localise: re-run the 64-text window with a flush before every text
                start = p["last_p"] if p["last_p"] is not None else lo
                win = dict(job, lo=start, hi=min(job["hi"], start + 64), timeout=120)
                res2, p2 = _run_once(win, d, trace=True)
                at = p2["last_p"] if p2["last_p"] is not None else start
                bad = res2 if (res2.rc != 0 or res2.timed_out or "AddressSanitizer" in res2.out) else res
                crashes.append({"rc": bad.rc, "timed_out": bad.timed_out, "asan": bad.asan(), "exc": (p["exc"] + p2["exc"])[:3],
                                "tail": bad.out[-1500:], "at": at, "text": text_at(job["len"], at),
                                "reproduced_alone": bad is res2})
                # the texts before `at` of this sub-run are re-run so that their results are counted once
                if at > lo:
                    pre = dict(job, lo=lo, hi=at, timeout=600)
                    res3, p3 = _run_once(pre, d)
                    if p3["end"]:
                        merge_parsed(acc, p3)
                lo = at + 1
    finally:
        shutil.rmtree(d, ignore_errors=True)
    meta = {k: job[k] for k in job if k in ("space", "variant", "fam", "len", "lo", "hi", "k", "kind", "types", "elo", "ehi", "size")}
    return meta, acc, crashes, problems


# ------------------------------------------------------------------------------------------------ triage
def _flo_bits_from_descr(descr):
    m = re.search(r'\(dbl (\d+) (\d+)\)', descr or "")
    if not m:
        return None
    return (int(m.group(1)) << 32) | int(m.group(2))


def classify(key, descr, text, got):
    """root-cause group of one recorded failure (rules written after reading the failing cases and the source)"""
    f = key.split(":")
    space, cls, kind = f[0], f[1], f[2]
    writers = f[3] if len(f) > 3 else "-"
    reader = f[4] if len(f) > 4 else "-"
    text = text or ""
    if space in ("dbl", "dbl-half", "dbl-pow10", "dbl-special") or (space == "num" and cls == "flo"):
        b = _flo_bits_from_descr(descr)
        if kind == "neq" and b is not None:
            try:
                ok = dbits(float(text)) == b
            except ValueError:
                ok = None
            if ok:
                return "reader-decimal-to-double-not-correctly-rounded"
            if ok is False:
                return "writer-flonum-text-denotes-another-double"
    if space == "cpx":
        if re.search(r'[+-]\+nan\.0i$', text):
            return "writer-complex-nan-imaginary-part-gets-two-signs"
        if text.startswith("+nan.0") and kind == "neq" and (got or "").startswith("|"):
            return "reader-complex-with-nan-real-part-read-as-symbol"
    if space in ("str", "uni") and cls.startswith("y"):
        if re.match(r'\.[0-9]', text):
            return "writer-symbol-starting-with-dot-digit-not-quoted"
        if '`' in text and not text.startswith("|"):
            return "writer-symbol-containing-backquote-not-quoted"
    if space == "uni" and cls == "c-u4" and reader == "nr" and "lw" in writers and kind in ("neq", "rerr"):
        return "native-reader-4-byte-utf8-character-literal"
    if space == "graph" and re.search(r'#\d+= \. #\d+#', text):
        return "srfi38-writer-chain-of-shared-tails-emits-label-dot-reference"
    if space == "text":
        if kind.split("(")[0] in ("native-rejects", "library-rejects", "differ", "native-no-eof", "library-no-eof"):
            if recognise_without_bar_delimiter(text) != recognise(text):
                return "vertical-line-is-not-a-token-delimiter" + ("(both readers deviate identically)" if "readers-agree" in kind else "(readers disagree)")
    return "other:" + ":".join(f[:3])


REPLAY_DATUM = r"""
(define x %s)
(define graph? (or (cyclic? x) (shared? x)))
(define (show-text t) (write-string t) (display "   bytes=") (display (hex t)))
(for-each
 (lambda (w)
   (if (not (and (cyclic? x) (string=? (car w) "nw")))
       (let ((t (try ((cadr w) x))))
         (display (car w)) (display " wrote: ")
         (if (eq? (car t) 'err) (begin (display "ERROR ") (display (cdr t)) (display "   FAIL") (newline))
             (begin (show-text (cdr t)) (newline)
                    (for-each
                     (lambda (rd)
                       (let ((r (try ((cdr rd) (open-input-string (cdr t))))))
                         (display "    ") (display (car rd)) (display " read back: ")
                         (cond ((eq? (car r) 'err) (display "ERROR ") (display (cdr r)) (display "   FAIL"))
                               (else (display (safe-show (cdr r)))
                                     (display (if (guard (e (#t #f)) ((if graph? (if (string=? (car w) "ls") iso? bisim?) same?) x (cdr r)))
                                                  "   ok" "   FAIL (not equal to the original)"))))
                         (newline)))
                     readers))))))
 W3)
"""

REPLAY_TEXT = r"""
(define ALPHA '#())
(define text (cps->string '(%s)))
(define (read-seq reader text)
  (let ((p (open-input-string text)))
    (let lp ((i 0) (acc '()))
      (if (= i 6) (reverse acc)
          (let ((r (try (reader p))))
            (cond ((eq? (car r) 'err) (reverse (cons (string-append "ERROR:" (cdr r)) acc)))
                  ((eof-object? (cdr r)) (reverse (cons "EOF" acc)))
                  (else (lp (+ i 1) (cons (safe-show (cdr r)) acc)))))))))
(display "text bytes=") (display (hex text)) (newline)
(display "native  reader: ") (write (read-seq nread text)) (newline)
(display "library reader: ") (write (read-seq read text)) (newline)
;; expected (R7RS 7.1): %s
(display "FAIL expected-by-grammar: %s") (newline)
"""


def replay_program(space, descr, text):
    if space == "text":
        k, eof = recognise(text)
        want = "the first %d datum/data are valid: both readers must return equal values%s" % (k, "; then an eof object" if eof else "")
        return PRELUDE + REPLAY_TEXT % (" ".join(str(ord(c)) for c in text), want, want)
    return PRELUDE + REPLAY_DATUM % descr


def replay(path):
    res = common.evalbatch("opt", [os.path.abspath(path)], timeout=120)
    print(res.out)
    return 1 if ("FAIL" in res.out or res.rc != 0) else 0


def nontrivial_of(job):
    """distinct non-trivial data of a completed job that Python can count from the job parameters alone"""
    sp = job["space"]
    if sp == "dbl":
        nz = sum(1 for m in job["ms"] if m != 0)
        n = 0
        for e in range(job["elo"], job["ehi"]):
            n += 2 * (len(job["ms"]) if e in (0, 2047) else nz)
        return n
    if sp.startswith("dbl-"):
        return sum(1 for b in job["bits"] if b & M52)
    if sp == "uni":
        n = 0
        for cp in range(job["lo"], job["hi"]):
            if 0xD800 <= cp <= 0xDFFF:
                continue
            if cp >= 128 or not chr(cp).isalnum():
                n += 3
        return n
    if sp == "look":
        return len(job["names"])
    if sp == "str":
        ln = job["len"]
        n = 0
        plain = {5, 6, 7, 8}            # indices of i n a e in the 20-character set
        for idx in range(job["lo"], job["hi"]):
            x, allplain = idx, True
            for _ in range(ln):
                if x % 20 not in plain:
                    allplain = False
                x //= 20
            if not allplain or ln == 0:
                n += 2
        return n
    if sp == "num":
        n = sum(2 for x in job["nums"] if isinstance(x, Fraction) and x.denominator != 1 or not nums.is_fixnum(int(x)))
        if job["extras"]:
            n += 13 * 13 - 13 + 780
        return n
    return 0


def main(tier, replay_path=None):
    chk = Check("C08", "exploration", tier, quick_s=150, thorough_s=1200)
    chk.clean_replays()
    recogniser_selftest()
    chk.rule = (
        "data are built by constructors inside Scheme (never by the reader), written by native write, (scheme write) write and "
        "write-shared; every distinct text is read by the native and the (scheme read) reader and compared structurally "
        "(flonums by their 64 bits, any NaN for NaN; graphs: isomorphism for write-shared, equal unfoldings for write). Spaces: "
        "doubles = 2048 exponent fields x %d mantissa patterns x sign + all 65536 half-precision values + 10^k +-1ulp; every Unicode "
        "scalar value as char / 1-char string / 1-char symbol; all strings and symbols of length <= %d over 20 characters, every such symbol also inside a list, in the cdr of a pair and in a vector; integer "
        "lattice, ratios, 1000-4000 bit integers and their negations/inexact images; 13x13 complex grid; bytevectors len 0-4 over 5 "
        "bytes; trees (see coverage.tree_families); rooted graphs of <= %d pair/vector nodes with every slot pointing to any node or "
        "an atom, kept only in canonical (first-visit) numbering so each isomorphism class is run once, plus list spines of <= %d "
        "pairs with arbitrary back/forward references; ALL texts of length <= %d over a 30-symbol reader alphabet, asserted where a "
        "conservative R7RS 7.1 recogniser accepts. evaluations = reader invocations (round trips + text reads). distinct_nontrivial "
        "= distinct data that need more than ASCII alphanumerics or fixnums: doubles with non-zero mantissa field or extreme exponent, "
        "non-alphanumeric code points (x3 forms), strings/symbols with a character outside {i,n,a,e}, non-fixnum numbers, trees of "
        "nesting >= 2, graphs with sharing or cycles, texts on which agreement is asserted"
        % (len(mantissas(tier)), 3 if tier == "quick" else 4, 3 if tier == "quick" else 4, 5 if tier == "quick" else 6,
           3 if tier == "quick" else 4))
    chk.assumptions = [
        "native pair = read/write exported by (chibi) (sexp_read_raw / sexp_write_one; write == R7RS write-simple, so cyclic data are not given to it)",
        "library pair = (scheme read) read and (scheme write) write / write-shared (lib/srfi/38.scm)",
        "a reader is a function of the text: a text produced by several writers is read once per reader",
        "doubles are built from bits with bytevector-ieee-double-native-ref (checked against 1.0, 100.0, -2.0 in every driver run)",
        "chibi-only lexical extensions ({..} records, #!fold-case, uniform vectors other than #u8, #' #` #, syntax forms) are outside the claim: the recogniser never asserts them",
        "texts the R7RS grammar rejects or leaves doubtful (\\| in strings, \\\\ in |symbols|, zero denominators, prefixed complex, +i... identifiers): only totality is required",
        "trailing check: after the datum only white space may remain unread in the text",
    ]
    variants = ["opt", "asan"]
    for v in variants:
        build.build_variant(v)
    jobs = all_jobs(tier)
    import random
    if chk.seed:
        random.Random(chk.seed).shuffle(jobs)
    log("C08 %s: %d jobs" % (tier, len(jobs)))
    per_space = {}
    groups = {}        # group -> {"n": recorded, "examples": [...], "keys": Counter}
    key_totals = {}
    key_groups = {}
    crashes_all = []
    problems_all = []
    done = 0
    text_stats = [0, 0, 0]
    graph_stats = [0, 0, 0]
    na_examples = []
    with Pool(common.NCPU) as pool:
        it = pool.imap_unordered(run_job_indexed, [(i, j) for i, j in enumerate(jobs)])
        for idx, (meta, acc, crashes, problems) in it:
            done += 1
            job = jobs[idx]
            sp = meta["space"] + "/" + meta["variant"]
            ps = per_space.setdefault(sp, {"jobs": 0, "data": 0, "texts": 0, "reads": 0, "nontrivial": 0, "failures": 0})
            ps["jobs"] += 1
            if acc["T"]:
                ps["data"] += acc["T"][0]
                ps["texts"] += acc["T"][1]
                ps["reads"] += acc["T"][2]
                nt = acc["T"][3] + (nontrivial_of(job) if not crashes else 0)
                if meta["space"] == "text" and acc["X"]:
                    nt += acc["X"][2]
                if meta["variant"] == "opt" or meta["space"] == "text":
                    chk.nontrivial_n += nt      # asan re-runs of the same data are not counted twice
                ps["nontrivial"] += nt
                chk.evaluations += acc["T"][2]
            if acc["X"]:
                for i in range(3):
                    text_stats[i] += acc["X"][i]
            if acc["G"] and meta["variant"] == "opt":
                for i in range(3):
                    graph_stats[i] += acc["G"][i]
            for k, c in acc["counts"].items():
                if ":na-disagree:" in k:
                    continue
                key_totals[k] = key_totals.get(k, 0) + c
                ps["failures"] += c
            for key, descr, text, got in acc["fails"]:
                if ":na-disagree:" in key:
                    if len(na_examples) < 60:
                        na_examples.append("%r -> %s" % (text, got))
                    continue
                g = classify(key, descr, text, got)
                key_groups.setdefault(key, {}).setdefault(g, 0)
                key_groups[key][g] += 1
                G = groups.setdefault(g, {"examples": [], "spaces": set()})
                G["spaces"].add(meta["space"])
                if len(G["examples"]) < 400:
                    G["examples"].append((key, descr, text, got))
            for c in crashes:
                crashes_all.append((meta, c))
            for p in problems:
                problems_all.append((meta, p))
            if chk.out_of_time():
                pool.terminate()
                log("deadline reached after %d/%d jobs" % (done, len(jobs)))
                break
    # ---- outcomes
    total_fail = sum(key_totals.values())
    chk.outcomes["round-trip or agreement ok"] = max(0, chk.evaluations - total_fail)
    group_totals = {}
    for key, tot in key_totals.items():
        kg = key_groups.get(key)
        if not kg:
            group_totals["other:" + key] = group_totals.get("other:" + key, 0) + tot
            continue
        rec = sum(kg.values())
        for g, c in kg.items():
            group_totals[g] = group_totals.get(g, 0) + int(round(tot * c / rec))
    for g, c in group_totals.items():
        chk.outcomes["FAIL " + g] = c
    chk.outcomes["texts: readers agree on the whole read sequence"] = text_stats[0]
    chk.outcomes["texts: readers differ somewhere (incl. not asserted)"] = text_stats[1]
    # ---- violations: one per root-cause group, minimal example first
    for g in sorted(groups, key=lambda g: -group_totals.get(g, 0)):
        ex, seen_ex = [], set()
        for e in sorted(groups[g]["examples"], key=lambda e: (len(e[1] or ""), len(e[2] or ""), e[1] or "")):
            if (e[1], e[2]) not in seen_ex:
                seen_ex.add((e[1], e[2]))
                ex.append(e)
        key, descr, text, got = ex[0]
        space = key.split(":")[0]
        pipes = sorted(set(":".join(e[0].split(":")[3:5]) for e in groups[g]["examples"]))
        kinds = sorted(set(e[0].split(":")[2] for e in groups[g]["examples"]))
        what = "%s: %d failing reader invocations (%s; pipelines %s). e.g. %s wrote/has text %r -> %s" % (
            g, group_totals.get(g, len(ex)), ",".join(kinds), ",".join(pipes)[:120], descr, text, got)
        more = "; ".join("%s %r -> %s" % (e[1], e[2], e[3]) for e in ex[1:4])
        desc = {"op": g, "group": g, "space": space, "n": group_totals.get(g, len(ex)), "example": descr, "text": text, "got": got,
                "kinds": kinds, "pipelines": pipes}
        rerun = confirm_alone(space, descr, text)
        desc["reproduced_in_fresh_process"] = rerun
        chk.violation(desc, what + (" | also: " + more if more else "") + (" | reproduced alone: %s" % rerun),
                      replay_program(space, descr, text))
    crash_groups = {}
    for meta, c in crashes_all:
        fr = c.get("asan")
        g = "crash:" + (fr[0] + ":" + ",".join(f[0] for f in fr[1][:3]) if fr else ("timeout" if c.get("timed_out") else "rc=%s" % c.get("rc")))
        crash_groups.setdefault(g, []).append((meta, c))
    for g, lst in crash_groups.items():
        lst.sort(key=lambda mc: (len(mc[1].get("text") or "zzzzzz"), mc[1].get("text") or ""))
        meta, c = lst[0]
        txt = c.get("text")
        texts = sorted(set(repr(mc[1].get("text")) for mc in lst))
        desc = {"op": g, "group": g, "space": meta["space"], "variant": meta["variant"], "crash": True, "text": txt, "rc": c.get("rc"),
                "n": len(lst), "texts": texts[:40]}
        chk.outcomes["FAIL " + g] = len(lst)
        chk.violation(desc, "%s: the process died (%d cases: %s) in %s job %s; reading text %r: %s" % (
            g, len(lst), ", ".join(texts[:12]), meta["variant"], {k: meta[k] for k in meta if k != "size"}, txt, c["tail"][-400:]),
            replay_program("text", txt, txt) if txt is not None else None)
    for meta, p in problems_all:
        chk.violation({"op": "harness-selfcheck", "group": "harness-selfcheck", "space": meta["space"]}, "driver self-check: %s (%s)" % (p[:400], meta))
    tj, tree_total = tree_jobs(tier)
    chk.cov["per_space"] = per_space
    chk.cov["jobs_completed"] = done
    chk.cov["jobs_total"] = len(jobs)
    chk.cov["variants"] = variants
    chk.cov["failing_reader_invocations"] = total_fail
    chk.cov["root_cause_groups"] = {g: group_totals.get(g, 0) for g in groups}
    chk.cov["texts"] = {"read_sequences_equal": text_stats[0], "read_sequences_differ": text_stats[1], "asserted_by_recogniser": text_stats[2]}
    chk.cov["unasserted_texts_where_readers_differ_examples"] = na_examples
    chk.cov["graphs"] = {"canonical_graphs": graph_stats[0], "cyclic": graph_stats[1], "shared_acyclic": graph_stats[2]}
    chk.cov["tree_families"] = {f[0]: {"children": f[2][0], "top": f[3]} for f in tree_families(tier)}
    chk.cov["trees_by_formula"] = tree_total
    chk.cov["mantissa_patterns"] = len(mantissas(tier))
    for s in ("(dbl #x3fb99999 #x9999999a) ; 0.1 from bits", "(integer->char 128512) / (string c) / (string->symbol (string c))",
              "(string->symbol (cps->string '(46 48)))  ; the symbol .0", "(make-rectangular 1/2 (dbl #x7ff80000 0))",
              "(mkgraph '(p v2 p) '(1 2 0 (q . a) 1 (q)))", "(cons (vector 'a \"s\") (list #\\x 1.5))",
              "text \"#\\\\x(\" -> recogniser: 1 datum then not asserted", "text \"1 a\" -> recogniser: 2 data then eof"):
        chk.sample(s)
    common.cleanup_scratch()
    _sweep_scratch()
    return chk.finish()


def run_job_indexed(arg):
    i, job = arg
    return i, run_job(job)


def confirm_alone(space, descr, text):
    """re-run the minimal case of a group in a fresh process"""
    d = common.scratch_dir("c08r")
    try:
        path = os.path.join(d, "replay.scm")
        common.write_file(path, replay_program(space, descr, text))
        res = common.evalbatch("opt", [path], timeout=120, cwd=d)
        return "FAIL" in res.out or res.rc != 0
    except Exception as ex:      # noqa
        return "error: %s" % ex
    finally:
        shutil.rmtree(d, ignore_errors=True)


def _sweep_scratch():
    """remove C08 scratch directories left by pool workers that were terminated at the deadline (owner pid gone)"""
    root = common.SCRATCH_ROOT
    if not os.path.isdir(root):
        return
    for f in os.listdir(root):
        m = re.match(r'(?:c08|c08r|c08t)-(\d+)-\d+$', f)
        if m and not os.path.exists("/proc/%s" % m.group(1)):
            shutil.rmtree(os.path.join(root, f), ignore_errors=True)
