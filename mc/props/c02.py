"""C02 -- the collector never reclaims or corrupts reachable data.

Fault/schedule enumeration on the real interpreter: for each workload the collection schedule is the only
thing varied -- `every` (a collection before every single allocation), `nth:n`, and `at:k` for EVERY
allocation index k of the workload -- across initial heap sizes.  The oracle is byte-identical output with
the schedule-free baseline plus a silent AddressSanitizer (free chunks and object slack are poisoned, so a
swept-but-still-used object is a report at its first touch)."""
import os, re, sys, threading, queue, time
from concurrent.futures import ThreadPoolExecutor

from .. import common, build
from ..common import Check, log, Server

WL_DIR = os.path.join(common.VERIF, "scheme", "gc")
WORKLOADS = ["lists", "evalenv", "errors", "strings", "bignum", "control", "evalmacro", "hash", "io", "threads", "clibs", "cast", "growstack"]
ENV = {"VERIF_POISON": "1",
       "ASAN_OPTIONS": "detect_leaks=0:allocator_may_return_null=1:abort_on_error=0:halt_on_error=0:"
                       "detect_stack_use_after_return=0:allow_user_poisoning=1:symbolize=1:print_legend=0:detect_odr_violation=0"}


def strip(out):
    """program output without the statistics trailer; heap addresses printed by the VM are canonicalised"""
    out = re.sub(r"#<Context \d+>", "#<Context>", out)
    lines = []
    stats = {}
    for l in out.split("\n"):
        if l.startswith(";;STATS"):
            for kv in l.split()[1:]:
                if "=" in kv:
                    k, v = kv.split("=", 1)
                    if v.lstrip("-").isdigit():
                        stats[k] = int(v)
            continue
        if l.startswith(";;SCHED") or l.startswith(";;TRACE"):
            continue
        lines.append(l)
    return "\n".join(lines).rstrip("\n"), stats


def asan_sites(out):
    """distinct (kind, function, file:line) of the first /repo frame of every ASan report"""
    sites = []
    for m in re.finditer(r"ERROR: AddressSanitizer: (\S+)(.*?)(?=ERROR: AddressSanitizer|\Z)", out, re.S):
        kind = m.group(1)
        fr = re.search(r"#\d+ \S+ in (\S+) (/repo/\S+?):(\d+)", m.group(2))
        if fr:
            sites.append((kind, fr.group(1), os.path.basename(fr.group(2)) + ":" + fr.group(3)))
        else:
            fr = re.search(r"#\d+ \S+ in (\S+)", m.group(2))
            sites.append((kind, fr.group(1) if fr else "?", "?"))
    return sites


def clean(out):
    """output with sanitizer reports removed (so a recovered run can still be compared)"""
    return re.sub(r"=+\n==\d+==ERROR: AddressSanitizer.*?(?=\n[^\s=]|\Z)", "", out, flags=re.S)


class Pool:
    """N fork servers for one (workload, heap)"""

    def __init__(self, wl, heap, n):
        pre = os.path.join(WL_DIR, wl + ".pre.scm")
        with ThreadPoolExecutor(n) as ex:
            self.servers = list(ex.map(lambda _: Server("asan", preludes=[pre], heap=heap, env=ENV), range(n)))
        self.file = os.path.join(WL_DIR, wl + ".scm")

    def map(self, schedules, deadline=None):
        """runs the schedules on the servers; schedules not started before `deadline` are left out of the result"""
        q = queue.Queue()
        for s in schedules:
            q.put(s)
        res = {}
        lock = threading.Lock()

        def work(srv):
            while True:
                try:
                    s = q.get_nowait()
                except queue.Empty:
                    return
                if deadline is not None and time.time() > deadline:
                    return
                r = srv.run(self.file, gc=s)
                with lock:
                    res[s] = r

        ts = [threading.Thread(target=work, args=(srv,)) for srv in self.servers]
        for t in ts:
            t.start()
        for t in ts:
            t.join()
        return res

    def close(self):
        for s in self.servers:
            s.close()


def run_workload(chk, wl, heap, nserv, sweep_stride, stats):
    t0 = time.time()
    pool = Pool(wl, heap, nserv)
    try:
        base = pool.servers[0].run(pool.file, gc="none")
        base2 = pool.servers[-1].run(pool.file, gc="none")
        bout, bstats = strip(base.out)
        bout2, _ = strip(base2.out)
        if base.rc != 0 or asan_sites(base.out) or bout != bout2:
            chk.violation({"op": "baseline", "workload": wl, "heap": heap, "sites": asan_sites(base.out)},
                          "baseline of workload %s (heap %s) is not clean/deterministic: rc=%s %s" % (wl, heap, base.rc, asan_sites(base.out)),
                          base.out[-3000:], ext="txt")
            return
        probe = pool.servers[0].run(pool.file, gc="at:999999999")
        _, pstats = strip(probe.out)
        n_alloc = pstats.get("armed_allocs", 0)
        stride = sweep_stride(wl, n_alloc)
        scheds = ["nth:%d" % n for n in ((2, 3, 5, 7, 11, 64) if (stride == 1 or n_alloc < 6000) else (7, 31, 64, 257))]
        if stride == 1 or n_alloc < 6000:
            scheds.append("every")
        else:
            # a collection before every allocation, split into windows that run in parallel
            w = (n_alloc + nserv - 1) // nserv
            scheds += ["win:%d:%d" % (a, min(a + w, n_alloc + 1)) for a in range(1, n_alloc + 1, w)]
        scheds += ["at:%d" % k for k in range(1, n_alloc + 1, stride)]
        res = pool.map(scheds, chk.deadline)
        if len(res) < len(scheds):
            chk.exhaustive = False
            log("C02 %s heap=%s: %d of %d schedules not run before the tier's deadline (undecided)" % (wl, heap, len(scheds) - len(res), len(scheds)))
        nbad = 0
        for s, r in res.items():
            out, st = strip(clean(r.out))
            sites = asan_sites(r.out)
            forced = st.get("forced_gcs", 0)
            with chk.lock:
                stats["executions"] += 1
                stats["forced"] += forced
            if forced:
                chk.count(0, key=(wl, heap, s))
            if r.rc != 0 or sites or out != bout:
                nbad += 1
                why = []
                if sites:
                    why.append("AddressSanitizer: " + "; ".join("%s in %s (%s)" % x for x in sorted(set(sites))[:4]))
                if r.rc != 0:
                    why.append("exit status %s" % r.rc)
                if out != bout:
                    a, b = bout.split("\n"), out.split("\n")
                    i = 0
                    while i < min(len(a), len(b)) and a[i] == b[i]:
                        i += 1
                    why.append("output differs from baseline at line %d: want %r got %r" % (
                        i + 1, a[i][:120] if i < len(a) else None, b[i][:120] if i < len(b) else None))
                fn = sites[0][1] if sites else "output"
                chk.violation({"op": fn, "workload": wl, "heap": heap, "schedule": s, "sites": sorted(set(sites)),
                               "site": (sites[0][1] + "@" + sites[0][2]) if sites else "", "rc": r.rc},
                              "workload %s heap %s schedule %s: %s" % (wl, heap or "default", s, " | ".join(why)),
                              "# replay: ./check C02 --replay <this file>\nworkload=%s\nheap=%s\nschedule=%s\n" % (wl, heap or "", s), ext="sched")
                chk.count(1, outcome="fail")
            else:
                chk.count(1, outcome="same-as-baseline")
        with chk.lock:
            stats["per_wl"]["%s/%s" % (wl, heap or "default")] = {
                "allocations": n_alloc, "at_k_stride": stride, "schedules": len(scheds), "failing": nbad,
                "wall_s": round(time.time() - t0, 1)}
        chk.sample({"workload": wl, "heap": heap or "default", "allocations": n_alloc, "at_k_stride": stride,
                    "schedules": ["every", "nth:2", "at:1", "at:%d" % n_alloc]})
        log("C02 %s heap=%s: N=%d stride=%d, %d schedules, %d failing, %.1fs" % (wl, heap, n_alloc, stride, len(scheds), nbad, time.time() - t0))
    finally:
        pool.close()


def main(tier):
    chk = Check("C02", "fault_enumeration", tier, quick_s=170, thorough_s=1500)
    chk.clean_replays()
    chk.rule = ("per workload and initial heap size: schedule-free baseline, a collection before EVERY allocation, every "
                "n-th allocation for several n, and one forced collection before allocation k for every k in 1..N "
                "(micro workloads, all workloads in thorough) or every stride-th k; distinct_nontrivial = distinct (workload, heap, "
                "schedule) executions in which at least one collection was forced")
    chk.assumptions = ["precise non-moving collector, default build options", "ASan build with poisoned free chunks / object slack",
                       "workloads print no addresses; identity-hash iteration order is sorted before printing",
                       "the boot window (context creation, init-7.scm) runs before the schedule is armed"]
    build.build_variant("asan")
    quick = tier == "quick"
    stats = {"executions": 0, "forced": 0, "per_wl": {}}
    micro = ["micro1", "micro2"]
    if quick:
        # full at:k sweep only for the micro workloads, strided elsewhere; `every` is always complete
        def stride(wl, n):
            return 1 if wl in micro else max(1, n // 128)
        # two workloads at a time, half of the servers each: the longest single schedule of a workload (nth:7 over tens of
        # thousands of allocations) no longer leaves the other cores idle
        todo = [(wl, None) for wl in micro + WORKLOADS] + [("micro1", "300k")]
        todo.sort(key=lambda a: 0 if a[0] in ("errors", "cast", "hash", "clibs", "growstack") else 1)

        def one(a):
            if chk.out_of_time():
                chk.exhaustive = False
                return
            run_workload(chk, a[0], a[1], max(2, common.NCPU // 2), stride, stats)
        with ThreadPoolExecutor(2) as ex:
            list(ex.map(one, todo))
    else:
        def stride(wl, n):
            return 1
        for heap in (None, "300k", "8M"):
            for wl in micro + WORKLOADS:
                if chk.out_of_time():
                    break
                if heap is not None:
                    run_workload(chk, wl, heap, common.NCPU, lambda w, n: max(1, n // 400), stats)
                else:
                    run_workload(chk, wl, heap, common.NCPU, stride, stats)
    chk.cov["per_workload"] = stats["per_wl"]
    chk.cov["forced_collections"] = stats["forced"]
    chk.cov["executions"] = stats["executions"]
    common.cleanup_scratch()
    return chk.finish()


def replay(path):
    kv = dict(l.strip().split("=", 1) for l in open(path) if "=" in l and not l.startswith("#"))
    build.build_variant("asan")
    pre = os.path.join(WL_DIR, kv["workload"] + ".pre.scm")
    srv = Server("asan", preludes=[pre], heap=kv.get("heap") or None, env=ENV)
    try:
        f = os.path.join(WL_DIR, kv["workload"] + ".scm")
        base = srv.run(f, gc="none")
        r1 = srv.run(f, gc=kv["schedule"])
        r2 = srv.run(f, gc=kv["schedule"])
        b, _ = strip(base.out)
        o1, _ = strip(clean(r1.out))
        o2, _ = strip(clean(r2.out))
        print("deterministic replay:", o1 == o2 and asan_sites(r1.out) == asan_sites(r2.out))
        print("asan sites:", asan_sites(r1.out))
        print("output equals baseline:", o1 == b)
        if asan_sites(r1.out) or o1 != b or r1.rc != 0:
            print(r1.out[-4000:])
            print("VIOLATION property=C02 replay=%s" % path)
            return 1
        return 0
    finally:
        srv.close()
