"""C01 -- evaluating any program never corrupts memory; errors stay contained.

Bounded-exhaustive enumeration on an ASan build whose Scheme heap is poisoned outside live objects:
 (1) call catalogue: every procedure exported by the R7RS-small libraries (obtained by introspection) plus the string-cursor
     primitives, applied to EVERY tuple of a 67-value alphabet for arities 0..2 and to a 12-value core for the third argument;
     each call ends in a value or an exception caught by `guard`; after every batch a probe program must still evaluate exactly
     as in a pristine context;
 (2) reader / string->number / eval on all byte strings up to a length bound over a reader alphabet with invalid UTF-8 bytes;
 (3) nesting depth family for read / write / equal? / eval, also on the non-ASan build.
Violations: an AddressSanitizer report, a signal, an abort, a C-level hang, a differing probe."""
import os, re, itertools, time, subprocess
from multiprocessing import Pool
from .. import common, build
from ..common import Check, log

DRIVER = os.path.join(common.VERIF, "scheme", "c01", "driver.scm")
ENV = {"VERIF_POISON": "1", "VERIF_TIME_BUDGET_MS": "40",
       "ASAN_OPTIONS": "detect_leaks=0:detect_odr_violation=0:halt_on_error=0:allocator_may_return_null=1:max_allocation_size_mb=1024:"
                       "detect_stack_use_after_return=0:allow_user_poisoning=1:symbolize=1:print_legend=0:handle_segv=1"}
LIBS = ["(scheme base)", "(scheme char)", "(scheme cxr)", "(scheme complex)", "(scheme inexact)", "(scheme lazy)", "(scheme read)",
        "(scheme write)", "(scheme eval)", "(scheme file)", "(scheme load)", "(scheme process-context)", "(scheme time)", "(scheme repl)"]
EXTRA = ["string-cursor-start", "string-cursor-end", "string-cursor-next", "string-cursor-prev", "string-cursor-ref",
         "string-cursor->index", "string-index->cursor", "substring-cursor"]


def catalogue():
    d = common.scratch_dir("c01cat")
    p = os.path.join(d, "cat.scm")
    common.write_file(p, "(import (scheme base) (scheme write) (chibi modules))\n(for-each (lambda (lib) (for-each (lambda (x) (write (if (pair? x) (car x) x)) "
                         "(newline)) (module-exports (load-module lib)))) '(%s))\n" % " ".join(LIBS))
    r = common.evalbatch("opt", [p], timeout=120, cwd=d)
    names = []
    for l in r.out.split("\n"):
        l = l.strip()
        if l and not l.startswith(";;") and not l.startswith("WARNING") and " " not in l:
            names.append(l)
    names = sorted(set(names + EXTRA))
    return names


def asan_sites(out):
    sites = []
    for m in re.finditer(r"ERROR: AddressSanitizer: (\S+)(.*?)(?=ERROR: AddressSanitizer|\Z)", out, re.S):
        fr = re.search(r"#\d+ \S+ in (\S+) (/repo/\S+?):(\d+)", m.group(2))
        sites.append((m.group(1), fr.group(1) if fr else "?", (os.path.basename(fr.group(2)) + ":" + fr.group(3)) if fr else "?"))
    return sites


def run_calls(arg):
    jobno, items = arg          # items: [(idx, name, arity)]
    d = common.scratch_dir("c01")
    p = os.path.join(d, "job.scm")
    common.write_file(p, "".join("(run %d '%s %d)\n" % it for it in items))
    t0 = time.time()
    r = common.evalbatch("asan", [p], preludes=[DRIVER], heap="64M/512M", env=ENV, timeout=900, cwd=d)
    lines = {}
    for l in r.out.split("\n"):
        m = re.match(r"#(\d+) (\S+) (\d) \((#[tf]) (\d+) (\d+) (\d+)\) (\S+)", l)
        if m:
            lines[int(m.group(1))] = (m.group(2), int(m.group(3)), m.group(4) == "#t", int(m.group(5)), int(m.group(6)), int(m.group(7)), m.group(8))
    import shutil
    shutil.rmtree(d, ignore_errors=True)
    nonterm = re.findall(r"^#NONTERM (\S+) (.*)$", r.out, re.M)
    missing = any(it[0] not in lines for it in items)
    sites = asan_sites(r.out) + [("nonterm", nm, args) for nm, args in nonterm[:6]]
    return jobno, items, lines, r.rc, r.timed_out, sites, r.out[-(60000 if missing else 1500):], time.time() - t0


# ---------------------------------------------------------------- reader texts
ALPHA = list("()[]{}#'`,@\"\\|;.+-019aeixtfu8/ \n") + ["\x00"]
BAD_BYTES = [0x80, 0xC3, 0xE2, 0xF0, 0xFF]

READER_DRIVER = r"""
(import (scheme base) (scheme write) (scheme eval) (scheme repl) (prefix (scheme read) lib:) (only (chibi) read))
(define alpha (bytevector %s))
(define n (bytevector-length alpha))
(define counts (make-vector 6 0))
(define (bump! i) (vector-set! counts i (+ 1 (vector-ref counts i))))
(define env (environment '(scheme base)))
(define seq 0) (define done-seq -1) (define doubles 0)
(define (feed bv do-eval)
  (set! seq (+ seq 1))
  (feed1 bv do-eval)
  ;; the code after a guarded call runs once per call: a handler that escaped from a nested VM makes it run again later
  (if (= done-seq seq)
      (begin (set! doubles (+ doubles 1)) (if (< doubles 4) (begin (display "#DOUBLE-RETURN ") (write bv) (newline))))
      (set! done-seq seq)))
(define (feed1 bv do-eval)
  (let ((s (utf8->string bv)))
    (guard (e (#t (bump! 1))) (read (open-input-string s)) (bump! 0))
    (guard (e (#t (bump! 3))) (lib:read (open-input-string s)) (bump! 2))
    (guard (e (#t #f)) (string->number s 10))
    (guard (e (#t #f)) (string->number s 16))
    (guard (e (#t #f)) (string->number s 2))
    (if do-eval
        (guard (e (#t (%%verif 'set-budget 0) (bump! 5)))
          (%%verif 'set-budget 200000)
          (let ((x (read (open-input-string s))))
            (if (not (eof-object? x)) (eval x env)))
          (%%verif 'set-budget 0)
          (bump! 4)))))
(define (all-texts len first-lo first-hi do-eval)
  ;; every byte string of exactly `len` symbols whose first symbol index is in [first-lo, first-hi)
  (let ((bv (make-bytevector len 0)) (idx (make-vector len 0)))
    (let loop ((pos 0))
      (if (= pos len)
          (feed bv do-eval)
          (do ((i (if (= pos 0) first-lo 0) (+ i 1))) ((= i (if (= pos 0) first-hi n)))
            (bytevector-u8-set! bv pos (bytevector-u8-ref alpha i))
            (loop (+ pos 1)))))))
"""


def run_reader(arg):
    jobno, length, lo, hi, do_eval = arg
    d = common.scratch_dir("c01r")
    p = os.path.join(d, "job.scm")
    codes = [ord(c) for c in ALPHA] + BAD_BYTES
    txt = READER_DRIVER % " ".join(str(c) for c in codes)
    txt += "(all-texts %d %d %d %s)\n(display \"#R \") (write counts) (newline)\n" % (length, lo, hi, "#t" if do_eval else "#f")
    common.write_file(p, txt)
    r = common.evalbatch("asan", [p], heap="64M/512M", env=ENV, timeout=1200, cwd=d)
    m = re.search(r"^#R #\(([\d ]+)\)", r.out, re.M)
    counts = [int(x) for x in m.group(1).split()] if m else None
    sites = asan_sites(r.out)
    for dm in re.findall(r"^#DOUBLE-RETURN (.*)$", r.out, re.M)[:2]:
        sites.append(("double-return", "guarded eval returned twice for the text " + dm.strip(), "reader-driver"))
    import shutil
    shutil.rmtree(d, ignore_errors=True)
    return jobno, (length, lo, hi, do_eval), counts, r.rc, r.timed_out, sites, r.out[-1200:]


# ---------------------------------------------------------------- datum labels
LABELS = [0, 1, 2, 9, 10, 15, 16, 17, 22, 23, 24, 25, 39, 40, 46, 47, 48, 49, 63, 64, 100, 1000, 99999999999]
LABEL_DRIVER = r"""
(import (scheme base) (scheme write) (prefix (scheme read) lib:) (only (chibi) read))
(define (show tag i s rd)
  (display tag) (display " ") (display i) (display " ")
  (write (guard (e (#t 'E)) (let ((x (rd (open-input-string s)))) (if (and (list? x) (every symbol? x)) x 'OTHER))))
  (newline))
(define (every p l) (or (null? l) (and (p (car l)) (every p (cdr l)))))
(define (run i s) (show "#LN" i s read) (show "#LL" i s lib:read))
"""


def label_texts(maxlen):
    toks = [("d", n) for n in LABELS] + [("r", n) for n in LABELS]
    out = []
    for ln in range(1, maxlen + 1):
        for seq in itertools.product(toks, repeat=ln):
            if not any(k == "r" for k, _ in seq):
                continue
            out.append(seq)
    return out


def label_text(seq):
    return "(" + " ".join(("#%d=s%d" % (n, i)) if k == "d" else ("#%d#" % n) for i, (k, n) in enumerate(seq)) + ")"


def label_verdict(seq, got):
    """got: 'E', 'OTHER' or a list of symbol names.  A reference to a label that no earlier datum of the text carries must be an
    error; where a value is returned every reference must denote a datum defined earlier under that label."""
    defs = {}
    undefined = False
    for i, (k, n) in enumerate(seq):
        if k == "r" and n not in defs:
            undefined = True
        if k == "d":
            defs.setdefault(n, set()).add("s%d" % i)
    if got == "E":
        return None
    if undefined:
        return "a reference to an undefined label was accepted and produced %s" % (got,)
    if got == "OTHER" or len(got) != len(seq):
        return "the datum read is not the list of %d symbols: %s" % (len(seq), got)
    seen = {}
    for i, (k, n) in enumerate(seq):
        if k == "d":
            seen.setdefault(n, set()).add("s%d" % i)
            if got[i] != "s%d" % i:
                return "element %d should be s%d, got %s" % (i, i, got[i])
        elif got[i] not in seen.get(n, ()):
            return "element %d (#%d#) should be one of %s, got %s" % (i, n, sorted(seen.get(n, ())), got[i])
    return None


def run_labels(arg):
    jobno, seqs = arg
    d = common.scratch_dir("c01l")
    p = os.path.join(d, "job.scm")
    common.write_file(p, LABEL_DRIVER + "".join('(run %d "%s")\n' % (i, label_text(sq)) for i, sq in enumerate(seqs)))
    r = common.evalbatch("asan", [p], heap="64M/512M", env=ENV, timeout=900, cwd=d)
    res = {}
    for m in re.finditer(r"^#L([NL]) (\d+) (.*)$", r.out, re.M):
        v = m.group(3).strip()
        res[(m.group(1), int(m.group(2)))] = v if v in ("E", "OTHER") else v.strip("()").split()
    import shutil
    shutil.rmtree(d, ignore_errors=True)
    return jobno, res, r.rc, r.timed_out, asan_sites(r.out), r.out[-600:]


# ---------------------------------------------------------------- token lengths around the reader's buffer sizes
TOKLEN_DRIVER = r"""
(import (scheme base) (scheme write) (scheme char) (prefix (scheme read) lib:) (only (chibi) read))
(define (rd-native s) (read (open-input-string s)))
(define (rd-lib s) (lib:read (open-input-string s)))
(define escapes '(("\\x3bb;" . #x3bb) ("\\x20ac;" . #x20ac) ("\\x1f600;" . #x1f600) ("\\x41;" . #x41) ("\\n" . 10) ("\\\\" . 92)
                  ("\\\"" . 34) ("\\t" . 9)))
(define raws (list (cons (string (integer->char #xe9)) #xe9) (cons (string (integer->char #x20ac)) #x20ac)
                   (cons (string (integer->char #x1f600)) #x1f600) (cons "z" 122)))
(define (report kind len who ok detail)
  (display "#T ") (display kind) (display " ") (display len) (display " ") (display who) (display " ")
  (display (if ok "ok" "BAD")) (if (not ok) (begin (display " ") (write detail))) (newline))
(define (try thunk) (guard (e (#t (list 'error (if (error-object? e) (error-object-message e) e)))) (thunk)))
(define (check-string kind len who rd text want-len want-last)
  (let ((x (try (lambda () (rd text)))))
    (report kind len who
            (and (string? x) (= (string-length x) want-len) (= (char->integer (string-ref x (- want-len 1))) want-last)
                 (char=? (string-ref x 0) #\a))
            (if (string? x) (list (string-length x) want-len) x))))
(define (check-symbol kind len who rd text want-len want-last)
  (let ((x (try (lambda () (rd text)))))
    (report kind len who
            (and (symbol? x) (let ((s (symbol->string x))) (and (= (string-length s) want-len) (= (char->integer (string-ref s (- want-len 1))) want-last))))
            (if (symbol? x) (string-length (symbol->string x)) x))))
(define (run-len n)
  (let ((body (make-string n #\a)))
    (for-each
     (lambda (who rd)
       (for-each (lambda (e)
                   (check-string "str-esc" n who rd (string-append "\"" body (car e) "\"") (+ n 1) (cdr e))
                   (check-string "str-esc-mid" n who rd (string-append "\"" body (car e) "aa\"") (+ n 3) 97)
                   (if (not (member (car e) '("\\\"")))
                       (check-symbol "bar-esc" n who rd (string-append "|" body (car e) "|") (+ n 1) (cdr e))))
                 escapes)
       (for-each (lambda (r)
                   (check-string "str-raw" n who rd (string-append "\"" body (car r) "\"") (+ n 1) (cdr r))
                   (check-symbol "sym-raw" n who rd (string-append body (car r)) (+ n 1) (cdr r)))
                 raws)
       (let ((x (try (lambda () (rd (make-string n #\9))))))
         (report "int" n who (and (exact-integer? x) (= x (- (expt 10 n) 1))) (if (number? x) 'wrong-number x)))
       (let ((x (try (lambda () (rd (string-append "0." (make-string n #\3)))))))
         (report "dec" n who (and (real? x) (< 0.29 x 0.34)) x))
       (let ((x (try (lambda () (rd (string-append "#\\x" (make-string n #\0) "41"))))))
         (report "char-hex" n who (or (eqv? x #\A) (and (pair? x) (eq? (car x) 'error))) x))
       (let ((x (try (lambda () (rd (string-append "#u8(" (apply string-append (map (lambda (i) "7 ") (make-list n 0))) ")"))))))
         (report "u8" n who (and (bytevector? x) (= (bytevector-length x) n)) (if (bytevector? x) (bytevector-length x) x))))
     '("native" "library") (list rd-native rd-lib))))
"""
TOKLENS_QUICK = sorted(set([1, 2, 3, 7, 30, 31, 32, 33] + [2 ** k + d for k in (6, 7, 8, 9, 10) for d in (-6, -5, -4, -3, -2, -1, 0, 1, 2)] + [1190, 1195, 1198, 1199, 1200, 1201, 1205]))
TOKLENS_THOROUGH = sorted(set(TOKLENS_QUICK + list(range(100, 140)) + list(range(240, 270)) + list(range(500, 520)) + list(range(1015, 1035))
                              + [2 ** k + d for k in (11, 12, 13, 14, 16) for d in (-4, -3, -2, -1, 0, 1, 2)] + list(range(1180, 1215))))


def run_toklen(arg):
    jobno, lens = arg
    d = common.scratch_dir("c01t")
    p = os.path.join(d, "job.scm")
    common.write_file(p, TOKLEN_DRIVER + "".join("(run-len %d)\n" % n for n in lens))
    r = common.evalbatch("asan", [p], heap="64M/512M", env=ENV, timeout=900, cwd=d)
    lines = re.findall(r"^#T (\S+) (\d+) (\S+) (ok|BAD)(.*)$", r.out, re.M)
    import shutil
    shutil.rmtree(d, ignore_errors=True)
    return jobno, lens, lines, r.rc, r.timed_out, asan_sites(r.out), r.out[-600:]


# ---------------------------------------------------------------- nesting depth
NEST_DRIVER = r"""
(import (scheme base) (scheme write) (scheme read) (scheme eval))
(define (rep s n) (let ((o (open-output-string))) (do ((i 0 (+ i 1))) ((= i n)) (write-string s o)) (get-output-string o)))
(define (deep-list n) (let loop ((i 0) (x '())) (if (= i n) x (loop (+ i 1) (list x)))))
(define (deep-vector n) (let loop ((i 0) (x '#())) (if (= i n) x (loop (+ i 1) (vector x)))))
(define (outcome thunk) (guard (e (#t 'error)) (thunk) 'value))
(define (case-run tag n)
  (display "#N ") (display tag) (display " ") (display n) (display " ")
  (write
   (case tag
     ((read-parens) (outcome (lambda () (read (open-input-string (string-append (rep "(" n) (rep ")" n)))))))
     ((read-open-only) (outcome (lambda () (read (open-input-string (rep "(" n))))))
     ((read-vectors) (outcome (lambda () (read (open-input-string (string-append (rep "#(" n) (rep ")" n)))))))
     ((read-quotes) (outcome (lambda () (read (open-input-string (string-append (rep "'" n) "x"))))))
     ((read-comments) (outcome (lambda () (read (open-input-string (string-append (rep "#;" n) (rep "1 " n) "x"))))))
     ((write-list) (outcome (lambda () (let ((o (open-output-string))) (write (deep-list n) o) (string-length (get-output-string o))))))
     ((write-vector) (outcome (lambda () (let ((o (open-output-string))) (write (deep-vector n) o) (string-length (get-output-string o))))))
     ((equal-list) (outcome (lambda () (equal? (deep-list n) (deep-list n)))))
     ((eval-nested) (outcome (lambda () (eval (let loop ((i 0) (x 1)) (if (= i n) x (loop (+ i 1) (list 'car (list 'list x))))) (environment '(scheme base))))))
     ((eval-quoted) (outcome (lambda () (eval (list 'quote (deep-list n)) (environment '(scheme base))))))
     ((length-long) (outcome (lambda () (length (make-list n 0)))))
     ((apply-long) (outcome (lambda () (apply + (make-list n 1)))))
     ((apply-lambda-deep)     ; the call happens 300 frames up the VM stack; the result must be the number of arguments
      (outcome (lambda ()
                 (let ((r (let down ((d 300)) (if (= d 0) (apply (lambda xs (length xs)) (make-list n 1)) (+ 0 (down (- d 1)))))))
                   (if (not (= r n)) (begin (display "WRONG ") (display r) (display " ")))))))
     ((apply-list-deep)
      (outcome (lambda ()
                 (let ((r (let down ((d 100)) (if (= d 0) (length (apply list (make-list n 1))) (+ 0 (down (- d 1)))))))
                   (if (not (= r n)) (begin (display "WRONG ") (display r) (display " ")))))))
     ((append-long) (outcome (lambda () (length (append (make-list n 0) '(1))))))
     ((list->string-long) (outcome (lambda () (string-length (list->string (make-list n #\a))))))
     (else 'unknown)))
  (newline))
"""
NEST_TAGS = ["read-parens", "read-open-only", "read-vectors", "read-quotes", "read-comments", "write-list", "write-vector", "equal-list",
             "eval-nested", "eval-quoted", "length-long", "apply-long", "apply-lambda-deep", "apply-list-deep", "append-long", "list->string-long"]
PROBE_AFTER = '(begin (display "#P ") (write (list (+ 1 2) (string-append "a" "b") (guard (e (#t (quote caught))) (car 1)) (vector-length (make-vector 3 0)))) (newline))\n'


def run_nest(arg):
    variant, tag, n = arg
    d = common.scratch_dir("c01n")
    p = os.path.join(d, "job.scm")
    common.write_file(p, NEST_DRIVER + "(case-run '%s %d)\n" % (tag, n) + PROBE_AFTER)
    r = common.evalbatch(variant, [p], heap="64M/2G", env=ENV if variant == "asan" else None, timeout=600, cwd=d)
    m = re.search(r"^#N (\S+) (\d+) (\S+)", r.out, re.M)
    if not m and re.search(r"^;;EXC \d+ \S+ out of stack space", r.out, re.M):
        # the out-of-stack error object is returned to the embedding caller (it bypasses guard): a legal outcome
        m = re.match(r"(\S+) (\S+) (\S+)", "%s %d error-to-caller" % (tag, n))
    probe = re.search(r"^#P (.*)$", r.out, re.M)
    import shutil
    shutil.rmtree(d, ignore_errors=True)
    return variant, tag, n, (m.group(3) if m else None), (probe.group(1) if probe else None), r.rc, r.timed_out, asan_sites(r.out), r.out[-600:]


def main(tier):
    chk = Check("C01", "exploration", tier, quick_s=170, thorough_s=1500)
    chk.clean_replays()
    quick = tier == "quick"
    chk.rule = ("(1) every exported R7RS-small procedure (by introspection) + string-cursor primitives x all tuples of a 67-value alphabet for "
                "arity <= 2 and a 12-value core third argument; (2) read / (scheme read) / string->number radix 2,10,16 on all byte strings of "
                "length <= %d (eval for length <= %d) over a %d-symbol reader alphabet incl. invalid UTF-8 bytes; (3) 14 nesting/length families at "
                "depths up to 10^6 on the ASan and the plain build.  distinct_nontrivial = calls that ended in a caught exception + texts rejected "
                "by a reader + nesting cases beyond depth 1000") % (3 if quick else 4, 2 if quick else 3, len(ALPHA) + len(BAD_BYTES))
    chk.assumptions = ["heap limit 512 MB; allocation failures and the per-call instruction budget (delivered as an interrupt error) are excluded outcomes",
                       "calls that legitimately do not terminate are skipped: huge counts with circular lists, write-simple of circular data, expt with a huge exponent, exit",
                       "ASan build with the slack after every object and every free chunk poisoned"]
    build.build_variant("asan")
    build.build_variant("opt")
    names = catalogue()
    items = []
    idx = 0
    for nm in names:
        for ar in (0, 1, 2, 3):
            items.append((idx, nm, ar))
            idx += 1
    # arity-2/3 batches are the heavy ones: spread them
    heavy = [it for it in items if it[2] >= 2]
    light = [it for it in items if it[2] < 2]
    jobs = []
    per = 6
    for j, lo in enumerate(range(0, len(heavy), per)):
        jobs.append((j, heavy[lo:lo + per]))
    jobs.append((len(jobs), light))
    log("C01 (1): %d procedures, %d batches" % (len(names), len(jobs)))
    ncalls = nerr = nskip = 0
    by_site = {}
    with Pool(common.NCPU) as pool:
        for jobno, its, lines, rc, timed_out, sites, tail, wall in pool.imap_unordered(run_calls, jobs):
            for idx_, nm, ar in its:
                ln = lines.get(idx_)
                if ln is None:
                    chk.violation({"op": "call:" + nm, "name": nm, "arity": ar, "kind": "hang" if timed_out else "crash", "rc": rc},
                                  "%s with arity %d: the batch %s before printing its result (rc=%s): %s" % (
                                      nm, ar, "hung (C-level loop or watchdog)" if timed_out else "died", rc, tail[-300:]),
                                  open(DRIVER).read() + "(run 0 '%s %d)\n" % (nm, ar) + "#| output of the batch:\n" + tail.replace("|#", "| #") + "\n|#\n")
                    break
                ncalls += ln[3] + ln[4]
                nerr += ln[4]
                nskip += ln[5]
                chk.count(ln[3], outcome="value")
                chk.count(ln[4], outcome="exception")
                if ln[6] != "probe-ok":
                    chk.violation({"op": "probe:" + nm, "name": nm, "arity": ar}, "after the calls of %s (arity %d) the same context no longer evaluates the probe program as a pristine one" % (nm, ar),
                                  open(DRIVER).read() + "(run 0 '%s %d)\n" % (nm, ar))
            for kind, fn, loc in sorted(set(sites)):
                key = (kind, fn, loc)
                if kind == "nonterm":
                    if ("nonterm", fn) not in by_site:
                        by_site[("nonterm", fn)] = True
                        chk.violation({"op": "nonterm:" + fn, "name": fn, "args": loc},
                                      "(%s %s): the call exhausts its budget (300000 VM instructions / 40 ms CPU) although every argument is small: it does not terminate" % (fn, loc.strip("()")),
                                      "(import (scheme base) (scheme char) (scheme inexact) (scheme complex) (scheme write))\n(write (%s %s))\n;; expected: a value or an error, promptly\n" % (fn, loc.strip("()")))
                    continue
                if key not in by_site:
                    by_site[key] = [it[1] for it in its]
                    chk.violation({"op": "asan:" + fn, "kind": kind, "function": fn, "site": loc, "procedures": [it[1] for it in its]},
                                  "AddressSanitizer %s in %s (%s) while calling one of %s" % (kind, fn, loc, sorted(set(it[1] for it in its))),
                                  open(DRIVER).read() + "".join("(run %d '%s %d)\n" % it for it in its))
            if chk.out_of_time():
                pool.terminate()
                break
    log("C01 (1) done: %d calls" % ncalls)
    chk.nontrivial_n += nerr
    chk.exclude("legitimately non-terminating / memory-exhausting call skipped", nskip)
    chk.sample("(substring \"héllo\" -1 4611686018427387904) ; one of the %d x 67^2 two-argument calls" % len(names))
    chk.cov["procedures"] = len(names)
    chk.cov["calls"] = ncalls
    # ---- (2)
    nsym = len(ALPHA) + len(BAD_BYTES)
    rjobs = []
    j = 0
    maxlen = 3 if quick else 4
    for length in range(1, maxlen + 1):
        step = 1 if length >= 3 else nsym
        for lo in range(0, nsym, step):
            rjobs.append((j, length, lo, min(nsym, lo + step), length <= (2 if quick else 3)))
            j += 1
    ntexts = 0
    with Pool(common.NCPU) as pool:
        for jobno, spec, counts, rc, timed_out, sites, tail in pool.imap_unordered(run_reader, rjobs):
            if counts is None or rc != 0 or timed_out:
                chk.violation({"op": "reader-crash", "spec": list(spec), "rc": rc, "hang": timed_out},
                              "reader batch (length %d, first symbol %d..%d) %s: %s" % (spec[0], spec[1], spec[2], "hung" if timed_out else "died rc=%s" % rc, tail[-400:]))
                continue
            n = counts[0] + counts[1]
            ntexts += n
            chk.count(counts[0], outcome="read-value")
            chk.count(counts[1], outcome="read-error")
            chk.nontrivial_n += counts[1]
            for kind, fn, loc in sorted(set(sites)):
                if kind == "double-return":
                    chk.violation({"op": "eval-double-return", "detail": fn, "spec": list(spec)},
                                  "error containment: %s (texts of length %d)" % (fn, spec[0]))
                    continue
                chk.violation({"op": "asan-reader:" + fn, "kind": kind, "site": loc, "spec": list(spec)},
                              "AddressSanitizer %s in %s (%s) while reading texts of length %d" % (kind, fn, loc, spec[0]))
            if chk.out_of_time():
                pool.terminate()
                break
    log("C01 (2) done: %d texts" % ntexts)
    chk.cov["texts"] = ntexts
    # ---- (2b) datum labels: every sequence of <= 3 label definitions / references over a label lattice, both readers
    seqs = label_texts(3)
    per = 4000
    ljobs = [(j, seqs[lo:lo + per]) for j, lo in enumerate(range(0, len(seqs), per))]
    nlab = 0
    with Pool(common.NCPU) as pool:
        for jobno, res, rc, timed_out, sites, tail in pool.imap_unordered(run_labels, ljobs):
            sq = ljobs[jobno][1]
            if rc != 0 or timed_out:
                chk.violation({"op": "label-crash", "job": jobno, "rc": rc, "hang": timed_out}, "datum label batch %d %s: %s" % (
                    jobno, "hung" if timed_out else "died rc=%s" % rc, tail[-300:]))
                continue
            for kind, fn, loc in sorted(set(sites)):
                chk.violation({"op": "asan-reader:" + fn, "kind": kind, "site": loc, "spec": "labels"},
                              "AddressSanitizer %s in %s (%s) while reading datum labels" % (kind, fn, loc))
            for i, one in enumerate(sq):
                for rd in "NL":
                    got = res.get((rd, i))
                    nlab += 1
                    why = "no result" if got is None else label_verdict(one, got)
                    chk.count(1, outcome="label-error" if got == "E" else "label-value", key=("label", rd, one) if got == "E" else None)
                    if why:
                        chk.violation({"op": "reader-label:" + ("native" if rd == "N" else "library"), "text": label_text(one)},
                                      "%s read of %s: %s" % ("native" if rd == "N" else "(scheme read)", label_text(one), why),
                                      LABEL_DRIVER + '(run 0 "%s")\n' % label_text(one))
    chk.cov["label_texts"] = nlab
    # ---- (2c) token lengths around the reader's buffer sizes: strings / |symbols| ending in every kind of escape or a multi-byte
    #      character, plain symbols, integers, decimals, #\\x characters, bytevectors, for every length of a lattice, both readers
    lens = TOKLENS_QUICK if quick else TOKLENS_THOROUGH
    per = max(1, len(lens) // (common.NCPU * 2))
    tjobs = [(j, lens[lo:lo + per]) for j, lo in enumerate(range(0, len(lens), per))]
    ntok = 0
    with Pool(common.NCPU) as pool:
        for jobno, ls, lines, rc, timed_out, sites, tail in pool.imap_unordered(run_toklen, tjobs):
            if rc != 0 or timed_out:
                chk.violation({"op": "toklen-crash", "lengths": ls, "rc": rc, "hang": timed_out}, "token length batch %s %s: %s" % (
                    ls[:3], "hung" if timed_out else "died rc=%s" % rc, tail[-300:]), TOKLEN_DRIVER + "".join("(run-len %d)\n" % n for n in ls))
            for kind, fn, loc in sorted(set(sites)):
                chk.violation({"op": "asan-reader:" + fn, "kind": kind, "site": loc, "spec": "token-length", "lengths": ls[:6]},
                              "AddressSanitizer %s in %s (%s) while reading tokens of lengths %s.." % (kind, fn, loc, ls[:6]),
                              TOKLEN_DRIVER + "".join("(run-len %d)\n" % n for n in ls))
            for kind, n, who, verdict, detail in lines:
                ntok += 1
                chk.count(1, outcome="token-" + verdict.lower(), key=("tok", kind, n, who))
                if verdict != "ok":
                    chk.violation({"op": "reader-token:" + kind, "length": int(n), "reader": who, "detail": detail.strip()[:200]},
                                  "%s reader, %s token of length %s: wrong datum %s" % (who, kind, n, detail.strip()[:200]),
                                  TOKLEN_DRIVER + "(run-len %s)\n" % n)
    chk.cov["token_length_cases"] = ntok
    chk.sample("\"" + "a" * 6 + "...(125 a's)\\x3bb;\" : a string literal whose final escape straddles the reader's 128-byte buffer")
    chk.sample("(#10=s0 #23=s1 #100#) : three label tokens over the lattice %s" % LABELS)
    chk.sample("text bytes 28 c3 22 5c : '(' 0xC3 '\"' '\\\\' fed to read, (scheme read), string->number, eval")
    # ---- (3)
    depths = [10, 1000, 20000, 100000] + ([] if quick else [950, 1100, 5000, 300000, 1000000, 1100000])
    # (apply + <list>) folds its arguments in quadratic time (80 000 arguments: 13 s, 10^6: half an hour) - slow, not a hang: the N-ary
    # arithmetic primitive is only driven to 10^5 arguments; apply itself goes to 1.1 * 10^6 through the two -deep families
    njobs = [(v, t, n) for v in ("asan", "opt") for t in NEST_TAGS for n in depths if not (t == "apply-long" and n > 100000)]
    with Pool(common.NCPU) as pool:
        nres = list(pool.imap_unordered(run_nest, njobs))
    opt_ok = {(tag, n) for variant, tag, n, outcome, probe, rc, timed_out, sites, tail in nres
              if variant == "opt" and outcome in ("value", "error", "error-to-caller") and rc == 0 and not timed_out}
    if True:
        for variant, tag, n, outcome, probe, rc, timed_out, sites, tail in nres:
            chk.count(1, outcome="nest-" + str(outcome))
            if n > 1000:
                chk.nontrivial_n += 1
            if variant == "asan" and any(k == "stack-overflow" for k, _, _ in sites) and (tag, n) in opt_ok:
                # C-stack exhaustion that only the instrumented build shows (ASan inflates frames); the plain build is fine
                chk.exclude("C stack overflow only under ASan frame inflation (plain build ends cleanly)")
                continue
            if timed_out and not sites:
                # out of wall-clock time (600 s): undecided here; a real hang shows again when the replay file is run alone
                chk.exhaustive = False
                log("C01 (3): %s at depth %d on %s ran out of wall-clock time: undecided" % (tag, n, variant))
                continue
            if outcome not in ("value", "error", "error-to-caller") or rc != 0 or sites:
                chk.violation({"op": "nesting:" + tag, "variant": variant, "depth": n, "rc": rc, "hang": timed_out, "sites": sites},
                              "%s at depth %d on the %s build: %s (rc=%s) %s" % (tag, n, variant, "hang" if timed_out else ("no outcome" if outcome is None else outcome), rc, tail[-300:]),
                              NEST_DRIVER + "(case-run '%s %d)\n" % (tag, n) + PROBE_AFTER)
            elif probe != '(3 "ab" caught 3)':
                chk.violation({"op": "nesting-probe:" + tag, "variant": variant, "depth": n}, "after %s at depth %d the context is no longer usable: probe %r" % (tag, n, probe))
    chk.sample("read of '(' x 100000 followed by ')' x 100000")
    common.cleanup_scratch()
    return chk.finish()
