"""C12 -- strings are sequences of Unicode scalar values whatever the byte encoding.

Explicit-state exploration on the real implementation (level model_checking):

  * content alphabet {a (1 byte), U+E9 (2), U+20AC (3), U+1F600 (4)}; every content of length <= 3 (quick) / 4 (thorough)
  * initial states = every content x every construction route (ROUTES below: 13 standard routes + 2 routes through
    (chibi io) utf8->string!, which shares a bytevector at an offset)
  * from every state EVERY operation of OPNAME with EVERY argument choice in range is applied (ops_for):
    string-set!, string-fill!, string-copy! incl. source = target, substring, string-copy, string-append (results of
    at most nmax+2 characters), list/vector/utf8 round trips with ranges, symbol round trip, string ports
    (write-string, write-char, display, read-char, peek-char, read-string, read-line, a real file), cursors,
    string-ref, comparisons, and (chibi ast) immutable-string, which exercises the copy-on-write branch of string-set!.
    Characters written are the content alphabet plus one same-width alternate per width, so that in-place writes
    change the content; successors holding an alternate are checked but not expanded (symmetry reduction).
  * all histories of length <= 2 (quick) / 3 (thorough); level-synchronous BFS: every initial state is
    expanded (no de-duplication at depth 0); deeper states are de-duplicated on the key
        (code points, byte length, byte-store length, offset, immutable flag, producer class)
    where store length / offset / immutable flag are OBSERVED on the implementation ((chibi io) string-offset,
    string->utf8!, (chibi ast) immutable?) and the producer class is the C code path that built the byte store.
  * every transition is executed on the implementation (a data-driven Scheme driver, thousands of histories per
    process, each history rebuilt from its initial state); after every step the driver prints
    (string->list s) as code points, (string-length s), (string->utf8 s), and the representation facts.
    Python compares with the list-of-code-points model (mc/models/ustring.py), checks the bytes are the
    well-formed UTF-8 encoding of exactly those code points, and that mutating a literal raises and leaves it alone.
  * the exhaustive scalar loop: all 1 112 064 scalar values through char -> string -> utf8 -> string -> char,
    string-set! with a width change, make-string and a string port, against an arithmetic encoder written in Scheme
    with fixnum arithmetic, plus a rolling checksum per 4096-block recomputed in Python (opt; thorough also asan).
  * all triples over the 21 contents of length <= 2 for transitivity / variadic forms of string<? etc.
  * histories run on the `asan` variant with VERIF_POISON=1 (heap slack and free chunks poisoned), ASan in recover
    mode; any AddressSanitizer report / signal / early exit is a violation.

Mutation adequacy was checked once by hand on a private copy of /repo (quick tier): memcpy tail length off by one in
sexp_string_utf8_set, sexp_utf8_initial_byte_count returning 3 for 4-byte leads, string-copy! direction test inverted,
copy-on-write test dropped from sexp_string_utf8_set -- each produced thousands of violations on the standard routes.
Candidate defects found on the unmodified tree: mc/props/c12.NOTES.md.
"""
import os, sys, time, shutil, itertools, re
from multiprocessing import Pool

from .. import common, build
from ..common import Check, log
from ..models import ustring as U

ALPHA = [0x61, 0xE9, 0x20AC, 0x1F600]
ALT = [0x62, 0xF1, 0x2030, 0x1F601]             # same-width alternates: make in-place (same width) writes change the content
AL8 = ALPHA + ALT
SRC = [0x1F600, 0x61, 0x20AC, 0xE9]            # source string of string-copy! from another string
PAD_L = [0x20AC, 0x61]                          # "longer string" = PAD_L + content + PAD_R
PAD_R = [0xE9, 0x1F600]
PAD_L_BYTES = 4

ROUTES = [
    # (name, producer class, literal?)
    ("literal", "lit", True),
    ("make-string a + string-set! ascending", "mk", False),
    ("make-string U+1F600 + string-set! descending", "mk", False),
    ("string", "oport", False),
    ("list->string", "oport", False),
    ("string-append of two halves", "concat", False),
    ("substring of a longer literal", "substr", False),
    ("string-copy of a literal", "substr", False),
    ("utf8->string", "substr", False),
    ("utf8->string with start/end into a longer bytevector", "substr", False),
    ("symbol->string", "sym", False),
    ("read-string from a string port", "readstr", False),
    ("get-output-string", "oport", False),
    ("utf8->string! sharing a longer bytevector at offset 4 (chibi io)", "shared", False),
    ("utf8->string! sharing a bytevector at offset 0 (chibi io)", "shared", False),
]
R_SHARED_OFF, R_SHARED_0 = 13, 14

PRELUDE = r"""
(import (scheme base) (scheme write) (scheme file) (chibi)
        (only (chibi io) string-offset string->utf8! utf8->string!)
        (only (chibi ast) immutable? immutable-string))
(define ALPHA (vector (integer->char 97) (integer->char 233) (integer->char 8364) (integer->char 128512)
                      (integer->char 98) (integer->char 241) (integer->char 8240) (integer->char 128513)))
(define (alpha i) (vector-ref ALPHA i))
(define (alpha-string i) (if (= i 4) "" (string (alpha i))))
(define SRC (list 128512 97 8364 233))
(define (plist ls)
  (let lp ((ls ls) (first #t))
    (if (pair? ls)
        (begin (if (not first) (write-char #\,))
               (write (car ls))
               (lp (cdr ls) #f)))))
(define (pbytes bv)
  (let ((n (bytevector-length bv)))
    (do ((i 0 (+ i 1))) ((= i n))
      (if (> i 0) (write-char #\,))
      (write (bytevector-u8-ref bv i)))))
(define (bv->list bv)
  (let lp ((i (- (bytevector-length bv) 1)) (acc '()))
    (if (< i 0) acc (lp (- i 1) (cons (bytevector-u8-ref bv i) acc)))))
(define (pstate s)
  (write-char #\|)
  (guard (e (#t (write-char #\X))) (plist (map char->integer (string->list s))))
  (write-char #\;)
  (write (string-length s)) (write-char #\;)
  (pbytes (string->utf8 s)) (write-char #\;)
  (write (string-offset s)) (write-char #\;)
  (write (bytevector-length (string->utf8! s))) (write-char #\;)
  (write (if (immutable? s) 1 0)))
(define (pobs obs)
  (for-each (lambda (x)
              (cond ((pair? x) (plist x)) ((null? x) #f) (else (write x)))
              (write-char #\;))
            obs))
(define (c->i c) (if (eof-object? c) -1 (char->integer c)))
(define (s->cps s) (if (eof-object? s) (list -1) (map char->integer (string->list s))))
(define (b->i b) (if b 1 0))
(define (take ls k) (if (= k 0) '() (cons (car ls) (take (cdr ls) (- k 1)))))
(define (drop ls k) (if (= k 0) ls (drop (cdr ls) (- k 1))))
(define (skip-chars p j) (do ((i 0 (+ i 1))) ((= i j)) (read-char p)))
(define (via-port proc) (let ((o (open-output-string))) (proc o) (get-output-string o)))
(define (cursor-at s i)
  (let lp ((c (string-cursor-start s)) (i i))
    (if (= i 0) c (lp (string-cursor-next s c) (- i 1)))))

;; one step: returns (new-string . observations)
(define (step s op)
  (let ((k (vector-ref op 0)) (a (vector-ref op 1)) (b (vector-ref op 2)) (c (vector-ref op 3)))
    (case k
      ((1) (string-set! s a (alpha b)) (list s))
      ((2) (string-fill! s (alpha a)) (list s))
      ((3) (string-fill! s (alpha a) b) (list s))
      ((4) (string-fill! s (alpha a) b c) (list s))
      ((5) (string-copy! s a s) (list s))
      ((6) (string-copy! s a s b) (list s))
      ((7) (string-copy! s a s b c) (list s))
      ((8) (string-copy! s a (list->string (map integer->char SRC)) b c) (list s))
      ((10) (list (substring s a b)))
      ((11) (list (string-copy s)))
      ((12) (list (string-copy s a)))
      ((13) (list (string-copy s a b)))
      ((14) (list (string-append s (alpha-string a))))
      ((15) (list (string-append (alpha-string a) s)))
      ((16) (list (string-append s s)))
      ((17) (list (string-append s)))
      ((18) (list (string-append (alpha-string 1) s (alpha-string 3))))
      ((20) (let ((l (string->list s))) (list (list->string l) (map char->integer l))))
      ((21) (let ((l (string->list s a))) (list (list->string l) (map char->integer l))))
      ((22) (let ((l (string->list s a b))) (list (list->string l) (map char->integer l))))
      ((23) (let ((v (string->vector s))) (list (vector->string v) (map char->integer (vector->list v)))))
      ((24) (let ((v (string->vector s a))) (list (vector->string v) (map char->integer (vector->list v)))))
      ((25) (let ((v (string->vector s a b))) (list (vector->string v) (map char->integer (vector->list v)))))
      ((26) (let ((v (string->vector s))) (list (vector->string v a b) (vector-length v))))
      ((27) (let ((u (string->utf8 s))) (list (utf8->string u) (bv->list u))))
      ((28) (let ((u (string->utf8 s a))) (list (utf8->string u) (bv->list u))))
      ((29) (let ((u (string->utf8 s a b))) (list (utf8->string u) (bv->list u))))
      ((30) (let ((u (string->utf8 s))) (list (utf8->string u a b) (bytevector-length u))))
      ((31) (let ((u (string->utf8 s))) (list (utf8->string u a) (bytevector-length u))))
      ((32) (list (symbol->string (string->symbol s))))
      ((33) (list (via-port (lambda (o) (write-string s o)))))
      ((34) (list (via-port (lambda (o) (write-string s o a)))))
      ((35) (list (via-port (lambda (o) (write-string s o a b)))))
      ((36) (list (via-port (lambda (o) (string-for-each (lambda (ch) (write-char ch o)) s)))))
      ((37) (list (via-port (lambda (o) (display s o)))))
      ((38) (let ((p (open-input-string s)))
              (skip-chars p a)
              (let ((r (read-string b p)))
                (list (if (string? r) r s) (if (string? r) 1 -1)))))
      ((39) (let ((p (open-input-string s)))
              (skip-chars p a)
              (let* ((pk (peek-char p)) (r (read-string b p)))
                (list (if (string? r) r s) (if (string? r) 1 -1) (c->i pk)))))
      ((40) (let ((p (open-input-string (string-append s (string #\newline) s))))
              (let* ((l1 (read-line p)) (l2 (read-line p)) (l3 (read-line p)))
                (list l1 (s->cps l2) (s->cps l3)))))
      ((54) (list (substring-cursor s (cursor-at s a) (cursor-at s b))))
      ;; (chibi ast) immutable-string: an immutable string sharing the bytes, the original becomes copy-on-write
      ((60) (let ((snap (immutable-string s)))
              (string-set! s a (alpha b))
              (list s (s->cps snap) (b->i (immutable? snap)))))
      ((61) (immutable-string s) (list s))
      ((62) (list (immutable-string s)))
      ((50) (list s (char->integer (string-ref s a))))
      ((51) (let ((end (string-cursor-end s)))
              (let lp ((cur (string-cursor-start s)) (acc '()) (fuel 40))
                (if (and (string-cursor<? cur end) (> fuel 0))
                    (lp (string-cursor-next s cur)
                        (cons (char->integer (string-cursor-ref s cur))
                              (cons (string-cursor-offset cur) (cons (string-cursor->index s cur) acc)))
                        (- fuel 1))
                    (list s (reverse (cons (string-cursor-offset cur) (cons (string-cursor->index s cur) acc))))))))
      ((52) (let ((start (string-cursor-start s)))
              (let lp ((cur (string-cursor-end s)) (acc '()) (fuel 40))
                (if (and (string-cursor>? cur start) (> fuel 0))
                    (let ((pv (string-cursor-prev s cur)))
                      (lp pv
                          (cons (char->integer (string-cursor-ref s pv))
                                (cons (string-cursor-offset pv) (cons (string-cursor->index s pv) acc)))
                          (- fuel 1)))
                    (list s (reverse acc) (b->i (string-cursor=? cur start)))))))
      ((53) (let ((cur (string-index->cursor s a)))
              (list s (string-cursor-offset cur) (string-cursor->index s cur)
                    (b->i (string-cursor=? cur (cursor-at s a)))
                    (b->i (string-cursor<=? (string-cursor-start s) cur))
                    (b->i (string-cursor<=? cur (string-cursor-end s))))))
      ((55) (let ((y (if (< a 0) (string-copy s) (vector-ref CMP a))))
              (list s (list (b->i (string=? s y)) (b->i (string<? s y)) (b->i (string>? s y))
                            (b->i (string<=? s y)) (b->i (string>=? s y))
                            (b->i (string=? y s)) (b->i (string<? y s)) (b->i (string>? y s))
                            (b->i (string<=? y s)) (b->i (string>=? y s))
                            (b->i (equal? s y))))))
      ((56) (let ((p (open-input-string s)))
              (let lp ((acc '()) (fuel 40))
                (let* ((pk (peek-char p)) (rd (read-char p)))
                  (if (or (eof-object? rd) (= fuel 0))
                      (list s (reverse (cons (c->i rd) (cons (c->i pk) acc))))
                      (lp (cons (c->i rd) (cons (c->i pk) acc)) (- fuel 1)))))))
      ((57) (let ((p (open-input-string s)))
              (let lp ((acc '()) (fuel 40))
                (let ((r (read-string a p)))
                  (if (or (eof-object? r) (= fuel 0))
                      (cons s (reverse (cons -1 acc)))
                      (lp (cons (string-length r) (cons (s->cps r) acc)) (- fuel 1)))))))
      ((58) (call-with-output-file "o.txt" (lambda (p) (write-string s p)))
            (let ((r (call-with-port (open-binary-input-file "o.txt") (lambda (p) (read-bytevector 200 p)))))
              (list s (if (eof-object? r) '() (bv->list r)))))
      (else (error "bad opcode" k)))))

(define (init route ci)
  (let* ((cps (vector-ref CPS ci)) (chars (map integer->char cps)) (n (length cps))
         (blen (bytevector-length (vector-ref BV ci))))
    (case route
      ((0) (vector-ref LIT ci))
      ((1) (let ((s (make-string n (alpha 0))))
             (let lp ((i 0) (ls chars))
               (if (pair? ls) (begin (string-set! s i (car ls)) (lp (+ i 1) (cdr ls)))))
             s))
      ((2) (let ((s (make-string n (alpha 3))))
             (let lp ((i (- n 1)) (ls (reverse chars)))
               (if (pair? ls) (begin (string-set! s i (car ls)) (lp (- i 1) (cdr ls)))))
             s))
      ((3) (apply string chars))
      ((4) (list->string chars))
      ((5) (let ((h (quotient n 2)))
             (string-append (list->string (take chars h)) (list->string (drop chars h)))))
      ((6) (substring (vector-ref LONG ci) 2 (+ 2 n)))
      ((7) (string-copy (vector-ref LIT ci)))
      ((8) (utf8->string (vector-ref BV ci)))
      ((9) (utf8->string (vector-ref LBV ci) 4 (+ 4 blen)))
      ((10) (symbol->string (vector-ref SYM ci)))
      ((11) (let ((p (open-input-string (vector-ref LONG ci)))) (read-string 2 p) (read-string n p)))
      ((12) (let ((o (open-output-string))) (write-string (vector-ref LIT ci) o) (get-output-string o)))
      ((13) (utf8->string! (bytevector-copy (vector-ref LBV ci)) 4 (+ 4 blen)))
      ((14) (utf8->string! (bytevector-copy (vector-ref BV ci)) 0 blen))
      (else (error "bad route" route)))))

(define (build route ci prefix)
  (let lp ((s (init route ci)) (i 0))
    (if (= i (vector-length prefix))
        s
        (lp (car (step s (vector-ref prefix i))) (+ i 1)))))

(define (run-state id route ci prefix ops lo)
  (let* ((s0 (build route ci prefix)) (pre (string->utf8 s0)) (n (vector-length ops)))
    (write-string "S ") (write id) (pstate s0) (newline) (flush-output-port)
    (do ((i lo (+ i 1))) ((>= i n))
      (let ((s (build route ci prefix)))
        (if (not (equal? (string->utf8 s) pre)) (write-string "!REBUILD "))
        (let ((r (guard (e (#t #f)) (step s (vector-ref ops i)))))
          (cond (r (pobs (cdr r)) (pstate (car r)))
                (else (write-string "E") (pstate s)))
          (newline) (flush-output-port))))))
"""

# ------------------------------------------------------------------ op alphabet

OPNAME = {
    1: "string-set!", 2: "string-fill!", 3: "string-fill!", 4: "string-fill!",
    5: "string-copy!(self)", 6: "string-copy!(self)", 7: "string-copy!(self)", 8: "string-copy!",
    10: "substring", 11: "string-copy", 12: "string-copy", 13: "string-copy",
    14: "string-append", 15: "string-append", 16: "string-append", 17: "string-append", 18: "string-append",
    20: "string->list/list->string", 21: "string->list/list->string", 22: "string->list/list->string",
    23: "string->vector/vector->string", 24: "string->vector/vector->string", 25: "string->vector/vector->string",
    26: "vector->string(range)",
    27: "string->utf8/utf8->string", 28: "string->utf8/utf8->string", 29: "string->utf8/utf8->string",
    30: "utf8->string(range)", 31: "utf8->string(range)",
    32: "string->symbol/symbol->string",
    33: "write-string/get-output-string", 34: "write-string/get-output-string", 35: "write-string/get-output-string",
    36: "write-char/get-output-string", 37: "display/get-output-string",
    38: "read-string", 39: "peek-char+read-string", 40: "read-line",
    60: "immutable-string+string-set!", 61: "immutable-string(mark copy-on-write)", 62: "immutable-string",
    50: "string-ref", 51: "cursor-walk-forward", 52: "cursor-walk-backward", 53: "string-index->cursor",
    54: "substring-cursor", 55: "compare", 56: "peek-char/read-char", 57: "read-string-chunks", 58: "write-string(file)",
}
MUTATORS = {1, 2, 3, 4, 5, 6, 7, 8, 60}
OBSERVERS = {50, 51, 52, 53, 55, 56, 57, 58, 61}
PRODUCER = {10: "substr", 11: "substr", 12: "substr", 13: "substr", 14: "concat", 15: "concat", 16: "concat",
            17: "concat", 18: "concat", 20: "oport", 21: "oport", 22: "oport", 23: "oport", 24: "oport", 25: "oport",
            26: "oport", 27: "substr", 28: "substr", 29: "substr", 30: "substr", 31: "substr", 32: "sym",
            33: "oport", 34: "oport", 35: "oport", 36: "oport", 37: "oport", 38: "readstr", 39: "readstr",
            40: "substr", 54: "substr", 61: "cow", 62: "immshare"}


def contents(nmax):
    out = []
    for n in range(nmax + 1):
        for t in itertools.product(ALPHA, repeat=n):
            out.append(t)
    return out


CMP = [list(t) for t in contents(2)]        # comparands: every content of length <= 2 (21 strings)


def ranges(n):
    for st in range(n + 1):
        for en in range(st, n + 1):
            yield st, en


def ops_for(cps, lmax):
    """every operation with every in-range argument choice for a string of these code points"""
    n = len(cps)
    ops = []
    for i in range(n):
        for ci in range(4):
            ops.append((1, i, ci, 0))
        if cps[i] in ALPHA:
            ops.append((1, i, 4 + ALPHA.index(cps[i]), 0))      # same width, different character: in-place write
    for ci in range(4, 8):
        ops.append((2, ci, 0, 0))
    for ci in range(4):
        ops.append((2, ci, 0, 0))
        for st in range(n + 1):
            ops.append((3, ci, st, 0))
        for st, en in ranges(n):
            ops.append((4, ci, st, en))
    ops.append((5, 0, 0, 0))
    for st in range(n + 1):
        for at in range(st + 1):
            ops.append((6, at, st, 0))
    for st, en in ranges(n):
        for at in range(n - (en - st) + 1):
            ops.append((7, at, st, en))
    for st, en in ranges(len(SRC)):
        for at in range(n - (en - st) + 1):
            ops.append((8, at, st, en))
    for st, en in ranges(n):
        ops.append((10, st, en, 0))
    ops.append((11, 0, 0, 0))
    for st in range(n + 1):
        ops.append((12, st, 0, 0))
    for st, en in ranges(n):
        ops.append((13, st, en, 0))
    for ci in range(5):
        if n + (1 if ci < 4 else 0) <= lmax:
            ops.append((14, ci, 0, 0))
            ops.append((15, ci, 0, 0))
    if 2 * n <= lmax:
        ops.append((16, 0, 0, 0))
    ops.append((17, 0, 0, 0))
    if n + 2 <= lmax:
        ops.append((18, 0, 0, 0))
    for base in (20, 23, 27, 33):
        ops.append((base, 0, 0, 0))
        for st in range(n + 1):
            ops.append((base + 1, st, 0, 0))
        for st, en in ranges(n):
            ops.append((base + 2, st, en, 0))
    for st, en in ranges(n):
        ops.append((26, st, en, 0))
    offs = U.byte_offsets(cps)
    for st, en in ranges(n):
        ops.append((30, offs[st], offs[en], 0))
    for st in range(n + 1):
        ops.append((31, offs[st], 0, 0))
    ops.append((32, 0, 0, 0))
    ops.append((36, 0, 0, 0))
    ops.append((37, 0, 0, 0))
    for j in range(n + 1):
        for k in range(1, n - j + 2):
            ops.append((38, j, k, 0))
            ops.append((39, j, k, 0))
    ops.append((40, 0, 0, 0))
    for st, en in ranges(n):
        ops.append((54, st, en, 0))
    for i in range(n):
        for ci in range(4):
            ops.append((60, i, ci, 0))
        if cps[i] in ALPHA:
            ops.append((60, i, 4 + ALPHA.index(cps[i]), 0))
    ops.append((61, 0, 0, 0))
    ops.append((62, 0, 0, 0))
    for i in range(n):
        ops.append((50, i, 0, 0))
    ops.append((51, 0, 0, 0))
    ops.append((52, 0, 0, 0))
    for i in range(n + 1):
        ops.append((53, i, 0, 0))
    for k in range(-1, len(CMP)):
        ops.append((55, k, 0, 0))
    ops.append((56, 0, 0, 0))
    for k in range(1, n + 2):
        ops.append((57, k, 0, 0))
    ops.append((58, 0, 0, 0))
    return ops


def fmt_obs(items):
    out = []
    for x in items:
        if isinstance(x, (list, tuple)):
            out.append(",".join(str(v) for v in x))
        else:
            out.append(str(x))
        out.append(";")
    return "".join(out)


def byte_index(cps, boff):
    """character index of a byte offset that is a character boundary"""
    return U.byte_offsets(cps).index(boff)


def model_step(cps, cls, op):
    """-> (post code points, post producer class, expected observation items or ('cmp', y), writes, realloc)
    writes = number of characters a mutator stores (0 for non-mutators)."""
    k, a, b, c = op
    s = list(cps)
    n = len(s)
    if k in MUTATORS:
        if k == 1:
            st, new = a, [AL8[b]]
        elif k == 2:
            st, new = 0, [AL8[a]] * n
        elif k == 3:
            st, new = b, [AL8[a]] * (n - b)
        elif k == 4:
            st, new = b, [AL8[a]] * (c - b)
        elif k == 5:
            st, new = a, U.sub(s, 0, n)
        elif k == 6:
            st, new = a, U.sub(s, b, n)
        elif k == 7:
            st, new = a, U.sub(s, b, c)
        elif k == 60:
            st, new = a, [AL8[b]]
        else:
            st, new = a, U.sub(SRC, b, c)
        post = U.copy_into(s, st, new)
        realloc = any(U.width(s[st + i]) != U.width(new[i]) for i in range(len(new)))
        if (k == 60 or cls == "cow") and new:
            realloc = True           # copy-on-write: the store is replaced even when the width is unchanged
        return post, ("realloc" if realloc else cls), ([U.sub(s), 1] if k == 60 else []), len(new), realloc
    pc = PRODUCER.get(k, cls)
    if k == 10 or k == 13 or k == 54:
        return U.sub(s, a, b), pc, [], 0, False
    if k == 11:
        return U.sub(s), pc, [], 0, False
    if k == 12:
        return U.sub(s, a), pc, [], 0, False
    if k == 14:
        return U.append(s, [] if a == 4 else [ALPHA[a]]), pc, [], 0, False
    if k == 15:
        return U.append([] if a == 4 else [ALPHA[a]], s), pc, [], 0, False
    if k == 16:
        return U.append(s, s), pc, [], 0, False
    if k == 17:
        return U.append(s), pc, [], 0, False
    if k == 18:
        return U.append([ALPHA[1]], s, [ALPHA[3]]), pc, [], 0, False
    if k in (20, 23):
        return U.sub(s), pc, [U.sub(s)], 0, False
    if k in (21, 24):
        return U.sub(s, a), pc, [U.sub(s, a)], 0, False
    if k in (22, 25):
        return U.sub(s, a, b), pc, [U.sub(s, a, b)], 0, False
    if k == 26:
        return U.sub(s, a, b), pc, [n], 0, False
    if k == 27:
        return U.sub(s), pc, [U.encode(s)], 0, False
    if k == 28:
        return U.sub(s, a), pc, [U.encode(U.sub(s, a))], 0, False
    if k == 29:
        return U.sub(s, a, b), pc, [U.encode(U.sub(s, a, b))], 0, False
    if k == 30:
        return U.sub(s, byte_index(s, a), byte_index(s, b)), pc, [len(U.encode(s))], 0, False
    if k == 31:
        return U.sub(s, byte_index(s, a)), pc, [len(U.encode(s))], 0, False
    if k in (32, 33, 36, 37):
        return U.sub(s), pc, [], 0, False
    if k == 34:
        return U.sub(s, a), pc, [], 0, False
    if k == 35:
        return U.sub(s, a, b), pc, [], 0, False
    if k in (38, 39):
        got = U.sub(s, a, min(n, a + b))
        obs = [1] if got else [-1]
        if k == 39:
            obs.append(s[a] if a < n else -1)
        if got:
            return got, pc, obs, 0, False
        return s, cls, obs, 0, False
    if k == 40:
        # text = s NL s : line 1 = s; line 2 = s unless s is empty (then end of file); line 3 = end of file
        return U.sub(s), pc, [s if s else [-1], [-1]], 0, False
    if k == 61:
        return s, pc, [], 0, False
    if k == 62:
        return U.sub(s), pc, [], 0, False
    if k == 50:
        return s, cls, [s[a]], 0, False
    offs = U.byte_offsets(s)
    if k == 51:
        walk = []
        for i in range(n):
            walk += [i, offs[i], s[i]]
        walk += [n, offs[n]]
        return s, cls, [walk], 0, False
    if k == 52:
        walk = []
        for i in range(n - 1, -1, -1):
            walk += [i, offs[i], s[i]]
        return s, cls, [walk, 1], 0, False
    if k == 53:
        return s, cls, [offs[a], a, 1, 1, 1], 0, False
    if k == 55:
        return s, cls, ("cmp", s if a < 0 else CMP[a]), 0, False
    if k == 56:
        seq = []
        for ch in s:
            seq += [ch, ch]
        seq += [-1, -1]
        return s, cls, [seq], 0, False
    if k == 57:
        items = []
        for i in range(0, n, a):
            chunk = U.sub(s, i, min(n, i + a))
            items += [chunk, len(chunk)]
        items.append(-1)
        return s, cls, items, 0, False
    if k == 58:
        return s, cls, [U.encode(s)], 0, False
    raise ValueError(op)


def cmp_bits(a, b):
    c = U.compare(a, b)
    eq, lt, gt = int(c == 0), int(c < 0), int(c > 0)
    return [eq, lt, gt, int(c <= 0), int(c >= 0), eq, gt, lt, int(c >= 0), int(c <= 0), eq]


def cmp_check(bits, a, b):
    """R7RS 6.7 only requires: string=? is equality, exactly one of < = > holds, <= iff not >, >= iff not <.
    Returns (ok, agrees_with_code_point_order)."""
    if len(bits) != 11:
        return "unparsable comparison output", False
    eq, lt, gt, le, ge, eq2, lt2, gt2, le2, ge2, eql = bits
    same = int(U.compare(a, b) == 0)
    why = None
    if eq != same or eq2 != same:
        why = "string=? is not equality of the code point sequences"
    elif eql != same:
        why = "equal? on two strings differs from string=? (R7RS 6.1)"
    elif eq + lt + gt != 1 or eq2 + lt2 + gt2 != 1:
        why = "not exactly one of string<? string=? string>? holds (R7RS 6.7)"
    elif le != 1 - gt or ge != 1 - lt or le2 != 1 - gt2 or ge2 != 1 - lt2:
        why = "string<=?/string>=? are not the negations of string>?/string<? (R7RS 6.7)"
    return why, bits == cmp_bits(a, b)


# ------------------------------------------------------------------ rendering histories for people

def sch_char(cp):
    return "(integer->char #x%X)" % cp if cp > 0x7F else "#\\" + chr(cp)


def sch_str(cps):
    return '"' + "".join(chr(c) for c in cps) + '"'


def sch_bv(bs):
    return "#u8(" + " ".join(str(b) for b in bs) + ")"


def render_init(route, cps):
    cps = list(cps)
    n = len(cps)
    lit, longs = sch_str(cps), sch_str(PAD_L + cps + PAD_R)
    bv, lbv = sch_bv(U.encode(cps)), sch_bv(U.encode(PAD_L + cps + PAD_R))
    blen = len(U.encode(cps))
    chars = " ".join(sch_char(c) for c in cps)
    if route == 0:
        return "(define s %s)" % lit
    if route == 1:
        return "(define s (make-string %d #\\a)) %s" % (n, " ".join("(string-set! s %d %s)" % (i, sch_char(c)) for i, c in enumerate(cps)))
    if route == 2:
        return "(define s (make-string %d (integer->char #x1F600))) %s" % (
            n, " ".join("(string-set! s %d %s)" % (i, sch_char(cps[i])) for i in range(n - 1, -1, -1)))
    if route == 3:
        return "(define s (string %s))" % chars
    if route == 4:
        return "(define s (list->string (list %s)))" % chars
    if route == 5:
        h = n // 2
        return "(define s (string-append (string %s) (string %s)))" % (
            " ".join(sch_char(c) for c in cps[:h]), " ".join(sch_char(c) for c in cps[h:]))
    if route == 6:
        return "(define s (substring %s 2 %d))" % (longs, 2 + n)
    if route == 7:
        return "(define s (string-copy %s))" % lit
    if route == 8:
        return "(define s (utf8->string %s))" % bv
    if route == 9:
        return "(define s (utf8->string %s 4 %d))" % (lbv, 4 + blen)
    if route == 10:
        return "(define s (symbol->string '|%s|))" % "".join(chr(c) for c in cps)
    if route == 11:
        return "(define s (let ((p (open-input-string %s))) (read-string 2 p) (read-string %d p)))" % (longs, n)
    if route == 12:
        return "(define s (let ((o (open-output-string))) (write-string %s o) (get-output-string o)))" % lit
    if route == 13:
        return "(define s (utf8->string! (bytevector-copy %s) 4 %d))   ; (chibi io)" % (lbv, 4 + blen)
    if route == 14:
        return "(define s (utf8->string! (bytevector-copy %s) 0 %d))   ; (chibi io)" % (bv, blen)
    raise ValueError(route)


def render_op(op):
    k, a, b, c = op
    al = lambda i: sch_char(AL8[i])
    als = lambda i: '""' if i == 4 else "(string %s)" % sch_char(ALPHA[i])
    port = lambda body: "(set! s (let ((o (open-output-string))) %s (get-output-string o)))" % body
    skip = "(do ((i 0 (+ i 1))) ((= i %d)) (read-char p))" % a
    if k == 1: return "(string-set! s %d %s)" % (a, al(b))
    if k == 2: return "(string-fill! s %s)" % al(a)
    if k == 3: return "(string-fill! s %s %d)" % (al(a), b)
    if k == 4: return "(string-fill! s %s %d %d)" % (al(a), b, c)
    if k == 5: return "(string-copy! s %d s)" % a
    if k == 6: return "(string-copy! s %d s %d)" % (a, b)
    if k == 7: return "(string-copy! s %d s %d %d)" % (a, b, c)
    if k == 8: return "(string-copy! s %d (string-copy %s) %d %d)" % (a, sch_str(SRC), b, c)
    if k == 10: return "(set! s (substring s %d %d))" % (a, b)
    if k == 11: return "(set! s (string-copy s))"
    if k == 12: return "(set! s (string-copy s %d))" % a
    if k == 13: return "(set! s (string-copy s %d %d))" % (a, b)
    if k == 14: return "(set! s (string-append s %s))" % als(a)
    if k == 15: return "(set! s (string-append %s s))" % als(a)
    if k == 16: return "(set! s (string-append s s))"
    if k == 17: return "(set! s (string-append s))"
    if k == 18: return "(set! s (string-append %s s %s))" % (als(1), als(3))
    if k in (20, 21, 22):
        return "(set! s (list->string (string->list s%s)))" % "".join(" %d" % x for x in (a, b)[:k - 20])
    if k in (23, 24, 25):
        return "(set! s (vector->string (string->vector s%s)))" % "".join(" %d" % x for x in (a, b)[:k - 23])
    if k == 26: return "(set! s (vector->string (string->vector s) %d %d))" % (a, b)
    if k in (27, 28, 29):
        return "(set! s (utf8->string (string->utf8 s%s)))" % "".join(" %d" % x for x in (a, b)[:k - 27])
    if k == 30: return "(set! s (utf8->string (string->utf8 s) %d %d))" % (a, b)
    if k == 31: return "(set! s (utf8->string (string->utf8 s) %d))" % a
    if k == 32: return "(set! s (symbol->string (string->symbol s)))"
    if k in (33, 34, 35): return port("(write-string s o%s)" % "".join(" %d" % x for x in (a, b)[:k - 33]))
    if k == 36: return port("(string-for-each (lambda (c) (write-char c o)) s)")
    if k == 37: return port("(display s o)")
    if k == 38: return "(set! s (let ((p (open-input-string s))) %s (read-string %d p)))" % (skip, b)
    if k == 39: return "(set! s (let ((p (open-input-string s))) %s (peek-char p) (read-string %d p)))" % (skip, b)
    if k == 40: return '(set! s (read-line (open-input-string (string-append s "\\n" s))))'
    if k == 60: return "(define snap (immutable-string s)) (string-set! s %d %s) ; (chibi ast), snap must keep the old content" % (a, al(b))
    if k == 61: return "(immutable-string s) ; (chibi ast): s is now copy-on-write"
    if k == 62: return "(set! s (immutable-string s)) ; (chibi ast)"
    if k == 50: return "(string-ref s %d)" % a
    if k == 51: return "(cursor walk start->end: string-cursor->index, -offset, -ref at every cursor)"
    if k == 52: return "(cursor walk end->start with string-cursor-prev)"
    if k == 53: return "(string-cursor->index s (string-index->cursor s %d))" % a
    if k == 54: return "(set! s (substring-cursor s <cursor of index %d> <cursor of index %d>))" % (a, b)
    if k == 55: return "(string=? string<? string>? string<=? string>=? equal? of s and %s, both orders)" % (
        "(string-copy s)" if a < 0 else sch_str(CMP[a]))
    if k == 56: return "(peek-char/read-char to eof over (open-input-string s))"
    if k == 57: return "(read-string %d p) until eof over (open-input-string s)" % a
    if k == 58: return "(write-string s <file port>) and read the file back as bytes"
    raise ValueError(op)


def render_history(h, contents_tab):
    route, ci, ops = h
    return " ".join([render_init(route, contents_tab[ci])] + [render_op(o) for o in ops])


# ------------------------------------------------------------------ jobs

def sch_vec(op):
    return "#(%d %d %d %d)" % op


def job_text(states, contents_tab, starts=None):
    """states: list of (route, ci, prefix ops tuple, ops list).  One file for the whole chunk."""
    states = [st[:4] for st in states]
    used = sorted({ci for _, ci, _, _ in states})
    local = {ci: i for i, ci in enumerate(used)}
    cs = [list(contents_tab[ci]) for ci in used]
    out = [PRELUDE]
    out.append("(define CPS '#(%s))" % " ".join("(" + " ".join(str(c) for c in x) + ")" for x in cs))
    out.append("(define LIT (vector %s))" % " ".join(sch_str(x) for x in cs))
    out.append("(define LONG (vector %s))" % " ".join(sch_str(PAD_L + x + PAD_R) for x in cs))
    out.append("(define SYM '#(%s))" % " ".join("|" + "".join(chr(c) for c in x) + "|" for x in cs))
    out.append("(define BV (vector %s))" % " ".join(sch_bv(U.encode(x)) for x in cs))
    out.append("(define LBV (vector %s))" % " ".join(sch_bv(U.encode(PAD_L + x + PAD_R)) for x in cs))
    out.append("(define CMP (vector %s))" % " ".join(sch_str(x) for x in CMP))
    optab = {}
    for si, (route, ci, prefix, ops) in enumerate(states):
        key = tuple(ops)
        if key not in optab:
            optab[key] = "O%d" % len(optab)
            out.append("(define %s '#(%s))" % (optab[key], " ".join(sch_vec(o) for o in ops)))
    for si, (route, ci, prefix, ops) in enumerate(states):
        lo = starts.get(si, 0) if starts else 0
        if lo is None:
            continue
        out.append("(run-state %d %d %d '#(%s) %s %d)" % (si, route, local[ci], " ".join(sch_vec(o) for o in prefix),
                                                          optab[tuple(ops)], lo))
    out.append('(write-string "DONE") (newline)')
    return "\n".join(out) + "\n"


def parse_state(txt):
    f = txt.split(";")
    if len(f) != 6:
        return None
    return {"cps": f[0], "len": f[1], "bytes": f[2], "off": int(f[3]), "store": int(f[4]), "imm": int(f[5])}


def nums(txt):
    if txt == "":
        return []
    try:
        return [int(x) for x in txt.split(",")]
    except ValueError:
        return None


_G = {}     # per-level globals inherited by the forked workers


def run_driver(variant, path, cwd, env, timeout=1500):
    """evalbatch, retried when the very first form (the import) fails: that only happens while somebody rebuilds
    build/<variant> under our feet (the shared libraries of the modules disappear for a moment)."""
    for attempt in range(8):
        try:
            r = common.evalbatch(variant, [path], env=env, timeout=timeout, cwd=cwd)
        except OSError:
            r = None
        if r is not None and not re.search(r"^;;EXC 0 ", r.out, re.M) and "cannot open shared object" not in r.out:
            return r
        time.sleep(5 + 5 * attempt)
        build.build_variant(variant)
    return r if r is not None else common.Result(-1, "evalbatch could not be started")


def model_pre(route, cps, prefix):
    s, cls = list(cps), ROUTES[route][1]
    lit = ROUTES[route][2]
    for op in prefix:
        lit = imm_after(lit, op, len(s))
        s, cls, _, _, _ = model_step(s, cls, op)
    return s, cls, lit


def imm_after(imm, op, n):
    """model of the immutable flag: literals and immutable-string results; every other derived string is fresh"""
    if op[0] == 62:
        return True
    if op[0] in MUTATORS or op[0] in OBSERVERS:
        return imm
    if op[0] in (38, 39) and op[1] >= n:
        return imm          # read-string at end of input gives eof: the driver keeps the same string object
    return False


def run_job(arg):
    """Execute a chunk of states with all their operations on the implementation and compare with the model."""
    variant, states, header_only = arg
    contents_tab, lmax, known = _G["contents"], _G["lmax"], _G["known"]
    d = common.scratch_dir("c12")
    res = {"transitions": 0, "states": [], "viol": [], "new": {}, "outcomes": {}, "crashes": [], "runs": 0,
           "nontrivial": 0, "cmp_other_order": 0, "sample": None, "excluded_sym_error": 0, "lost": 0, "asan": []}
    full = []
    for route, ci, prefix in states:
        cps, cls, lit = model_pre(route, contents_tab[ci], prefix)
        full.append((route, ci, tuple(prefix), [] if header_only else ops_for(cps, lmax), (cps, cls, lit)))
    starts = {}
    headers = {}
    pending = set(range(len(full)))
    rounds = 0
    asan_env = build.env_for(variant)["ASAN_OPTIONS"].replace("halt_on_error=1", "halt_on_error=0")
    while pending and rounds < 40:
        rounds += 1
        path = os.path.join(d, "job%d.scm" % rounds)
        with open(path, "w", encoding="utf-8") as fh:
            fh.write(job_text(full, contents_tab, {i: (starts.get(i, 0) if i in pending else None) for i in range(len(full))}))
        # ASan in recover mode: a report does not end the process (it is printed once per faulting pc per process)
        r = run_driver(variant, path, d, {"VERIF_POISON": "1", "ASAN_OPTIONS": asan_env})
        res["runs"] += 1
        lines = r.out.split("\n")
        cur = None
        opi = 0
        finished_all = False
        tainted = False
        report = None
        for li, ln in enumerate(lines):
            if "ERROR: AddressSanitizer" in ln:
                blk = lines[li:li + 14]
                report = {"kind": (re.search(r"AddressSanitizer: (\S+)", ln) or [None, "?"])[1],
                          "write": any(x.startswith("WRITE of size") for x in blk[:4]),
                          "text": "\n".join(x[:160] for x in blk)}
                continue
            if ln.startswith("S "):
                if cur is not None:
                    pending.discard(cur)
                head, _, st = ln.partition("|")
                cur = int(head[2:])
                opi = starts.get(cur, 0)
                hs = parse_state(st)
                if cur not in headers:
                    headers[cur] = hs
                    check_header(res, full[cur], hs, contents_tab)
                if report:
                    res["asan"].append((full[cur][:3], None, report))
                    tainted = report["write"]
                    report = None
                    if tainted:
                        break
                continue
            if ln == "DONE":
                if cur is not None:
                    pending.discard(cur)
                finished_all = True
                break
            if cur is None or ln == "" or ln.startswith(";;") or ln.startswith("=") or ln.startswith(" "):
                if ln.startswith(";;READ-EXC"):
                    raise common.HarnessError("driver does not parse: " + ln)
                if ln.startswith(";;EXC"):
                    res["crashes"].append(("exception outside guard", ln, None))
                continue
            if "|" not in ln:
                continue
            if opi >= len(full[cur][3]):
                continue
            check_transition(res, full[cur], headers.get(cur), opi, ln, contents_tab, lmax, known, bool(report))
            opi += 1
            starts[cur] = opi
            if report:
                res["asan"].append((full[cur][:3], full[cur][3][opi - 1], report))
                tainted = report["write"]
                report = None
                if tainted:
                    break           # a heap write went astray: nothing this process prints afterwards is trusted
        if finished_all and r.rc == 0 and not tainted:
            break
        if tainted:
            res["restarts_after_write_report"] = res.get("restarts_after_write_report", 0) + 1
            continue
        # the process stopped early: the transition after the last printed line is the culprit
        asan = r.asan()
        if cur is None:
            cand = min(pending) if pending else None
            at = 0
        else:
            cand, at = cur, starts.get(cur, 0)
            if at >= len(full[cur][3]):
                pending.discard(cur)
                rest = sorted(x for x in pending if x > cur)
                cand, at = (rest[0], starts.get(rest[0], 0)) if rest else (None, 0)
        tail = r.out[-3000:]
        if cand is None:
            res["crashes"].append(("early exit rc=%s after the last state" % r.rc, tail, None))
            break
        route, ci, prefix, ops, _pre = full[cand]
        op = ops[at] if at < len(ops) else None
        res["crashes"].append(("rc=%s timed_out=%s asan=%s" % (r.rc, r.timed_out, asan), tail,
                               (route, ci, prefix, op, cand in headers)))
        if cand in headers:
            res["transitions"] += 1        # the transition was executed: it ended the process (reported as a violation)
            res["outcomes"]["process-died"] = res["outcomes"].get("process-died", 0) + 1
            starts[cand] = at + 1          # skip the offending transition, carry on with the rest
        else:
            pending.discard(cand)          # building the state itself crashed
            res["lost"] += len(ops)
    if pending:
        res["lost"] += sum(len(full[i][3]) - starts.get(i, 0) for i in pending)
    shutil.rmtree(d, ignore_errors=True)
    return res


def check_header(res, st, hs, contents_tab):
    route, ci, prefix, ops, (cps, cls, lit) = st
    want = state_expect(cps)
    if hs is None or (hs["cps"], hs["len"], hs["bytes"]) != want:
        res["viol"].append({"op": "construct", "route": ROUTES[route][0], "content": list(contents_tab[ci]),
                            "prefix": [list(o) for o in prefix], "want": "|".join(want),
                            "got": "unparsable" if hs is None else "|".join((hs["cps"], hs["len"], hs["bytes"])),
                            "h": (route, ci, prefix), "opt": None})
        return
    res["states"].append((state_key(cps, hs, cls), (route, ci, prefix)))


def state_expect(cps):
    return (",".join(str(c) for c in cps), str(len(cps)), ",".join(str(b) for b in U.encode(cps)))


def state_key(cps, hs, cls):
    return (tuple(cps), len(U.encode(cps)), hs["store"], hs["off"], hs["imm"], cls)


def check_transition(res, st, hs, opi, line, contents_tab, lmax, known, asan_reported=False):
    route, ci, prefix, ops, (cps, cls, lit) = st
    op = ops[opi]
    res["transitions"] += 1
    rebuilt_differs = False
    if line.startswith("!REBUILD "):
        rebuilt_differs = True
        line = line[len("!REBUILD "):]
    obs, _, sttxt = line.rpartition("|")
    ps = parse_state(sttxt)
    post, pcls, eobs, writes, realloc = model_step(cps, cls, op)
    k = op[0]
    name = OPNAME[k]

    def bad(want, why):
        res["viol"].append({"op": name, "opcode": k, "args": list(op[1:]), "route": ROUTES[route][0],
                            "content": list(contents_tab[ci]), "prefix": [list(o) for o in prefix],
                            "pre": list(cps), "pre_offset": hs["off"] if hs else None,
                            "pre_store": hs["store"] if hs else None, "literal": bool(lit), "realloc": bool(realloc),
                            "producer": cls, "want": want, "got": line, "why": why, "asan_report": asan_reported,
                            "h": (route, ci, prefix), "opt": op})

    if rebuilt_differs:
        bad("the rebuilt pre-state has the same bytes as the first build", "an earlier history changed shared data (a literal?)")
        return
    if ps is None:
        bad("a state line", "unparsable output")
        return
    out = "ok"
    if k in MUTATORS and lit:
        # literal: must raise when at least one character would be stored; never change
        want = state_expect(cps)
        if (ps["cps"], ps["len"], ps["bytes"]) != want:
            bad("E|" + "|".join(want), "a literal was mutated")
            return
        if writes > 0 and obs != "E":
            bad("E|" + "|".join(want), "mutating a literal did not raise")
            return
        out = "literal-raise" if obs == "E" else "literal-empty-range"
        post, pcls = cps, cls
    elif k in MUTATORS and cls == "sym" and obs == "E":
        # R7RS: mutating the result of symbol->string is an error; accept a raise that leaves it unchanged
        want = state_expect(cps)
        if (ps["cps"], ps["len"], ps["bytes"]) != want:
            bad("|".join(want), "symbol->string result changed by a failing mutation")
            return
        res["excluded_sym_error"] += 1
        out = "sym-raise"
        post, pcls = cps, cls
    else:
        want = state_expect(post)
        got = (ps["cps"], ps["len"], ps["bytes"])
        if isinstance(eobs, tuple):
            bits = nums(obs.rstrip(";")) if obs != "E" else None
            whyc, cp_order = ("comparison raised", False) if bits is None else cmp_check(bits, cps, eobs[1])
            if whyc:
                bad(fmt_obs([cmp_bits(cps, eobs[1])]) + "|" + "|".join(want), whyc)
                return
            if not cp_order:
                # the property's model is an array of code points: the ordering predicates are its lexicographic order (R7RS alone
                # would allow any consistent order; the UTF-8 byte order the implementation uses coincides with code point order)
                res["cmp_other_order"] += 1
                bad(fmt_obs([cmp_bits(cps, eobs[1])]) + "|" + "|".join(want), "string<? / string>? disagree with the lexicographic order of the code point sequences")
                return
            out = "cmp"
        else:
            eo = fmt_obs(eobs)
            if obs != eo:
                bs = nums(ps["bytes"])
                why = "operation raised" if obs == "E" else "observation differs"
                bad(eo + "|" + "|".join(want), why)
                return
        if got != want:
            bs = nums(ps["bytes"])
            wf = bs is not None and U.decode_strict(bs) is not None
            bad(("" if isinstance(eobs, tuple) else fmt_obs(eobs)) + "|" + "|".join(want),
                "post-state differs from the model" + ("" if wf else "; bytes are not well-formed UTF-8"))
            return
        # explicit well-formedness (redundant with equality to encode(model), kept as the stated oracle)
        if U.decode_strict(U.encode(post)) != list(post):
            bad("well-formed", "model encoder/decoder disagree")
            return
        if k in MUTATORS:
            out = "mut-realloc" if realloc else ("mut-inplace" if writes else "mut-empty")
        elif k in OBSERVERS:
            out = out if out == "cmp" else "observe"
        else:
            out = "derive-" + pcls
    res["outcomes"][out] = res["outcomes"].get(out, 0) + 1
    if any(c > 0x7F for c in post) or any(c > 0x7F for c in cps):
        res["nontrivial"] += 1
    if res["sample"] is None and k in MUTATORS and realloc and len(prefix) > 0:
        res["sample"] = (route, ci, tuple(prefix) + (op,))
    # successor
    key = state_key(post, ps, pcls)
    if any(ch not in ALPHA for ch in post):
        # symmetry reduction: a state holding a same-width alternate character has the byte layout of the state with the
        # content-alphabet character in its place; it is checked here but not expanded further
        res["pruned"] = res.get("pruned", 0) + 1
    elif key not in known:
        h = (route, ci, tuple(prefix) + (op,))
        old = res["new"].get(key)
        if old is None or hkey(h) < hkey(old):
            res["new"][key] = h


def hkey(h):
    return (len(h[2]), h[1], h[0], h[2])


# ------------------------------------------------------------------ the exhaustive scalar loop

SCALAR_PRELUDE = r"""
(import (scheme base) (scheme write) (scheme read))
;; the datum "\x<hex>;" and |\x<hex>;| read back through (scheme read): one character with that scalar value
(define (esc-text cp open close) (string-append open "\\x" (number->string cp 16) ";" close))
(define (enc cp)
  (cond ((< cp 128) (list cp))
        ((< cp 2048) (list (+ 192 (quotient cp 64)) (+ 128 (remainder cp 64))))
        ((< cp 65536) (list (+ 224 (quotient cp 4096)) (+ 128 (remainder (quotient cp 64) 64)) (+ 128 (remainder cp 64))))
        (else (list (+ 240 (quotient cp 262144)) (+ 128 (remainder (quotient cp 4096) 64))
                    (+ 128 (remainder (quotient cp 64) 64)) (+ 128 (remainder cp 64))))))
(define (bv->list bv)
  (let lp ((i (- (bytevector-length bv) 1)) (acc '()))
    (if (< i 0) acc (lp (- i 1) (cons (bytevector-u8-ref bv i) acc)))))
(define (fold-h h ls) (if (null? ls) h (fold-h (remainder (+ (* h 31) (car ls) 1) 1000000007) (cdr ls))))
(define (one cp)
  ;; -> list of bytes of (string->utf8 (string c)) or #f when any identity fails
  (guard (e (#t #f))
    (let* ((c (integer->char cp)) (s (string c)) (bl (bv->list (string->utf8 s))) (want (enc cp))
           (s2 (utf8->string (string->utf8 s))) (c2 (string-ref s2 0))
           (t (make-string 3 #\a)) (m (make-string 2 c))
           (o (open-output-string)))
      (string-set! t 1 c)
      (write-char c o) (write-string s o)
      (let* ((r (get-output-string o)) (p (open-input-string r)) (pk (peek-char p)) (r1 (read-char p)) (r2 (read-char p)) (r3 (read-char p)))
        (and (equal? bl want)
             (= (string-length s) 1) (= (string-length s2) 1) (= (char->integer c2) cp) (char=? c c2) (string=? s s2)
             (= (char->integer (string-ref s 0)) cp)
             (equal? (bv->list (string->utf8 t)) (append (list 97) want (list 97)))
             (= (string-length t) 3) (= (char->integer (string-ref t 0)) 97) (= (char->integer (string-ref t 1)) cp)
             (= (char->integer (string-ref t 2)) 97)
             (begin (string-set! t 1 #\a) (equal? (bv->list (string->utf8 t)) (list 97 97 97)))
             (equal? (bv->list (string->utf8 m)) (append want want)) (= (string-length m) 2)
             (= (char->integer (string-ref m 1)) cp)
             (equal? (map char->integer (string->list m)) (list cp cp))
             (equal? (bv->list (string->utf8 r)) (append want want)) (= (string-length r) 2)
             (eqv? pk c) (eqv? r1 c) (eqv? r2 c) (eof-object? r3)
             (let ((lit (read (open-input-string (esc-text cp "\"" "\"")))))
               (and (string? lit) (= (string-length lit) 1) (equal? (bv->list (string->utf8 lit)) want)))
             (let ((sym (read (open-input-string (esc-text cp "|" "|")))))
               (and (symbol? sym) (equal? (bv->list (string->utf8 (symbol->string sym))) want)))
             bl)))))
(define (block lo hi)
  (let lp ((cp lo) (h 0) (n 0) (bad 0))
    (cond ((= cp hi)
           (write-string "B ") (write lo) (write-char #\space) (write h) (write-char #\space) (write n)
           (write-char #\space) (write bad) (newline))
          ((and (>= cp 55296) (<= cp 57343)) (lp (+ cp 1) h n bad))
          (else
           (let ((bl (one cp)))
             (cond (bl (lp (+ cp 1) (fold-h h bl) (+ n 1) bad))
                   (else (write-string "BAD ") (write cp) (newline)
                         (lp (+ cp 1) h (+ n 1) (+ bad 1)))))))))
"""


def scalar_job(arg):
    variant, blocks = arg
    d = common.scratch_dir("c12s")
    txt = SCALAR_PRELUDE + "\n".join("(block %d %d)" % (lo, hi) for lo, hi in blocks) + '\n(write-string "DONE")(newline)\n'
    path = os.path.join(d, "scalar.scm")
    with open(path, "w", encoding="utf-8") as fh:
        fh.write(txt)
    r = run_driver(variant, path, d, {"VERIF_POISON": "1"})
    shutil.rmtree(d, ignore_errors=True)
    got = {}
    badcps = []
    for ln in r.out.split("\n"):
        if ln.startswith("B "):
            f = ln.split()
            got[int(f[1])] = (int(f[2]), int(f[3]), int(f[4]))
        elif ln.startswith("BAD "):
            badcps.append(int(ln.split()[1]))
    done = "DONE" in r.out.split("\n")
    want = {lo: U.checksum_block(lo, hi) for lo, hi in blocks}
    return variant, blocks, got, want, badcps, done, r.rc, r.asan(), r.out[-1500:]


# ------------------------------------------------------------------ comparison triples (transitivity)

def cmp3_job(variant):
    d = common.scratch_dir("c12t")
    txt = ('(import (scheme base) (scheme write))\n(define CMP (vector %s))\n' % " ".join(sch_str(x) for x in CMP) + r"""
(define n (vector-length CMP))
(define (b x) (if x 1 0))
(do ((i 0 (+ i 1))) ((= i n))
  (do ((j 0 (+ j 1))) ((= j n))
    (do ((k 0 (+ k 1))) ((= k n))
      (let ((x (vector-ref CMP i)) (y (vector-ref CMP j)) (z (vector-ref CMP k)))
        (write (b (string<? x y z))) (write (b (string<? x y))) (write (b (string<? y z))) (write (b (string<? x z)))
        (write (b (string=? x y z))) (write (b (string<=? x y z))) (write (b (string>? x y z))) (write (b (string>=? x y z)))
        (newline)))))
(write-string "DONE")(newline)
""")
    path = os.path.join(d, "cmp3.scm")
    with open(path, "w", encoding="utf-8") as fh:
        fh.write(txt)
    r = run_driver(variant, path, d, {"VERIF_POISON": "1"}, timeout=600)
    shutil.rmtree(d, ignore_errors=True)
    return r


# ------------------------------------------------------------------ replay

def replay_text(h, contents_tab, want, note=""):
    route, ci, ops = h
    prefix, op = tuple(ops[:-1]), ops[-1]
    st = [(route, ci, prefix, [op])]
    txt = job_text(st, contents_tab)
    head = [";; C12 replay: run with  build/asan/harness/evalbatch <this file>   (VERIF_POISON=1)",
            ";; history: " + render_history(h, contents_tab),
            ";; output: one 'S' line (state before the last step) and one line for the last step:",
            ";;   <observations>|<code points>;<string-length>;<utf8 bytes>;<offset>;<store length>;<immutable>",
            ";; expected (observations|code points;length;bytes): " + want]
    if note:
        head.append(";; " + note)
    return "\n".join(head) + "\n" + txt


def replay(path):
    path = os.path.abspath(path)
    build.build_variant("asan")
    aenv = build.env_for("asan")["ASAN_OPTIONS"].replace("halt_on_error=1", "halt_on_error=0")
    r = common.evalbatch("asan", [path], env={"VERIF_POISON": "1", "ASAN_OPTIONS": aenv}, timeout=300)
    want = None
    for ln in open(path, encoding="utf-8"):
        if ln.startswith(";; expected"):
            want = ln.split(": ", 1)[1].strip()
    print(r.out)
    lines = [l for l in r.out.split("\n") if "|" in l and not l.startswith("S ") and not l.startswith(" ") and not l.startswith("=")]
    got = lines[0] if lines else ""
    gobs, _, gst = got.rpartition("|")
    gotcmp = gobs + "|" + "|".join(gst.split(";")[:3])
    clean = r.rc == 0 and "ERROR: AddressSanitizer" not in r.out
    print("expected:", want)
    print("got     :", gotcmp, "" if clean else "(+ AddressSanitizer report / abnormal exit rc=%s)" % r.rc)
    ok = clean and (want == gotcmp or (want or "").startswith("(no "))
    print("REPLAY", "passes" if ok else "still fails")
    return 0 if ok else 1


# ------------------------------------------------------------------ main

def chunks(seq, size):
    for i in range(0, len(seq), size):
        yield seq[i:i + size]


def dispatch(job):
    kind = job[0]
    if kind == "scalar":
        return kind, scalar_job(job[1:])
    if kind == "cmp3":
        r = cmp3_job(job[1])
        return kind, (r.rc, r.out, r.asan())
    return kind, run_job(job[1:])


def main(tier, replay_path=None):
    chk = Check("C12", "model_checking", tier, quick_s=170, thorough_s=1150)
    chk.clean_replays()
    U.selftest()
    quick = chk.quick
    nmax = 3 if quick else 4
    lmax = nmax + 2
    depth = 2 if quick else 3
    contents_tab = contents(lmax)
    ninit = sum(4 ** i for i in range(nmax + 1))
    chk.rule = ("explicit-state BFS: initial states = every content over {a,U+E9,U+20AC,U+1F600} of length <= %d x %d construction "
                "routes (all expanded, no de-duplication); from every state every operation with every in-range argument "
                "(string-set!, -fill!, -copy! incl. self-overlap, substring, string-copy, -append (results <= %d chars), "
                "list/vector/utf8/symbol/port round trips, cursors, string-ref, comparisons, (chibi ast) immutable-string "
                "copy-on-write); all histories of length <= %d; "
                "deeper states de-duplicated on (code points, byte length, observed store length, observed offset, observed "
                "immutable flag, producer class); every transition executed on the asan build with heap poisoning and compared "
                "with the code-point-list model; plus all 1112064 scalar values through char/string/utf8/port round trips.  "
                "distinct_nontrivial = transitions (all distinct histories) whose pre- or post-state holds a multi-byte character"
                % (nmax, len(ROUTES), lmax, depth))
    chk.assumptions = [
        "oracle: Python lists of code points (mc/models/ustring.py), RFC 3629 arithmetic encoder cross-checked with CPython's codec",
        "state de-duplication assumes futures depend only on the key (code points, store length, offset, immutable flag, producer class); "
        "chibi is built without SEXP_USE_STRING_REF_CACHE / STRING_INDEX_TABLE so strings carry no other hidden state",
        "string-append results longer than %d characters are not generated (bound of the exploration)" % lmax,
        "out-of-range indices and byte offsets inside a character are 'an error' in R7RS and are not generated",
        "symmetry reduction: characters written come from the content alphabet plus one same-width alternate per width "
        "(b, U+F1, U+2030, U+1F601) so that in-place writes change the content; successor states that hold an alternate are "
        "checked but not expanded (they have the byte layout of the state with the content-alphabet character in that place)",
        "mutation of symbol->string results is 'an error' in R7RS: a raise that leaves the string unchanged is accepted",
        "string<? etc: R7RS 6.7 requirements (string=? is equality, trichotomy, <=/>= duals, transitivity) and agreement with the lexicographic code point order of the model; "
        "agreement with code point order is recorded, not required",
        "string cursors are byte offsets (doc/chibi.scrbl) - string-cursor-offset is compared with the model's byte offsets",
        "utf8->string! / string-offset / string->utf8! from (chibi io) and immutable? from (chibi ast) behave as their names say; "
        "strings made by utf8->string! are expected to behave like any other string",
        "AddressSanitizer runs in recover mode (one report per faulting pc per process); after a WRITE report the rest of that "
        "process is discarded and re-run in a fresh process",
    ]
    for v in ("asan", "opt"):
        build.build_variant(v)

    from collections import Counter
    asan_kinds = Counter()
    vgroups = Counter()
    viol_seen = {}
    by_route = {"standard": 0, "utf8->string! (chibi io extension)": 0}

    def tally(route):
        by_route["utf8->string! (chibi io extension)" if route in (R_SHARED_OFF, R_SHARED_0) else "standard"] += 1

    def report(v, level):
        h, op = v.pop("h"), v.pop("opt")
        full_h = (h[0], h[1], tuple(h[2]) + ((op,) if op else ()))
        tally(h[0])
        gkey = (v["op"], v.get("route", "")[:12], bool(v.get("realloc")), (v.get("pre_offset") or 0) > 0, v.get("why", "")[:30])
        viol_seen[gkey] = viol_seen.get(gkey, 0) + 1
        v["history"] = render_history(full_h, contents_tab)
        v["depth"] = level
        v["kind"] = "mismatch"
        vgroups["mismatch | %s | %s | %s" % (v["op"], v.get("route", "")[:14], v.get("why", "")[:60])] += 1
        note = ""
        if op and viol_seen[gkey] <= 1 and sum(1 for g in viol_seen) <= 16:
            # README rule 4: re-run the failing history alone in a fresh process
            v["alone"] = rerun_alone(full_h, contents_tab, lmax)
            note = "re-run alone in a fresh process: " + v["alone"]
        what = "%s  => %s ; expected %s (%s)%s" % (v["history"], v.get("got"), v.get("want"), v.get("why", ""),
                                                   (" [" + note + "]") if note else "")
        chk.violation(v, what, replay_text(full_h, contents_tab, v.get("want", ""), note) if op else None)

    # ---- side jobs (run in the same pool as depth 1): the exhaustive scalar loop and the comparison triples
    blocks = [(lo, min(lo + 4096, 0x110000)) for lo in range(0, 0x110000, 4096)]
    per = 17
    scalar_variants = ("opt",) if quick else ("opt", "asan")
    side_jobs = [("scalar", v, blocks[i:i + per]) for v in scalar_variants for i in range(0, len(blocks), per)]
    side_jobs.append(("cmp3", "asan"))
    scalars = {"opt": 0, "asan": 0}

    def on_scalar(r):
        variant, blks, got, want, badcps, done, rc, asan, tail = r
        for lo, hi in blks:
            w = want[lo]
            g = got.get(lo)
            if g is None:
                chk.violation({"op": "scalar-loop", "block": lo, "variant": variant, "rc": rc, "asan": str(asan)},
                              "scalar block U+%04X.. missing on %s (rc=%s asan=%s): %s" % (lo, variant, rc, asan, tail[-300:]))
                continue
            scalars[variant] += g[1]
            chk.evaluations += g[1]
            chk.outcomes["scalar-checked"] += g[1]
            if g[0] != w[0] or g[1] != w[1] or g[2] != 0:
                chk.violation({"op": "scalar-loop", "block": lo, "variant": variant, "bad": badcps[:10], "got": g, "want": w},
                              "scalar block U+%04X..U+%04X on %s: checksum/count/bad = %s, expected %s; failing scalars %s"
                              % (lo, hi - 1, variant, g, w + (0,), ["U+%04X" % c for c in badcps[:10]]))
        if rc != 0 or asan or not done:
            chk.violation({"op": "scalar-loop", "crash": True, "variant": variant, "rc": rc, "asan": str(asan)},
                          "scalar loop process ended abnormally on %s (rc=%s asan=%s): %s" % (variant, rc, asan, tail[-300:]))

    def on_cmp3(r):
        rc, out, asan = r
        tl = [l for l in out.split("\n") if re.fullmatch(r"[01]{8}", l)]
        triples = list(itertools.product(range(len(CMP)), repeat=3))
        if len(tl) != len(triples) or rc != 0 or asan:
            chk.violation({"op": "compare3", "crash": True, "rc": rc}, "comparison triple job incomplete: %d of %d lines rc=%s %s"
                          % (len(tl), len(triples), rc, out[-300:]))
            return
        other = 0
        for (i, j, k), l in zip(triples, tl):
            lt3, ltxy, ltyz, ltxz, eq3, le3, gt3, ge3 = [int(ch) for ch in l]
            x, y, z = CMP[i], CMP[j], CMP[k]
            ok = (lt3 == (ltxy & ltyz)) and (not (ltxy and ltyz) or ltxz) and eq3 == int(x == y == z)
            chk.evaluations += 1
            if not ok:
                chk.violation({"op": "compare3", "x": x, "y": y, "z": z, "got": l},
                              "string<? not transitive / variadic form inconsistent on %s %s %s: %s" % (sch_str(x), sch_str(y), sch_str(z), l))
            cxy, cyz = U.compare(x, y), U.compare(y, z)
            if [lt3, le3, gt3, ge3] != [int(cxy < 0 and cyz < 0), int(cxy <= 0 and cyz <= 0), int(cxy > 0 and cyz > 0),
                                        int(cxy >= 0 and cyz >= 0)]:
                other += 1
        chk.outcomes["cmp3"] += len(tl)
        chk.cov["cmp3_triples"] = len(tl)
        chk.cov["cmp3_not_code_point_order"] = other

    # ---- the exploration
    init_hist = [(route, ci, ()) for ci in range(ninit) for route in range(len(ROUTES))]
    known = set()
    all_keys = set()
    transitions = 0
    states_expanded = 0
    per_level = []
    frontier = init_hist
    sample_hist = []
    stop = False
    lost_total = 0
    worker_pids = set()
    for level in range(1, depth + 1):
        _G.update(contents=contents_tab, lmax=lmax, known=known)
        if level == 1:
            # keys of the initial states are only known after observing them: first a header-only pass
            with Pool(common.NCPU) as pool:
                for res in pool.imap_unordered(run_job, [("asan", c, True) for c in chunks(frontier, 100)]):
                    for key, h in res["states"]:
                        known.add(key)
                    chk.cov["driver_processes"] = chk.cov.get("driver_processes", 0) + res["runs"]
            log("C12: %d initial states observed, %d distinct keys" % (len(frontier), len(known)))
        # cost-balanced chunks: at least ~5 jobs per worker, at most ~25k transitions per process; states on the
        # utf8->string! routes are about 10x more expensive while defect D1 (c12.NOTES.md) is present, they go first
        def cost_of(h):
            n = len(model_pre(h[0], contents_tab[h[1]], h[2])[0])
            return (40 + 24 * (n + 1) * (n + 2)) * (10 if h[0] in (R_SHARED_OFF, R_SHARED_0) else 1)
        costs = [(cost_of(h), h) for h in frontier]
        target = max(3000, min(25000, sum(c for c, _ in costs) // (5 * common.NCPU)))
        jobs = []
        cur, cost = [], 0
        for c, h in sorted(costs, key=lambda ch: (-(ch[1][0] in (R_SHARED_OFF, R_SHARED_0)), -ch[0])):
            cur.append(h)
            cost += c
            if cost >= target:
                jobs.append(("hist", "asan", cur, False))
                cur, cost = [], 0
        if cur:
            jobs.append(("hist", "asan", cur, False))
        njobs = len(jobs)
        if level == 1:
            jobs = jobs + side_jobs
        log("C12: depth %d: %d states to expand in %d jobs" % (level, len(frontier), njobs))
        cand = {}
        lvl_tr = 0
        lvl_states = 0
        done_jobs = 0
        with Pool(common.NCPU) as pool:
            worker_pids.update(pr.pid for pr in getattr(pool, "_pool", []))
            for kind, res in pool.imap_unordered(dispatch, jobs):
                if kind == "scalar":
                    on_scalar(res)
                    continue
                if kind == "cmp3":
                    on_cmp3(res)
                    continue
                done_jobs += 1
                lvl_tr += res["transitions"]
                lvl_states += len(res["states"])
                for key, h in res["states"]:
                    all_keys.add(key)
                    known.add(key)
                for key, h in res["new"].items():
                    old = cand.get(key)
                    if old is None or hkey(h) < hkey(old):
                        cand[key] = h
                for k, c in res["outcomes"].items():
                    chk.outcomes[k] += c
                chk.nontrivial_n += res["nontrivial"]
                if res["excluded_sym_error"]:
                    chk.excluded["symbol->string mutation raised (R7RS: an error)"] += res["excluded_sym_error"]
                chk.cov["cmp_not_code_point_order"] = chk.cov.get("cmp_not_code_point_order", 0) + res["cmp_other_order"]
                chk.cov["driver_processes"] = chk.cov.get("driver_processes", 0) + res["runs"]
                if res["sample"] and len(sample_hist) < 6:
                    sample_hist.append(res["sample"])
                for v in res["viol"]:
                    report(v, level)
                for (route, ci, prefix), op, rep in res["asan"]:
                    hh = (route, ci, tuple(prefix) + ((op,) if op else ()))
                    pre_cps, pre_cls, pre_lit = model_pre(route, contents_tab[ci], prefix)
                    tally(route)
                    asan_kinds[rep["kind"] + ("/WRITE" if rep["write"] else "/READ")] += 1
                    vgroups["asan | %s | %s" % (OPNAME[op[0]] if op else "construct", ROUTES[route][0][:14])] += 1
                    chk.violation({"kind": "asan", "op": OPNAME[op[0]] if op else "construct", "opcode": op[0] if op else None,
                                   "args": list(op[1:]) if op else [], "asan": rep["kind"], "asan_write": rep["write"],
                                   "route": ROUTES[route][0], "content": list(contents_tab[ci]), "pre": list(pre_cps),
                                   "producer": pre_cls, "prefix": [list(o) for o in prefix],
                                   "history": render_history(hh, contents_tab), "depth": level},
                                  "AddressSanitizer %s (%s) during: %s :: %s" % (
                                      rep["kind"], "WRITE" if rep["write"] else "READ", render_history(hh, contents_tab),
                                      rep["text"][:700]),
                                  replay_text(hh, contents_tab, "(no AddressSanitizer report)") if op else None)
                lost_total += res["lost"]
                chk.cov["successors_not_expanded_symmetric"] = chk.cov.get("successors_not_expanded_symmetric", 0) + res.get("pruned", 0)
                for what, tail, at in res["crashes"]:
                    if at is None:
                        chk.violation({"op": "driver", "crash": True, "what": what}, "driver process problem: %s: %s" % (what, tail[-400:]))
                    else:
                        route, ci, prefix, op, built = at
                        hh = (route, ci, tuple(prefix) + ((op,) if op and built else ()))
                        tally(route)
                        m = re.search(r"ERROR: AddressSanitizer: [^\n]*(?:\n[^\n]*){0,12}", tail)
                        vgroups["crash | %s | %s" % (OPNAME[op[0]] if op and built else "construct", ROUTES[route][0][:14])] += 1
                        chk.violation({"kind": "crash", "op": OPNAME[op[0]] if op and built else "construct", "crash": True, "what": what,
                                       "route": ROUTES[route][0], "content": list(contents_tab[ci]),
                                       "history": render_history(hh, contents_tab)},
                                      "process died (%s) at: %s :: %s" % (what, render_history(hh, contents_tab),
                                                                          (m.group(0) if m else tail[-400:])[:900]),
                                      replay_text(hh, contents_tab, "(no crash)") if hh[2] else None)
                if chk.out_of_time():
                    pool.terminate()
                    log("deadline reached at depth %d after %d/%d jobs" % (level, done_jobs, njobs))
                    stop = True
                    break
        transitions += lvl_tr
        states_expanded += lvl_states
        for key in cand:
            all_keys.add(key)
        per_level.append({"depth": level, "states_expanded": lvl_states, "transitions": lvl_tr,
                          "new_state_keys": sum(1 for k in cand if k not in known), "jobs": njobs, "jobs_done": done_jobs})
        log("C12: depth %d done: %d states expanded, %d transitions, %d new keys, %.0fs elapsed"
            % (level, lvl_states, lvl_tr, per_level[-1]["new_state_keys"], time.time() - chk.t0))
        if stop:
            break
        frontier = [cand[k] for k in sorted(cand, key=lambda k: hkey(cand[k])) if k not in known]
        if chk.seed:
            import random
            random.Random(chk.seed).shuffle(frontier)
    chk.evaluations += transitions
    chk.cov["states"] = len(all_keys)
    chk.cov["states_expanded"] = states_expanded
    chk.cov["transitions"] = transitions
    chk.cov["traces_validated_against_impl"] = transitions
    chk.cov["per_depth"] = per_level
    chk.cov["initial_states"] = len(init_hist)
    chk.cov["scalar_values_checked"] = scalars
    chk.cov["transitions_not_executed_after_crashes"] = lost_total
    if lost_total:
        chk.exhaustive = False
    chk.cov["violations_by_route_class"] = by_route
    chk.cov["violation_groups"] = dict(vgroups.most_common(60))
    chk.cov["asan_reports"] = dict(asan_kinds)
    chk.cov["routes"] = [r[0] for r in ROUTES]
    chk.cov["max_history_length"] = depth
    chk.cov["max_string_length"] = lmax
    chk.cov["variants"] = {"histories": "asan+VERIF_POISON", "scalar_loop": list(scalar_variants)}
    try:
        import resource
        ru = resource.getrusage(resource.RUSAGE_CHILDREN)
        chk.cov["cpu_s_children"] = round(ru.ru_utime + ru.ru_stime, 1)
    except Exception:
        pass
    for h in sample_hist[:6]:
        chk.sample(render_history(h, contents_tab))
    chk.sample("scalar loop: for every scalar cp: (string->utf8 (string (integer->char cp))) = arithmetic encoding, "
               "utf8->string/string-ref/string-set! with width change/make-string/string port round trips")
    # the anchors lib/chibi/string.scm and lib/srfi/130: bounded-exhaustive enumeration against the same model
    try:
        from . import c12lib
        c12lib.run(chk, tier)
    except common.HarnessError:
        raise
    except Exception as ex:      # an internal error of the library part is a HARNESS error, never a verdict
        raise common.HarnessError("c12lib failed internally: %r" % (ex,))
    common.cleanup_scratch()
    if os.path.isdir(common.SCRATCH_ROOT):      # directories of workers that were terminated at the deadline
        for f in os.listdir(common.SCRATCH_ROOT):
            m = re.match(r"c12[a-z]?-(\d+)-\d+$", f)
            if m and int(m.group(1)) in worker_pids:
                shutil.rmtree(os.path.join(common.SCRATCH_ROOT, f), ignore_errors=True)
    return chk.finish()


def rerun_alone(h, contents_tab, lmax):
    route, ci, ops = h
    prefix, op = tuple(ops[:-1]), ops[-1]
    d = common.scratch_dir("c12r")
    try:
        path = os.path.join(d, "one.scm")
        with open(path, "w", encoding="utf-8") as fh:
            fh.write(job_text([(route, ci, prefix, [op])], contents_tab))
        aenv = build.env_for("asan")["ASAN_OPTIONS"].replace("halt_on_error=1", "halt_on_error=0")
        r = run_driver("asan", path, d, {"VERIF_POISON": "1", "ASAN_OPTIONS": aenv}, timeout=300)
        res = {"transitions": 0, "states": [], "viol": [], "new": {}, "outcomes": {}, "crashes": [], "nontrivial": 0,
               "cmp_other_order": 0, "sample": None, "excluded_sym_error": 0}
        hs = None
        for ln in r.out.split("\n"):
            if ln.startswith("S "):
                hs = parse_state(ln.partition("|")[2])
            elif "|" in ln and not ln.startswith(";;") and hs is not None:
                check_transition(res, (route, ci, prefix, [op], model_pre(route, contents_tab[ci], prefix)), hs, 0, ln,
                                 contents_tab, lmax, set())
        m = re.search(r"ERROR: AddressSanitizer: (\S+)", r.out)
        extra = (" + AddressSanitizer " + m.group(1)) if m else ""
        if r.rc != 0:
            return "fails alone too (process rc=%s%s)" % (r.rc, extra)
        if res["transitions"] == 0:
            return "fails alone too (no output%s)" % extra
        if res["viol"]:
            return "fails alone too (plain wrong answer%s)" % extra
        return "AddressSanitizer report alone too" if m else "passes alone (history/batch dependent)"
    finally:
        shutil.rmtree(d, ignore_errors=True)
