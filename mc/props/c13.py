"""C13 -- independent contexts are isolated and can run in parallel OS threads.

(a) isolation by exploration (one OS thread): two (thorough: also three) contexts, every pair of operation sequences over the
    alphabet {define a shared name, define a private name, register a record type, import a C-backed library and fill a table, import
    libraries that register C types (in different orders) and use their objects,
    allocate until collections happen, intern fresh symbols, mutate, open+close a descriptor-backed port, keep a file open, destroy} x every interleaving; after every operation each
    live context evaluates a fixed probe whose answer must equal the answer of a context that lived ALONE through the same own
    operations (differential, no hand-written expectation).  Run under ASan so that use-after-destroy is visible.
(b) interleavings of OS threads: 2-3 pthreads each create a context, load the standard environment, import libraries, run a
    workload with collections and destroy it, under a cooperative scheduler that hands control over only at interposed libc
    calls touching process-wide state (dlopen/dlclose/fopen/fclose/getenv) -- every schedule with <= k pre-emptions.
    Each thread's output must equal its solo baseline.
(c) the same thread bodies free-running under ThreadSanitizer with 2..16 threads: no data race report."""
import os, re, itertools, subprocess, time
from concurrent.futures import ThreadPoolExecutor
from .. import common, build
from ..common import Check, log


def run_ctxmc(variant, args, timeout=300):
    out = build.build_variant(variant)
    e = build.env_for(variant)
    p = subprocess.run([os.path.join(out, "harness", "ctxmc")] + [str(a) for a in args], env=e, stdout=subprocess.PIPE, preexec_fn=common.die_with_parent,
                       stderr=subprocess.STDOUT, stdin=subprocess.DEVNULL, timeout=timeout)
    return p.returncode, p.stdout.decode("utf-8", "replace")


def interleavings(na, nb, nc=0):
    seen = set()
    for perm in set(itertools.permutations("a" * na + "b" * nb + "c" * nc)):
        yield "".join(perm)


def main(tier):
    chk = Check("C13", "model_checking", tier, quick_s=170, thorough_s=1500)
    chk.clean_replays()
    quick = tier == "quick"
    chk.rule = ("(a) all pairs of per-context operation sequences of length 2 over %d operations x all interleavings, 20 pairs of sequences that load C-typed libraries in different orders (+ three contexts in "
                "thorough); (b) all schedules with <= %d pre-emptions at interposed libc points for 2 (and 3) threads; (c) TSan runs with 2,4,8,16 "
                "threads.  distinct_nontrivial = executions in which operations of different contexts/threads interleave") % (
                    7 if quick else 10, 1 if quick else 2)
    chk.assumptions = ["sexp_scheme_init() is called once before the threads start", "scheduling points are the libc calls that touch process-wide "
                       "state; the ThreadSanitizer pass (free-running, same bodies) is what justifies that choice",
                       "ThreadSanitizer is a detector run, not an enumeration"]
    for v in ("asan", "opt", "tsan"):
        build.build_variant(v)
    states = transitions = traces = 0
    # ---------------- (a)
    alpha = "dthgx" if quick else "dothgsmfkx"
    seqs = ["".join(s) for s in itertools.product(alpha, repeat=2)]
    if quick:
        seqs += ["fg", "fx", "kg", "fk", "kf", "gf"]           # the descriptor operations: only next to collections / each other
    seqs = [s for s in seqs if not s.startswith("x")]
    cseqs = ["cr", "rc", "rg", "rx", "rr"]                         # C-typed libraries loaded in different orders: paired among themselves
    seqs_all = seqs + [c for c in cseqs if c not in seqs]          # destroying a context that was never used is a no-op
    solo = {}

    def solo_run(a):
        s, role = a
        args = ["iso", s, "", "aa"] if role == 0 else ["iso", "", s, "bb"]
        rc, out = run_ctxmc("asan", args)
        return s, role, rc, out
    with ThreadPoolExecutor(common.NCPU) as ex:
        for s, role, rc, out in ex.map(solo_run, [(s, r) for s in seqs_all for r in (0, 1)]):
            if rc != 0 or "AddressSanitizer" in out:
                chk.violation({"op": "iso-solo", "seq": s}, "solo run of sequence %s failed: %s" % (s, out[-300:]))
            solo[(s, role)] = {int(m.group(1)): m.group(2) for m in re.finditer(r"^P %d (\d+) (.*)$" % role, out, re.M)}
    bseqs = seqs if not quick else [x for x in ("dt", "hg", "dx", "gx", "th", "hd", "kg", "fg") if x in seqs]
    jobs = [(sa, sb, il) for sa in seqs for sb in bseqs for il in interleavings(2, 2)]
    jobs = [(sa, sb, il) for sa in cseqs for sb in ("cr", "rc", "rx", "hg") for il in interleavings(2, 2)] + jobs

    def iso_run(j):
        sa, sb, il = j
        rc, out = run_ctxmc("asan" if ("x" in sa + sb) else "opt", ["iso", sa, sb, il])
        return j, rc, out
    t0 = time.time()
    with ThreadPoolExecutor(common.NCPU) as ex:
        for (sa, sb, il), rc, out in ex.map(iso_run, jobs):
            traces += 1
            transitions += 4
            mstd = re.search(r"^STDCLOSED (\d) (.*)$", out, re.M)
            if mstd:
                chk.violation({"op": "std-descriptor-closed", "fd": int(mstd.group(1)), "a": sa, "b": sb, "interleaving": il},
                              "contexts A:%s B:%s interleaved %s: process-wide descriptor %s was closed %s" % (sa, sb, il, mstd.group(1), mstd.group(2)),
                              "ctxmc iso %s %s %s\n" % (sa, sb, il), ext="txt")
                continue
            if rc != 0 or "AddressSanitizer" in out:
                chk.violation({"op": "iso-crash", "a": sa, "b": sb, "interleaving": il},
                              "contexts A:%s B:%s interleaved %s: abnormal end rc=%s %s" % (sa, sb, il, rc, out[-400:]))
                continue
            ok = True
            for m in re.finditer(r"^P (\d) (\d+) (.*)$", out, re.M):
                c, pos, probe = int(m.group(1)), int(m.group(2)), m.group(3)
                want = solo[(sa, 0) if c == 0 else (sb, 1)].get(pos)
                if want is None and pos == 0:
                    continue
                if probe != want:
                    ok = False
                    chk.violation({"op": "isolation", "a": sa, "b": sb, "interleaving": il, "ctx": c, "pos": pos, "got": probe, "want": want},
                                  "contexts A:%s B:%s interleaved %s: context %s after its %d-th operation answers %s, alone it answers %s" % (
                                      sa, sb, il, "AB"[c], pos, probe, want),
                                  "ctxmc iso %s %s %s\n" % (sa, sb, il), ext="txt")
                    break
            chk.count(1, outcome="isolated" if ok else "leak", key=(sa, sb, il))
            if chk.time_left() < 60:
                chk.exhaustive = False
                break
    states += len(seqs) * len(bseqs)
    log("C13 (a): %d interleaved executions in %.1fs" % (traces, time.time() - t0))
    chk.sample({"ctxmc": "iso dh tx abab", "meaning": "A: define+import/table, B: record type+destroy, alternating"})
    # ---------------- (b)
    base = {}
    for w in range(4):
        rc, out = run_ctxmc("opt", ["solo", w, 0 if w % 2 == 0 else 256 * 1024])
        m = re.search(r"^S\d+ (.*)$", out, re.M)
        base[w] = m.group(1) if m else None
    def sched_run(a):
        n, sched = a
        rc, out = run_ctxmc("opt", ["sched", n, ",".join(map(str, sched)) or "-", "trace"], timeout=120)
        return a, rc, out
    for n in ((2,) if quick else (2, 3)):
        (a0, rc, out) = sched_run((n, ()))
        m = re.search(r"^POINTS (\d+)", out, re.M)
        if rc != 0 or not m:
            chk.violation({"op": "sched-baseline", "threads": n}, "cooperative baseline with %d threads failed: %s" % (n, out[-300:]))
            continue
        npoints = int(m.group(1))
        k = 1 if (quick or n == 3) else 2
        scheds = [(n, (i,)) for i in range(1, npoints + 1)]
        if k >= 2:
            scheds += [(n, (i, j)) for i in range(1, npoints + 1, 1) for j in range(i + 1, npoints + 1, 3)]
        t0 = time.time()
        with ThreadPoolExecutor(common.NCPU) as ex:
            for (nn, sched), rc, out in ex.map(sched_run, scheds):
                traces += 1
                transitions += len(sched) + 1
                if chk.time_left() < 30:
                    chk.exhaustive = False
                    break
                lines = dict(re.findall(r"^T(\d+) (.*)$", out, re.M))
                bad = rc != 0 or "STDCLOSED" in out or any(lines.get(str(i)) != base[i % 4] for i in range(nn))
                if bad:
                    chk.violation({"op": "thread-schedule", "threads": nn, "schedule": list(sched)},
                                  "%d threads, pre-emptions at points %s: outputs %s differ from the solo baselines (rc=%s)" % (nn, list(sched), lines, rc),
                                  "ctxmc sched %d %s\n" % (nn, ",".join(map(str, sched))), ext="txt")
                chk.count(1, outcome="schedule-ok" if not bad else "schedule-bad", key=("sched", nn, sched))
        states += npoints
        log("C13 (b): %d threads, %d points, %d schedules in %.1fs" % (n, npoints, len(scheds), time.time() - t0))
    chk.sample({"ctxmc": "sched 2 57", "meaning": "thread 0 is pre-empted at its 57th libc call touching process-wide state"})
    # ---------------- (c)
    races = 0
    for n in (2, 4, 8, 16):
        if chk.time_left() < 20:
            chk.exhaustive = False
            break
        nletters = 20000
        rc, out = run_ctxmc("tsan", ["threads", n, 1 if quick else 3, nletters], timeout=600)
        lines = dict(re.findall(r"^T(\d+) (.*)$", out, re.M))
        # every thread wrote its own letter to the shared stdout through the standard port of its own context: none may be lost
        body = "\n".join(l for l in out.split("\n") if not re.match(r"^T\d+ ", l) and "ThreadSanitizer" not in l)
        for i in range(min(n, 26)):
            got = sum(l.count(chr(97 + i)) for l in body.split("\n") if re.fullmatch("[a-z]*", l))
            want = nletters * (1 if quick else 3)
            if "ThreadSanitizer" not in out and got != want:
                chk.violation({"op": "shared-stdout", "threads": n, "thread": i, "got": got, "want": want},
                              "%d threads writing to the process-wide stdout through their own contexts: thread %d's letter arrived %d times instead of %d" % (n, i, got, want))
                break
        chk.count(1, outcome="tsan-run")
        if "ThreadSanitizer" in out:
            races += 1
            first = re.search(r"WARNING: ThreadSanitizer: (.*?)\n((?:.*\n){0,12})", out)
            chk.violation({"op": "data-race", "threads": n}, "ThreadSanitizer report with %d threads: %s" % (n, first.group(0)[:900] if first else out[:600]))
        if rc != 0 or any(lines.get(str(i)) != base[(i + (0 if quick else 2)) % 4] for i in range(n)):
            chk.violation({"op": "thread-output", "threads": n}, "free-running threads: outputs differ from the solo baselines rc=%s: %s" % (rc, str(lines)[:400]))
    # the same letter count on the plain build, where the threads really run in parallel: 8 threads x 200000 letters, three runs
    for rep in range(3):
        if chk.time_left() < 15:
            chk.exhaustive = False
            break
        nl = 200000
        rc, out = run_ctxmc("opt", ["threads", 8, 1, nl], timeout=300)
        chk.count(1, outcome="stdout-run")
        body = [l for l in out.split("\n") if re.fullmatch("[a-z]*", l)]
        for i in range(8):
            got = sum(l.count(chr(97 + i)) for l in body)
            if rc != 0 or got != nl:
                chk.violation({"op": "shared-stdout", "threads": 8, "thread": i, "got": got, "want": nl, "variant": "opt"},
                              "8 threads writing to the process-wide stdout through their own contexts (plain build, rc=%s): thread %d's letter arrived %d times instead of %d" % (rc, i, got, nl))
                break
    chk.cov["states"] = states
    chk.cov["transitions"] = transitions
    chk.cov["traces_validated_against_impl"] = traces
    chk.cov["tsan_reports"] = races
    common.cleanup_scratch()
    return chk.finish()
