"""C17 -- bitwise operations are two's-complement exact on all exact integers (SRFI 151).

Every ordered pair of the C04 boundary lattice x every binary bitwise operation, every value x shift-count
lattice, every value x (start,end) field lattice, compared with Python's unbounded two's-complement ints."""
import os, itertools
from multiprocessing import Pool
from .. import common, build
from ..common import Check, log
from ..models import nums
from ..tablejob import run_table_job

PRELUDE = r"""
(import (scheme base) (scheme write) (srfi 151) (only (chibi) fixnum?))
(define (tag r)
  (cond ((boolean? r) "") ((not (number? r)) "?") ((not (exact? r)) " i")
        ((integer? r) (if (fixnum? r) " f" " b")) (else " r")))
(define (out r) (write r) (display (tag r)) (display ";"))
(define (show . rs) (for-each out rs) (newline))
(define-syntax run
  (syntax-rules ()
    ((_ e) (guard (x (#t (display "E") (newline)))
             (call-with-values (lambda () e) show)))))
"""


def fmt(v):
    if v is None:
        return None
    if isinstance(v, bool):
        return "#t;" if v else "#f;"
    return "%d %s;" % (v, "f" if nums.is_fixnum(v) else "b")


def popcount(x):
    return bin(x).count("1")


def mask(n):
    return (1 << n) - 1


BIN = {
    "bitwise-and": lambda a, b: a & b, "bitwise-ior": lambda a, b: a | b, "bitwise-xor": lambda a, b: a ^ b,
    "bitwise-eqv": lambda a, b: ~(a ^ b), "bitwise-nand": lambda a, b: ~(a & b), "bitwise-nor": lambda a, b: ~(a | b),
    "bitwise-andc1": lambda a, b: ~a & b, "bitwise-andc2": lambda a, b: a & ~b,
    "bitwise-orc1": lambda a, b: ~a | b, "bitwise-orc2": lambda a, b: a | ~b,
    "any-bit-set?": lambda a, b: (a & b) != 0, "every-bit-set?": lambda a, b: (a & b) == a,
}
UN = {
    "bitwise-not": lambda a: ~a,
    "bit-count": lambda a: popcount(a) if a >= 0 else popcount(~a),
    "integer-length": lambda a: a.bit_length() if a >= 0 else (~a).bit_length(),
    "first-set-bit": lambda a: -1 if a == 0 else (a & -a).bit_length() - 1,
}
# (op value k)
SHIFT = {
    "arithmetic-shift": ("(arithmetic-shift x k)", lambda x, k: x << k if k >= 0 else x >> (-k), True),
    "bit-set?": ("(bit-set? k x)", lambda x, k: bool((x >> k) & 1), False),
    "copy-bit-1": ("(copy-bit k x #t)", lambda x, k: x | (1 << k), False),
    "copy-bit-0": ("(copy-bit k x #f)", lambda x, k: x & ~(1 << k), False),
}


def bit_field(x, s, e):
    return (x >> s) & mask(e - s)


def rotate(x, count, s, e):
    w = e - s
    if w == 0:
        return x
    f = bit_field(x, s, e)
    c = count % w
    f2 = ((f << c) | (f >> (w - c))) & mask(w)
    return (x & ~(mask(w) << s)) | (f2 << s)


def reverse(x, s, e):
    w = e - s
    f = bit_field(x, s, e)
    r = 0
    for i in range(w):
        if (f >> i) & 1:
            r |= 1 << (w - 1 - i)
    return (x & ~(mask(w) << s)) | (r << s)


FIELD = {
    "bit-field": ("(bit-field x s e)", lambda x, s, e: bit_field(x, s, e)),
    "bit-field-any?": ("(bit-field-any? x s e)", lambda x, s, e: bit_field(x, s, e) != 0),
    "bit-field-every?": ("(bit-field-every? x s e)", lambda x, s, e: bit_field(x, s, e) == mask(e - s)),
    "bit-field-clear": ("(bit-field-clear x s e)", lambda x, s, e: x & ~(mask(e - s) << s)),
    "bit-field-set": ("(bit-field-set x s e)", lambda x, s, e: x | (mask(e - s) << s)),
    "bit-field-reverse": ("(bit-field-reverse x s e)", lambda x, s, e: reverse(x, s, e)),
    # an empty field is not asserted: the SRFI 151 reference implementation takes count modulo the width
    "bit-field-rotate+1": ("(bit-field-rotate x 1 s e)", lambda x, s, e: rotate(x, 1, s, e) if e > s else None),
    "bit-field-rotate-3": ("(bit-field-rotate x -3 s e)", lambda x, s, e: rotate(x, -3, s, e) if e > s else None),
}
FIELD2 = {
    "bit-field-replace": ("(bit-field-replace x y s e)",
                          lambda x, y, s, e: (x & ~(mask(e - s) << s)) | ((y & mask(e - s)) << s)),
    "bit-field-replace-same": ("(bit-field-replace-same x y s e)",
                               lambda x, y, s, e: (x & ~(mask(e - s) << s)) | (y & (mask(e - s) << s))),
    "bitwise-if": None,
}

SHIFTS = sorted(set([0, 1, 2] + [k + d for k in (32, 62, 63, 64, 128, 192, 256) for d in (-1, 0, 1)]))
FIELDS = [(s, e) for s in (0, 1, 31, 32, 61, 62, 63, 64, 65, 127, 128, 130) for e in (0, 1, 2, 32, 33, 62, 63, 64, 65, 66, 128, 129, 131, 192) if s <= e]


def vec(name, vals):
    return "(define %s (vector %s))\n" % (name, " ".join(str(v) for v in vals))


def loop2(na, nb, body):
    return "(do ((i 0 (+ i 1))) ((= i %d))\n (do ((j 0 (+ j 1))) ((= j %d))\n  %s))\n" % (na, nb, body)


def gen_job(job):
    k = job[0]
    if k == "bin":
        _, op, A, B = job
        fn = BIN[op]
        txt = PRELUDE + vec("A", A) + vec("B", B) + vec("A2", A) + vec("B2", B) + loop2(
            len(A), len(B), "(run (%s (vector-ref A i) (vector-ref B j)))"
            "(unless (and (eqv? (vector-ref A i) (vector-ref A2 i)) (eqv? (vector-ref B j) (vector-ref B2 j))) (display \"!MUTATED\") (newline))" % op)
        return txt, [((op, a, b), fmt(fn(a, b))) for a in A for b in B]
    if k == "un":
        _, op, A = job
        fn = UN[op]
        txt = PRELUDE + vec("A", A) + "(do ((i 0 (+ i 1))) ((= i %d)) (run (%s (vector-ref A i))))\n" % (len(A), op)
        return txt, [((op, a), fmt(fn(a))) for a in A]
    if k == "shift":
        _, op, A, K = job
        expr, fn, neg = SHIFT[op]
        txt = PRELUDE + vec("A", A) + vec("K", K) + loop2(
            len(A), len(K), "(let ((x (vector-ref A i)) (k (vector-ref K j))) (run %s))" % expr)
        return txt, [((op, a, kk), fmt(fn(a, kk))) for a in A for kk in K]
    if k == "field":
        _, op, A, FS = job
        expr, fn = FIELD[op]
        txt = PRELUDE + vec("A", A) + vec("S", [s for s, e in FS]) + vec("E", [e for s, e in FS]) + loop2(
            len(A), len(FS), "(let ((x (vector-ref A i)) (s (vector-ref S j)) (e (vector-ref E j))) (run %s))" % expr)
        return txt, [((op, a, s, e), fmt(fn(a, s, e))) for a in A for s, e in FS]
    if k == "field2":
        _, op, A, B, FS = job
        expr, fn = FIELD2[op]
        txt = PRELUDE + vec("A", A) + vec("B", B) + vec("S", [s for s, e in FS]) + vec("E", [e for s, e in FS]) + \
            "(do ((i 0 (+ i 1))) ((= i %d)) (do ((l 0 (+ l 1))) ((= l %d)) (do ((j 0 (+ j 1))) ((= j %d))\n" \
            " (let ((x (vector-ref A i)) (y (vector-ref B l)) (s (vector-ref S j)) (e (vector-ref E j))) (run %s)))))\n" % (
                len(A), len(B), len(FS), expr)
        return txt, [((op, a, b, s, e), fmt(fn(a, b, s, e))) for a in A for b in B for s, e in FS]
    if k == "if":
        _, A = job
        txt = PRELUDE + vec("A", A) + "(do ((i 0 (+ i 1))) ((= i %d)) (do ((l 0 (+ l 1))) ((= l %d)) (do ((j 0 (+ j 1))) ((= j %d))\n" \
            " (run (bitwise-if (vector-ref A i) (vector-ref A l) (vector-ref A j))))))\n" % (len(A), len(A), len(A))
        return txt, [(("bitwise-if", m, a, b), fmt((m & a) | (~m & b))) for m in A for a in A for b in A]
    if k == "bits":
        _, A = job
        txt = PRELUDE + vec("A", A) + "(do ((i 0 (+ i 1))) ((= i %d)) (let ((x (vector-ref A i))) (run (values (list->bits (bits->list x)) (vector->bits (bits->vector x)) (length (bits->list x))))))\n" % len(A)
        return txt, [(("bits->list", a), fmt(a) + fmt(a) + fmt(a.bit_length())) for a in A]
    if k == "nary":
        _, op, A, triples = job
        fn = {"bitwise-and": lambda a, b, c: a & b & c, "bitwise-ior": lambda a, b, c: a | b | c,
              "bitwise-xor": lambda a, b, c: a ^ b ^ c, "bitwise-eqv": lambda a, b, c: ~(~(a ^ b) ^ c)}[op]
        txt = PRELUDE + vec("A", A) + "\n".join(
            "(run (%s (vector-ref A %d) (vector-ref A %d) (vector-ref A %d)))" % (op, i, j, l) for i, j, l in triples)
        return txt, [((op, A[i], A[j], A[l]), fmt(fn(A[i], A[j], A[l]))) for i, j, l in triples]
    raise ValueError(k)


def outcome_key(desc, want):
    return "".join(c for c in want if c in "fb#") or "s"


def scheme_case(desc):
    op = desc[0]
    a = desc[1:]
    if op in SHIFT:
        return SHIFT[op][0].replace("x", str(a[0])).replace(" k", " " + str(a[1]))
    if op in FIELD:
        return FIELD[op][0].replace(" x ", " %d " % a[0]).replace(" s ", " %d " % a[1]).replace(" e)", " %d)" % a[2])
    if op in FIELD2 and FIELD2[op]:
        return FIELD2[op][0].replace(" x ", " %d " % a[0]).replace(" y ", " %d " % a[1]).replace(" s ", " %d " % a[2]).replace(" e)", " %d)" % a[3])
    return "(%s %s)" % (op, " ".join(str(x) for x in a))


def jobs_for(tier):
    L = nums.lattice(1 if tier == "quick" else 2)
    S = nums.lattice(0)
    big = nums.big_operands()[:10]
    jobs = []
    chunk = max(1, len(L) // 3)
    for op in BIN:
        for lo in range(0, len(L), chunk):
            jobs.append(("bin", op, L[lo:lo + chunk], L))
        jobs.append(("bin", op, big, big + S[:30]))
    for op in UN:
        jobs.append(("un", op, L + big))
    for op in SHIFT:
        K = SHIFTS if not SHIFT[op][2] else sorted(set(SHIFTS + [-k for k in SHIFTS]))
        jobs.append(("shift", op, L + big, K))
    for op in FIELD:
        jobs.append(("field", op, L, FIELDS))
    A2 = S[::3] if tier == "quick" else S
    for op in ("bit-field-replace", "bit-field-replace-same"):
        c2 = max(1, len(A2) // 4)
        for lo in range(0, len(A2), c2):
            jobs.append(("field2", op, A2[lo:lo + c2], A2, FIELDS))
    T = S[::3] if tier == "quick" else S[::2]
    c3 = max(1, len(T) // 4)
    for lo in range(0, len(T), c3):
        jobs.append(("if", T) if lo == 0 and False else ("ifpart", T, lo, min(len(T), lo + c3)))
    jobs.append(("bits", [x for x in L + big if x >= 0]))
    idx = list(itertools.product(range(len(T)), repeat=3))
    # bitwise-eqv with three arguments is not asserted (SRFI 151's text and reference implementation disagree with
    # "complement of xor" for odd argument counts; the property does not list it)
    for op in ("bitwise-and", "bitwise-ior", "bitwise-xor"):
        jobs.append(("nary", op, T, idx))
    return jobs


_gen_job_inner = gen_job


def gen_job(job):   # noqa: F811  (adds the partitioned bitwise-if job)
    if job[0] == "ifpart":
        _, A, lo, hi = job
        txt = PRELUDE + vec("A", A) + "(do ((i %d (+ i 1))) ((= i %d)) (do ((l 0 (+ l 1))) ((= l %d)) (do ((j 0 (+ j 1))) ((= j %d))\n" \
            " (run (bitwise-if (vector-ref A i) (vector-ref A l) (vector-ref A j))))))\n" % (lo, hi, len(A), len(A))
        return txt, [(("bitwise-if", m, a, b), fmt((m & a) | (~m & b))) for m in A[lo:hi] for a in A for b in A]
    return _gen_job_inner(job)


def main(tier):
    chk = Check("C17", "exploration", tier, quick_s=170, thorough_s=1500)
    chk.clean_replays()
    chk.rule = ("every ordered pair of the integer boundary lattice x 12 binary bitwise ops; every value x shift/index lattice; "
                "every value x (start,end) field lattice x 8 field ops; replace/if/n-ary over the small lattice cubed; fixed large "
                "family.  distinct_nontrivial = cases whose operand or result is a bignum or negative")
    chk.assumptions = ["SRFI 151 semantics: integers are infinite two's-complement bit strings", "oracle: CPython int bit operations",
                       "64-bit build"]
    variants = ["opt"] if tier == "quick" else ["opt", "cll"]
    for v in variants:
        build.build_variant(v)
    jobs = jobs_for(tier)
    work = [(v, "mc.props.c17", j, {}) for v in variants for j in jobs]
    log("C17: %d jobs" % len(work))
    done = 0
    with Pool(common.NCPU) as pool:
        for title, n, mism, nm, outcomes, crash, first in pool.imap_unordered(run_table_job, work):
            done += 1
            chk.evaluations += n
            for k, c in outcomes.items():
                chk.outcomes[k] += c
                if "b" in k:
                    chk.nontrivial_n += c
            if first is not None:
                chk.sample(scheme_case(first))
            for desc, want, got in mism:
                d = {"op": desc[0], "args": list(desc[1:]), "want": want, "got": got}
                chk.violation(d, "%s => %s, expected %s" % (scheme_case(desc), got, want),
                              PRELUDE + "(run %s)\n;; expected: %s\n" % (scheme_case(desc), want))
            if crash:
                rc, nb, nc, at, tail = crash
                chk.violation({"op": str(title), "crash": True, "rc": rc},
                              "batch %s ended early (rc=%s, %d of %d results) at %s: %s" % (title, rc, nb, nc, at and scheme_case(at), tail[-300:]))
            if chk.out_of_time():
                pool.terminate()
                break
    chk.cov["jobs_completed"] = done
    chk.cov["jobs_total"] = len(work)
    chk.cov["variants"] = variants
    common.cleanup_scratch()
    return chk.finish()
