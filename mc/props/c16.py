"""C16 -- weak references and finalizers track reachability exactly.

(a) harness/ephmc.c: explicit-state exploration of all histories (to the stated depth) of newkey / neweph / dropkey /
    dropeph / gc over two key slots and two ephemeron slots whose values are a fresh object, the other key, the other
    ephemeron or a list holding the ephemeron's own key, on the real collector (ASan, freed memory poisoned), against a
    reachability model with ephemeron semantics.
(b) scheme/weak/fds.scm: all histories of length <= 5 of open / read / close / drop / gc on a file port, with the number of
    open descriptors (/proc/self/fd) checked against the model after every step; descriptor exhaustion with RLIMIT_NOFILE=64."""
import os, re, resource, subprocess
from .. import common, build
from ..common import Check, log


def main(tier):
    chk = Check("C16", "model_checking", tier, quick_s=170, thorough_s=1500)
    chk.clean_replays()
    depth = 6 if tier == "quick" else 7
    chk.rule = ("(a) every history of <= %d operations over 27 operations on 2 key and 2 ephemeron slots, de-duplicated on the reachability "
                "graph, and every history one shorter over 39 operations (the 12 extra ones create ephemerons whose key is an immediate); (b) every history of <= 5 port operations; distinct_nontrivial = distinct reachability graphs + port histories" % depth)
    chk.assumptions = ["the harness owns all roots (a preserved vector); object addresses are compared, never dereferenced unless the model "
                       "says the object is live", "Linux /proc/self/fd"]
    out = build.build_variant("asan")
    e = build.env_for("asan")
    # two explorations in parallel: a one-segment heap, and a heap with a second (last) segment while the objects live in the first
    # (the collector's ephemeron fix-point then has to hold across segments); the second one is a level shallower
    from concurrent.futures import ThreadPoolExecutor
    def run_ephmc(a):
        dpt, multi, imm = a
        return a, subprocess.run([os.path.join(out, "harness", "ephmc"), str(dpt), str(multi), str(imm)], env=e, stdout=subprocess.PIPE, preexec_fn=common.die_with_parent,
                                 stderr=subprocess.STDOUT, timeout=3000)
    FDS2_OPS = 13
    def run_fds2(k):
        # two slots x three kinds of owner (file port, port on a descriptor object, bare descriptor object; also a descriptor object
        # whose close(2) failed because its number had been closed by raw number), every history of <= 4
        # operations on the plain build; one process per first operation
        build.build_variant("opt")
        return common.evalbatch("opt", [os.path.join(common.VERIF, "scheme", "weak", "fds2.scm")], timeout=1200, env={"FDS2_FIRST": str(k)})
    with ThreadPoolExecutor(common.NCPU) as ex:
        futs = [ex.submit(run_fds2, k) for k in range(FDS2_OPS)]
        runs = list(ex.map(run_ephmc, [(depth, 0, 0), (depth - 1, 1, 0), (depth - 1, 0, 1), (depth - 2, 1, 1)]))
        r2s = [f.result() for f in futs]
    nh2 = 0
    for k, r2 in enumerate(r2s):
        mm = re.search(r"^FD2-HISTORIES \((\d+) (\d+) (\d+)\)", r2.out, re.M)
        if r2.rc != 0 or r2.timed_out or not mm or ";;EXC" in r2.out:
            chk.violation({"op": "fds2-crash", "first": k}, "two-slot descriptor scenario (first operation %d) ended abnormally (rc=%s): %s" % (k, r2.rc, r2.out[-600:]))
            continue
        chk.count(int(mm.group(1)), outcome="port-history")
        chk.nontrivial_n += int(mm.group(1))
        nh2 += int(mm.group(1))
        for l in r2.out.split("\n"):
            if l.startswith("FD2-MISMATCH"):
                chk.violation({"op": "fd-leak-or-early-close", "line": l}, "descriptor count / readability differs from the model: " + l)
            if l.startswith("FD2-LEFTOVER"):
                chk.violation({"op": "fd-leftover", "line": l}, "a descriptor stayed open after every port was dropped and a collection ran: " + l)
        if (int(mm.group(2)) and "FD2-MISMATCH" not in r2.out) or (int(mm.group(3)) and "FD2-LEFTOVER" not in r2.out):
            chk.violation({"op": "fd-final-count", "first": k}, "%s histories failed / %s left descriptors open" % (mm.group(2), mm.group(3)))
    chk.cov["port_histories_two_slots"] = nh2
    for (dpt, multi, imm), p in runs:
        txt = p.stdout.decode("utf-8", "replace")
        m = re.search(r"STATS states=(\d+) transitions=(\d+) depth=(\d+) alphabet=(\d+) gc_transitions=(\d+) violations=(\d+)", txt)
        if not m or "AddressSanitizer" in txt or p.returncode not in (0, 1):
            chk.violation({"op": "ephmc-crash", "segments": 2 if multi else 1}, "ephmc (depth %d, %s) ended abnormally rc=%s: %s" % (
                dpt, ("two segments" if multi else "one segment") + (", immediate keys" if imm else ""), p.returncode, txt[-800:]))
            continue
        states, trans = int(m.group(1)), int(m.group(2))
        chk.count(trans, outcome="eph-transition")
        chk.nontrivial_n += states
        chk.cov["states"] = chk.cov.get("states", 0) + states
        chk.cov["transitions"] = chk.cov.get("transitions", 0) + trans
        chk.cov["traces_validated_against_impl"] = chk.cov.get("traces_validated_against_impl", 0) + trans
        chk.cov["gc_transitions"] = chk.cov.get("gc_transitions", 0) + int(m.group(5))
        for l in txt.split("\n"):
            if l.startswith("VIOLATION "):
                hist, _, msg = l[10:].partition(" :: ")
                chk.violation({"op": "ephemeron", "history": hist, "msg": msg, "segments": 2 if multi else 1},
                              "history [%s] (%s): %s" % (hist, "heap with two segments" if multi else "one segment", msg),
                              "history=%s\nsegments=%d\n" % (hist, 2 if multi else 1), ext="hist")
    chk.sample("newkey(0) neweph(E0,key=K0,value=list-of-own-key) dropkey(0) gc  => E0 must be broken")
    # (b)
    def limit():
        resource.setrlimit(resource.RLIMIT_NOFILE, (64, 64))
    exe = os.path.join(out, "harness", "evalbatch")
    d = common.scratch_dir("c16")
    env = dict(e)
    env["VERIF_POISON"] = "1"
    p = subprocess.run([exe, os.path.join(common.VERIF, "scheme", "weak", "fds.scm")], cwd=d, env=env, stdout=subprocess.PIPE,
                       stderr=subprocess.STDOUT, stdin=subprocess.DEVNULL, preexec_fn=limit, timeout=900)
    txt = p.stdout.decode("utf-8", "replace")
    def line(tag):
        mm = re.search(r"^%s (.*)$" % tag, txt, re.M)
        return mm.group(1).strip() if mm else None
    if p.returncode != 0 or "AddressSanitizer" in txt or ";;EXC" in txt:
        chk.violation({"op": "fds-crash"}, "descriptor scenario ended abnormally: " + txt[-800:])
    else:
        h = line("FD-HISTORIES")
        mm = re.match(r"\((\d+) (\d+)\)", h or "")
        if not mm:
            chk.violation({"op": "fds-output"}, "no FD-HISTORIES line: " + txt[-400:])
        else:
            chk.count(int(mm.group(1)), outcome="port-history")
            chk.nontrivial_n += int(mm.group(1))
            chk.cov["port_histories"] = int(mm.group(1))
            for l in txt.split("\n"):
                if l.startswith("FD-MISMATCH"):
                    chk.violation({"op": "fd-leak-or-early-close", "line": l}, "descriptor count differs from the model: " + l)
        if line("FD-EXHAUSTION") != "ok":
            chk.violation({"op": "fd-exhaustion", "got": line("FD-EXHAUSTION")}, "700 unclosed unreferenced ports with RLIMIT_NOFILE=64: %s" % line("FD-EXHAUSTION"))
        if line("FD-FINAL") != "0":
            chk.violation({"op": "fd-final", "got": line("FD-FINAL")}, "descriptors still open after dropping every port and collecting: %s" % line("FD-FINAL"))
        if line("EPH") != "(#f value x #t #t #f)":
            chk.violation({"op": "eph-scheme", "got": line("EPH")}, "(chibi weak) at the Scheme level: got %s, expected (#f value x #t #t #f)" % line("EPH"))
        if line("EPH-AFTER-DROP") != "(#t #f)":
            chk.violation({"op": "eph-scheme-drop", "got": line("EPH-AFTER-DROP")}, "ephemeron not broken after its key was dropped: %s" % line("EPH-AFTER-DROP"))
        if line("EPH-PORT") != "(#f #t #\\h #\\h 2)":
            chk.violation({"op": "eph-port-value", "got": line("EPH-PORT")}, "a port held only as the value of an ephemeron with a live key must stay open and readable across collections: got %s, expected (#f #t #\\h #\\h 2)" % line("EPH-PORT"))
        if line("EPH-PORT-AFTER-DROP") != "(#t #t #t)":
            chk.violation({"op": "eph-port-drop", "got": line("EPH-PORT-AFTER-DROP")}, "after the key is dropped the ephemerons are broken and the ports released: got %s" % line("EPH-PORT-AFTER-DROP"))
        chk.sample("port history (open read drop gc): descriptor count returns to the base after the gc")
    common.cleanup_scratch()
    return chk.finish()
