"""C11 -- green threads: mutual exclusion, no lost wake-ups, schedule independence.

Stateless model checking of the real VM + real SRFI-18 scheduler under a controlled scheduler
(iterative pre-emption bounding, CHESS style).  The only nondeterminism -- where a time slice ends and
when timers fire -- is owned by the harness (harness/thrsched.h): time slices are unbounded except at
the chosen deviation points, the clock is virtual.  A deviation is "pre-empt before the i-th visible
instruction" or the same preceded by a one second clock jump (every pending timeout fires).  All
schedules with <= k deviations are enumerated for each driver; every execution is an implementation run.
"""
import os, re, sys, threading, queue, time, hashlib

from .. import common, build
from ..common import Check, log, Server

DIR = os.path.join(common.VERIF, "scheme", "threads")
PRE = os.path.join(DIR, "pre.scm")
GO = os.path.join(DIR, "go.scm")
ENV = {"VERIF_VCLOCK": "1", "VERIF_HORIZON": "400000", "VERIF_ALARM": "20"}

# driver -> (expected RESULT text or None when several results are legal, deviation bound quick, thorough, timers?)
DRIVERS = [
    ("d01-mutex2", "4", 2, 3, False),
    ("d02-mutex3", "13", 2, 2, False),
    ("d03-prodcons", "(a b)", 2, 2, False),
    ("d04-broadcast", "2", 2, 2, False),
    ("d05-timedlock", None, 2, 3, True),     # (ok #t) or (ok #f): both legal, checked by the driver's assertions
    ("d06-timedwait", None, 2, 3, True),
    ("d07-join", "((1 2) quick slept)", 2, 2, True),
    ("d08-terminate", "ok", 2, 2, False),
    ("d09-sleep", "2", 2, 3, True),
    ("d10-params", "(a b root)", 2, 2, False),
    ("d11-yield", "(3 1 2 3)", 2, 2, False),
    ("d12-multijoin", "(t-done t-done c-done)", 2, 2, False),
    ("d13-sleeper", "(w-done s-done)", 2, 2, True),
    ("d14-sleeper-cv", "(w-done s-done 0)", 2, 2, True),
]


def parse(out):
    res = {"result": None, "fails": [], "trace": "", "sched": {}, "abort": None}
    for l in out.split("\n"):
        if l.startswith("RESULT "):
            res["result"] = l[7:]
        elif l.startswith("ASSERT-FAIL"):
            res["fails"].append(l[12:])
        elif l.startswith(";;TRACE "):
            res["trace"] = l[8:]
        elif l.startswith(";;SCHED"):
            for kv in l.split()[1:]:
                k, _, v = kv.partition("=")
                res["sched"][k] = v
        elif l.startswith(";;DEADLOCK") or l.startswith(";;HORIZON") or l.startswith(";;BUDGET-ABORT"):
            res["abort"] = l[2:]
        elif l.startswith(";;EXC"):
            res["fails"].append("uncaught: " + l)
        elif l.startswith("ERROR in child thread") or l.startswith("ERROR:"):
            res["fails"].append(l)
    return res


def points(trace, after, timers):
    """deviation candidates strictly after visible index `after` (1-based indices as counted by the harness)"""
    out = []
    n = len(trace) // 2
    for i in range(after, n):
        who, flag = trace[2 * i], trace[2 * i + 1]
        idx = i + 1
        if who.isupper():
            out.append("%d" % idx)
        if timers and flag == "t":
            out.append("%dT" % idx)
    return out


class Explorer:
    def __init__(self, chk, name, expected, bound, timers, nserv):
        self.chk, self.name, self.expected, self.bound, self.timers = chk, name, expected, bound, timers
        drv = os.path.join(DIR, name + ".scm")
        from concurrent.futures import ThreadPoolExecutor
        with ThreadPoolExecutor(nserv) as ex:
            self.servers = list(ex.map(lambda _: Server("opt", preludes=[PRE, drv], env=ENV), range(nserv)))
        self.q = queue.Queue()
        self.lock = threading.Lock()
        self.executions = 0
        self.transitions = 0
        self.states = set()
        self.results = {}
        self.by_bound = {}
        self.failures = 0
        self.stop = False
        self.pending = 0
        self.cv = threading.Condition()
        self.completed_bound = -1

    def check(self, sched, r, p):
        bad = []
        if r.rc == -14:
            bad.append("no progress for 20 s of CPU/wall time (killed by the watchdog): livelock in the scheduler")
        elif r.rc != 0:
            bad.append("exit status %s" % r.rc)
        if p["abort"]:
            bad.append(p["abort"] + " (no runnable thread / no progress within the horizon)")
        if p["fails"]:
            bad.append("assertion(s) failed: " + ", ".join(p["fails"][:4]))
        if p["result"] is None and not p["abort"]:
            bad.append("driver did not reach its RESULT line")
        elif p["result"] is not None and self.expected is not None and p["result"] != self.expected:
            bad.append("final state %s differs from the schedule-free result %s" % (p["result"], self.expected))
        if bad:
            with self.lock:
                self.failures += 1
            self.chk.violation({"op": self.name, "driver": self.name, "schedule": ",".join(sched), "why": bad[0]},
                               "driver %s schedule [%s]: %s" % (self.name, ",".join(sched) or "default", "; ".join(bad)),
                               "driver=%s\nschedule=%s\n" % (self.name, ",".join(sched) or "on"), ext="sched")

    def worker(self, srv):
        while True:
            item = self.q.get()
            if item is None:
                return
            sched = item
            try:
                if not self.stop:
                    r = srv.run(GO, sched=",".join(sched) if sched else "on")
                    p = parse(r.out)
                    self.check(sched, r, p)
                    tr = p["trace"]
                    # state fingerprint: thread/flag sequence up to the end of the concurrent phase is the schedule's
                    # observable interleaving; distinct interleavings = distinct states of the exploration
                    h = hashlib.md5(tr.encode()).hexdigest()
                    with self.lock:
                        self.executions += 1
                        self.transitions += int(p["sched"].get("preempts", 0) or 0) + 1
                        self.states.add(h)
                        self.results[p["result"]] = self.results.get(p["result"], 0) + 1
                        self.by_bound[len(sched)] = self.by_bound.get(len(sched), 0) + 1
                    if len(sched) < self.bound and not self.stop:
                        last = int(sched[-1].rstrip("T")) if sched else 0
                        for c in points(tr, last, self.timers):
                            with self.cv:
                                self.pending += 1
                            self.q.put(sched + [c])
            except Exception as ex:   # harness trouble must not pass silently
                log("C11 harness error on %s %s: %r" % (self.name, sched, ex))
                self.chk.violation({"op": self.name, "harness": True}, "harness error %r on schedule %s" % (ex, sched))
            finally:
                with self.cv:
                    self.pending -= 1
                    self.cv.notify_all()

    def run(self):
        ts = [threading.Thread(target=self.worker, args=(s,), daemon=True) for s in self.servers]
        for t in ts:
            t.start()
        with self.cv:
            self.pending = 1
        self.q.put([])
        with self.cv:
            while self.pending > 0:
                self.cv.wait(timeout=1.0)
                if self.chk.time_left() < 0 and not self.stop:
                    self.stop = True
                    self.chk.exhaustive = False
        for _ in ts:
            self.q.put(None)
        for t in ts:
            t.join()
        for s in self.servers:
            s.close()


def main(tier):
    chk = Check("C11", "model_checking", tier, quick_s=170, thorough_s=1500)
    chk.clean_replays()
    chk.rule = ("for each of 14 SRFI-18 drivers (2-4 threads, one shared mutex/condvar/counter): every schedule with at most k "
                "deviations, a deviation being a pre-emption before a visible instruction at which another thread is runnable, or "
                "a one second jump of the virtual clock; distinct_nontrivial = executions with at least one deviation")
    chk.assumptions = ["pre-emption only matters before instructions that touch shared memory, do I/O or call foreign code (others commute)",
                       "the real scheduler picks the next thread; timers are driven by a virtual clock (gettimeofday/usleep interposed)",
                       "bounded: <= k pre-emptions, drivers of 2-4 threads"]
    build.build_variant("opt")
    quick = tier == "quick"
    per = {}
    tot_exec = tot_states = tot_trans = 0
    # replay determinism: the default schedule of every driver twice
    replays_identical = 0
    for name, expected, kq, kt, timers in DRIVERS:
        if chk.out_of_time():
            break
        bound = kq if quick else kt
        t0 = time.time()
        ex = Explorer(chk, name, expected, bound, timers, common.NCPU)
        a = ex.servers[0].run(GO, sched="on")
        b = ex.servers[1].run(GO, sched="on")
        if parse(a.out)["trace"] == parse(b.out)["trace"] and parse(a.out)["result"] == parse(b.out)["result"]:
            replays_identical += 1
        else:
            chk.violation({"op": name, "harness": True}, "driver %s: two runs of the default schedule differ (nondeterminism not owned)" % name)
        ex.run()
        per[name] = {"bound": bound, "executions": ex.executions, "by_deviations": ex.by_bound, "distinct_interleavings": len(ex.states),
                     "results": ex.results, "failing": ex.failures, "complete": not ex.stop, "wall_s": round(time.time() - t0, 1)}
        tot_exec += ex.executions
        tot_states += len(ex.states)
        tot_trans += ex.transitions
        chk.evaluations += ex.executions
        chk.nontrivial_n += ex.executions - ex.by_bound.get(0, 0)
        for r, c in ex.results.items():
            chk.outcomes["%s:%s" % (name, r)] += c
        chk.sample({"driver": name, "bound": bound, "schedules": ex.executions, "example_schedule": "pre-empt before visible points 37 and 52"})
        log("C11 %s k<=%d: %d schedules, %d distinct interleavings, results %s, %d failing, %.1fs" % (
            name, bound, ex.executions, len(ex.states), ex.results, ex.failures, time.time() - t0))
    chk.cov["states"] = tot_states
    chk.cov["transitions"] = tot_trans
    chk.cov["traces_validated_against_impl"] = tot_exec
    chk.cov["replays_identical"] = replays_identical
    chk.cov["per_driver"] = per
    common.cleanup_scratch()
    return chk.finish()


def replay(path):
    kv = dict(l.strip().split("=", 1) for l in open(path) if "=" in l)
    build.build_variant("opt")
    drv = os.path.join(DIR, kv["driver"] + ".scm")
    srv = Server("opt", preludes=[PRE, drv], env=ENV)
    try:
        r1 = srv.run(GO, sched=kv["schedule"])
        r2 = srv.run(GO, sched=kv["schedule"])
        p1, p2 = parse(r1.out), parse(r2.out)
        print("deterministic:", p1["trace"] == p2["trace"] and p1["result"] == p2["result"])
        print("result:", p1["result"], "fails:", p1["fails"], "abort:", p1["abort"], "sched:", p1["sched"])
        exp = dict((d[0], d[1]) for d in DRIVERS)[kv["driver"]]
        if p1["fails"] or p1["abort"] or p1["result"] is None or (exp is not None and p1["result"] != exp):
            print("VIOLATION property=C11 replay=%s" % path)
            return 1
        return 0
    finally:
        srv.close()
