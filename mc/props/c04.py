"""C04 -- exact arithmetic is mathematically exact at every magnitude.

Bounded-exhaustive enumeration: every ordered pair over the boundary lattice x every binary operation,
every pair of the rational lattice, every lattice value x every radix, the fixed large-operand family,
compared with Python int / Fraction.  Canonical form (fixnum iff it fits, lowest terms) is checked
through a representation tag printed next to every result.
"""
import os, sys, itertools, math
from fractions import Fraction
from multiprocessing import Pool

from .. import common, build
from ..common import Check, log
from ..models import nums
from ..models.nums import show, kind

PRELUDE = r"""
(import (scheme base) (scheme write) (scheme char) (scheme inexact) (only (chibi) fixnum?))
(define (tag r)
  (cond ((boolean? r) "")
        ((string? r) "")
        ((not (number? r)) "?")
        ((not (exact? r)) " i")
        ((integer? r) (if (fixnum? r) " f" " b"))
        (else " r")))
(define (out r) (write r) (display (tag r)) (display ";"))
(define (show . rs) (for-each out rs) (newline))
(define-syntax run
  (syntax-rules ()
    ((_ e) (guard (x (#t (display "E") (newline)))
             (call-with-values (lambda () e) show)))))
"""


def fmt(*vals):
    """expected output line for exact numeric results"""
    out = []
    for v in vals:
        if isinstance(v, bool):
            out.append("#t;" if v else "#f;")
        elif isinstance(v, str):
            out.append('"%s";' % v)
        else:
            out.append("%s %s;" % (show(v), kind(v)))
    return "".join(out)


def norm(x):
    if isinstance(x, Fraction) and x.denominator == 1:
        return x.numerator
    return x


def F(x):
    return x if isinstance(x, Fraction) else Fraction(x)


def isint(x):
    return not isinstance(x, Fraction) or x.denominator == 1


# ---- binary operations: name -> (scheme expr template, python function returning fmt string or "E", domain)
def _div(a, b):
    if b == 0:
        return "E"
    return fmt(norm(F(a) / F(b)))


def _idiv(which):
    def f(a, b):
        if b == 0:
            return "E"
        qt, rt = nums.trunc_div(a, b)
        qf, rf = nums.floor_div(a, b)
        return {"quotient": fmt(qt), "remainder": fmt(rt), "modulo": fmt(rf),
                "floor/": fmt(qf, rf), "truncate/": fmt(qt, rt),
                "floor-quotient": fmt(qf), "floor-remainder": fmt(rf),
                "truncate-quotient": fmt(qt), "truncate-remainder": fmt(rt)}[which]
    return f


def _lcm(a, b):
    if a == 0 or b == 0:
        return fmt(0)
    return fmt(abs(a * b) // math.gcd(a, b))


INT_BIN = {
    "+": lambda a, b: fmt(a + b), "-": lambda a, b: fmt(a - b), "*": lambda a, b: fmt(a * b),
    "/": _div,
    "gcd": lambda a, b: fmt(math.gcd(a, b)), "lcm": _lcm,
    "<": lambda a, b: fmt(a < b), "=": lambda a, b: fmt(a == b), ">": lambda a, b: fmt(a > b),
    "<=": lambda a, b: fmt(a <= b), ">=": lambda a, b: fmt(a >= b),
    "max": lambda a, b: fmt(max(a, b)), "min": lambda a, b: fmt(min(a, b)),
}
for _n in ("quotient", "remainder", "modulo", "floor/", "truncate/", "floor-quotient", "floor-remainder",
           "truncate-quotient", "truncate-remainder"):
    INT_BIN[_n] = _idiv(_n)

RAT_BIN = {
    "+": lambda a, b: fmt(norm(F(a) + F(b))), "-": lambda a, b: fmt(norm(F(a) - F(b))),
    "*": lambda a, b: fmt(norm(F(a) * F(b))), "/": _div,
    "<": lambda a, b: fmt(F(a) < F(b)), "=": lambda a, b: fmt(F(a) == F(b)), ">": lambda a, b: fmt(F(a) > F(b)),
    "<=": lambda a, b: fmt(F(a) <= F(b)), ">=": lambda a, b: fmt(F(a) >= F(b)),
    "max": lambda a, b: fmt(norm(max(F(a), F(b)))), "min": lambda a, b: fmt(norm(min(F(a), F(b)))),
}


def _expt(a, n):
    if a == 0 and n < 0:
        return "E"
    return fmt(norm(F(a) ** n))


def _isqrt(a):
    if a < 0:
        return None      # "it is an error" in R7RS: nothing is asserted
    s = math.isqrt(a)
    return fmt(s, a - s * s)


UNARY = {
    "abs": lambda a: fmt(norm(abs(F(a)))),
    "-": lambda a: fmt(norm(-F(a))),
    "numerator": lambda a: fmt(F(a).numerator),
    "denominator": lambda a: fmt(F(a).denominator),
    "floor": lambda a: fmt(math.floor(F(a))),
    "ceiling": lambda a: fmt(math.ceil(F(a))),
    "round": lambda a: fmt(nums.frac_round(F(a))),
    "truncate": lambda a: fmt(math.trunc(F(a))),
    "square": lambda a: fmt(norm(F(a) * F(a))),
    "exact-integer?": lambda a: fmt(isint(a)),
    "zero?": lambda a: fmt(a == 0), "positive?": lambda a: fmt(a > 0), "negative?": lambda a: fmt(a < 0),
}
INT_UNARY = {
    "exact-integer-sqrt": _isqrt,
    "even?": lambda a: fmt(a % 2 == 0), "odd?": lambda a: fmt(a % 2 == 1),
}


def exact_double(x):
    """x is exactly representable as a finite double"""
    try:
        f = float(F(x))
    except OverflowError:
        return False
    if math.isinf(f) or math.isnan(f):
        return False
    return Fraction(f) == F(x)


def vec(name, vals):
    return "(define %s (vector %s))\n" % (name, " ".join(show(v) for v in vals))


# A job is (title, scheme_text, expected list, descriptors generator args).  To keep memory small the job
# carries only what is needed to regenerate cases: kind + parameters.

def job_pairs(op, table, A, B, a_lo, a_hi):
    """all pairs A[a_lo:a_hi] x B"""
    return ("pairs", op, table, A, B, a_lo, a_hi)


def gen_job(job):
    """-> (scheme text, [(descriptor, expected)])"""
    k = job[0]
    if k == "pairs":
        _, op, table, A, B, lo, hi = job
        fn = (INT_BIN if table == "int" else RAT_BIN)[op]
        txt = PRELUDE + vec("A", A[lo:hi]) + vec("B", B) + vec("A2", A[lo:hi]) + vec("B2", B) + """
(do ((i 0 (+ i 1))) ((= i %d))
  (do ((j 0 (+ j 1))) ((= j %d))
    (run (%s (vector-ref A i) (vector-ref B j)))
    (unless (and (eqv? (vector-ref A i) (vector-ref A2 i)) (eqv? (vector-ref B j) (vector-ref B2 j)))
      (display "!MUTATED ") (write (vector-ref A2 i)) (display " ") (write (vector-ref B2 j)) (newline)
      (vector-set! A i (+ 0 (vector-ref A2 i))) (vector-set! B j (+ 0 (vector-ref B2 j))))))
""" % (hi - lo, len(B), op)
        cases = [((op, a, b), fn(a, b)) for a in A[lo:hi] for b in B]
        return txt, cases
    if k == "unary":
        _, op, table, A = job
        fn = dict(UNARY, **INT_UNARY)[op]
        txt = PRELUDE + vec("A", A) + vec("A2", A) + """
(do ((i 0 (+ i 1))) ((= i %d)) (run (%s (vector-ref A i)))
    (unless (eqv? (vector-ref A i) (vector-ref A2 i))
      (display "!MUTATED ") (write (vector-ref A2 i)) (newline)))
""" % (len(A), op)
        return txt, [((op, a), fn(a)) for a in A]
    if k == "expt":
        _, A, exps = job
        txt = PRELUDE + vec("A", A) + vec("B", exps) + """
(do ((i 0 (+ i 1))) ((= i %d))
  (do ((j 0 (+ j 1))) ((= j %d))
    (run (expt (vector-ref A i) (vector-ref B j)))))
""" % (len(A), len(exps))
        return txt, [(("expt", a, n), _expt(a, n)) for a in A for n in exps]
    if k == "radix":
        _, A, radixes = job
        txt = PRELUDE + vec("A", A) + vec("R", radixes) + """
(do ((i 0 (+ i 1))) ((= i %d))
  (do ((j 0 (+ j 1))) ((= j %d))
    (let* ((x (vector-ref A i)) (r (vector-ref R j)))
      (run (let ((s (number->string x r)))
             (values s (eqv? x (string->number s r)) (eqv? x (string->number (string-upcase s) r))))))))
""" % (len(A), len(radixes))
        cases = []
        for a in A:
            for r in radixes:
                if isinstance(a, Fraction) and a.denominator != 1:
                    s = nums.to_radix(a.numerator, r) + "/" + nums.to_radix(a.denominator, r)
                else:
                    s = nums.to_radix(int(a), r)
                cases.append((("radix", a, r), fmt(s, True, True)))
        return txt, cases
    if k == "inexact":
        _, A = job
        txt = PRELUDE + vec("A", A) + """
(do ((i 0 (+ i 1))) ((= i %d))
  (let ((x (vector-ref A i)))
    (run (let ((f (inexact x))) (values (exact f) (= f x) (inexact? f))))))
""" % len(A)
        return txt, [(("exact-inexact", a), fmt(norm(F(a)), True, True)) for a in A]
    if k == "fold":
        _, op, A, triples = job
        fn = {"+": lambda a, b, c: fmt(a + b + c), "*": lambda a, b, c: fmt(a * b * c),
              "-": lambda a, b, c: fmt(a - b - c), "max": lambda a, b, c: fmt(max(a, b, c)),
              "gcd": lambda a, b, c: fmt(math.gcd(math.gcd(a, b), c)),
              "<": lambda a, b, c: fmt(a < b < c), "=": lambda a, b, c: fmt(a == b == c)}[op]
        txt = PRELUDE + vec("A", A) + "\n".join(
            "(run (%s (vector-ref A %d) (vector-ref A %d) (vector-ref A %d)))" % (op, i, j, l) for i, j, l in triples)
        return txt, [((op, A[i], A[j], A[l]), fn(A[i], A[j], A[l])) for i, j, l in triples]
    raise ValueError(k)


def run_job(arg):
    variant, job = arg
    txt, cases = gen_job(job)
    d = common.scratch_dir("c04")
    path = os.path.join(d, "job.scm")
    common.write_file(path, txt)
    res = common.evalbatch(variant, [path], timeout=900, cwd=d)
    lines = [l for l in res.out.split("\n")]
    # strip everything from the stats trailer
    body = []
    mutated = []
    for l in lines:
        if l.startswith(";;STATS"):
            break
        if l.startswith("!MUTATED"):
            mutated.append((len(body) - 1, l))
            continue
        body.append(l)
    while body and body[-1] == "":
        body.pop()
    mism = []
    outcomes = {}
    n = min(len(body), len(cases))
    for i in range(n):
        desc, want = cases[i]
        got = body[i]
        if want is None:
            continue
        key = "E" if want == "E" else ("".join(c for c in want if c in "fbr#") or "s")
        outcomes[key] = outcomes.get(key, 0) + 1
        if got != want:
            mism.append((desc, want, got))
    for idx, l in mutated:
        if 0 <= idx < len(cases):
            mism.append((cases[idx][0], "operands unchanged", l))
    crash = None
    if len(body) != len(cases) or res.rc != 0:
        at = cases[n][0] if n < len(cases) else None
        crash = (res.rc, len(body), len(cases), at, res.out[-1500:])
    import shutil
    shutil.rmtree(d, ignore_errors=True)
    return job[0:2], len(cases), mism[:200], len(mism), outcomes, crash, (cases[0][0] if cases else None)


def scheme_case(desc):
    op = desc[0]
    args = " ".join(show(a) for a in desc[1:])
    if op == "radix":
        return "(number->string %s %s) and back" % (show(desc[1]), desc[2])
    if op == "exact-inexact":
        return "(exact (inexact %s))" % show(desc[1])
    return "(%s %s)" % (op, args)


def jobs_for(tier):
    jobs = []
    L = nums.lattice(1 if tier == "quick" else 2)
    R = nums.ratios(0 if tier == "quick" else 1)
    Lsmall = nums.lattice(0)
    big = nums.big_operands()
    chunk = max(1, len(L) // 4)
    for op in INT_BIN:
        for lo in range(0, len(L), chunk):
            jobs.append(job_pairs(op, "int", L, L, lo, min(len(L), lo + chunk)))
    # large operands: every pair of the fixed family, and family x small lattice
    for op in ("+", "-", "*", "quotient", "remainder", "modulo", "gcd", "<", "=", "/"):
        jobs.append(job_pairs(op, "int", big, big + Lsmall[:40], 0, len(big)))
    for op in ("quotient", "remainder", "*", "-"):
        jobs.append(job_pairs(op, "int", Lsmall, big, 0, len(Lsmall)))
    rchunk = max(1, len(R) // 3)
    for op in RAT_BIN:
        for lo in range(0, len(R), rchunk):
            jobs.append(job_pairs(op, "rat", R, R, lo, min(len(R), lo + rchunk)))
        jobs.append(job_pairs(op, "rat", R, Lsmall, 0, len(R)))
        jobs.append(job_pairs(op, "rat", Lsmall, R, 0, len(Lsmall)))
    ties = nums.rounding_ties()
    for op in UNARY:
        jobs.append(("unary", op, "rat", L + R + big))
        if op in ("round", "floor", "ceiling", "truncate", "numerator", "denominator", "abs", "exact-integer-sqrt"):
            jobs.append(("unary", op, "rat", ties))
    for op in INT_UNARY:
        jobs.append(("unary", op, "int", L + big))
    jobs.append(("expt", L[:120] + R[:60], [0, 1, 2, 3, 5, 17, 64, -1, -2, -3]))
    radixes = list(range(2, 37))
    RL = L + R[:80] + big[:6]
    rc = max(1, len(RL) // 8)
    for lo in range(0, len(RL), rc):
        jobs.append(("radix", RL[lo:lo + rc], radixes))
    jobs.append(("inexact", [x for x in L + R if exact_double(x)]))
    # variadic folds over triples of the small lattice (thorough: all triples of lattice(0))
    T = Lsmall if tier != "quick" else Lsmall[::4]
    idx = list(itertools.product(range(len(T)), repeat=3))
    tc = 40000
    for op in ("+", "*", "-", "max", "gcd", "<", "="):
        for lo in range(0, len(idx), tc):
            jobs.append(("fold", op, T, idx[lo:lo + tc]))
    return jobs


def main(tier, replay=None):
    chk = Check("C04", "exploration", tier, quick_s=170, thorough_s=1500)
    chk.clean_replays()
    chk.rule = ("every ordered pair of the integer boundary lattice x every binary op; every pair of the rational "
                "lattice; lattice x radix 2..36; exact<->inexact on exactly representable values; fixed 1000-4000 "
                "bit family; triples for variadic folds.  distinct_nontrivial = distinct (op, operands) cases whose "
                "operands or result leave the fixnum range or are non-integral")
    chk.assumptions = ["64-bit build, fixnum range [-2^62, 2^62-1]", "decimal reader/writer used to carry operands and results",
                       "oracle: CPython int / fractions.Fraction"]
    variants = ["opt"] if tier == "quick" else ["opt", "cll"]
    for v in variants:
        build.build_variant(v)
    jobs = jobs_for(tier)
    import random
    rnd = random.Random(chk.seed)
    order = list(range(len(jobs)))
    if chk.seed:
        rnd.shuffle(order)
    work = [(v, jobs[i]) for v in variants for i in order]
    log("C04: %d jobs" % len(work))
    done = 0
    with Pool(common.NCPU) as pool:
        it = pool.imap_unordered(run_job, work)
        for title, n, mism, nm, outcomes, crash, first in it:
            done += 1
            chk.evaluations += n
            for k, c in outcomes.items():
                chk.outcomes[k] += c
                if k != "f" and k != "#":
                    chk.nontrivial_n += c
            if first is not None:
                chk.sample(scheme_case(first))
            for desc, want, got in mism:
                d = {"op": desc[0], "args": list(desc[1:]), "a": desc[1], "b": desc[2] if len(desc) > 2 else None,
                     "want": want, "got": got}
                chk.violation(d, "%s => %s, expected %s" % (scheme_case(desc), got, want),
                              PRELUDE + "(run %s)\n;; expected: %s\n" % (scheme_case(desc) if desc[0] not in ("radix", "exact-inexact") else
                                                                        "(number->string %s %s)" % (show(desc[1]), desc[2] if len(desc) > 2 else 10), want))
            if nm > len(mism):
                log("job %s: %d further mismatches not individually recorded" % (title, nm - len(mism)))
            if crash:
                rc, nb, nc, at, tail = crash
                chk.violation({"op": title[1] if len(title) > 1 else title[0], "crash": True, "rc": rc, "at": str(at)},
                              "batch %s ended early (rc=%s, %d of %d results) at %s: %s" % (title, rc, nb, nc, at and scheme_case(at), tail[-300:]))
            if chk.out_of_time():
                pool.terminate()
                log("deadline reached after %d/%d jobs" % (done, len(work)))
                break
    chk.cov["jobs_completed"] = done
    chk.cov["jobs_total"] = len(work)
    chk.cov["variants"] = variants
    common.cleanup_scratch()
    return chk.finish()
