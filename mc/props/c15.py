"""C15 -- equal?, eqv? and hashing are coherent; hash tables behave as finite maps.

(a) coherence: every ordered pair of (abstract value, route) instances of a catalogue -> native equal?
    ((chibi), sexp_equalp_bound), (scheme base) equal? (equiv?), eqv?, (hash x), string-hash, string-ci-hash,
    compared with abstract identity (R7RS 6.1), symmetry/transitivity, equal? => same hash.  A cyclic family
    (oracle: bisimulation of the abstract graphs) and a depth family around the 10000 bound.
(b) tables: explicit-state exploration of operation histories over 6 collision-forcing keys from tables
    pre-filled to both sides of every growth threshold, for 5 equivalences, SRFI 69 and SRFI 125 names,
    against models/maps.py.
"""
import os, sys, re, itertools, math, shutil, time
from fractions import Fraction
from multiprocessing import Pool

from .. import common, build
from ..common import Check, log
from ..models import maps

# =====================================================================================================
# (b) hash tables as finite maps
# =====================================================================================================

BIG = 2 ** 70
DETOUR = "(- (expt 2 200) (- (expt 2 200) %s))"

EQUIVS = {
    # name: (key set, classes of K0..K5 under the equivalence, 69 constructor, 125 constructor, hash fn used for the collision search)
    "eq?": ("eq", (0, 1, 2, 3, 4, 5), "(make-hash-table eq?)", "(make-hash-table (make-eq-comparator))", "hash-by-identity"),
    "eqv?": ("genv", (0, 0, 2, 2, 4, 5), "(make-hash-table eqv?)", "(make-hash-table (make-eqv-comparator))", "hash"),
    "equal?": ("gen", (0, 0, 2, 2, 4, 5), "(make-hash-table)", "(make-hash-table (make-equal-comparator))", "hash"),
    # SHASH / SCIHASH: a lambda around string-hash / string-ci-hash (applying the foreign procedure object itself from C
    # compiles a wrapper on every call, ~50-100 us per hash); the procedure object itself is used in the few "raw" configurations
    "string=?": ("str", (0, 0, 2, 2, 4, 5), "(make-hash-table string=? SHASH)",
                 "(make-hash-table (make-comparator string? string=? string<? SHASH))", "string-hash"),
    "string-ci=?": ("str", (0, 0, 0, 0, 4, 5), "(make-hash-table string-ci=? SCIHASH)",
                    "(make-hash-table (make-comparator string? string-ci=? string-ci<? SCIHASH))", "string-ci-hash"),
}

KEYSETS = {
    # K0..K3 expressions, candidate generator for the two colliding keys, filler generator
    "gen": (["%d" % BIG, DETOUR % "(expt 2 70)", '"key"',
             '(let ((s (string-copy "k\\x20ac;y"))) (string-set! s 1 #\\e) s)'],
            '(string->symbol (string-append "c" (number->string i)))', "(+ 100000 i)"),
    "genv": (["%d" % BIG, DETOUR % "(expt 2 70)", "1.5", "(/ 3. 2)"],
             '(string->symbol (string-append "c" (number->string i)))', "(+ 100000 i)"),
    "eq": (["(list 1 2)", "(list 1 2)", '"key"',
            '(let ((s (string-copy "k\\x20ac;y"))) (string-set! s 1 #\\e) s)'],
           '(string->symbol (string-append "c" (number->string i)))',
           '(string->symbol (string-append "f" (number->string i)))'),
    "str": (['"key"', '(let ((s (string-copy "k\\x20ac;y"))) (string-set! s 1 #\\e) s)', '"KEY"',
             "(utf8->string (bytevector 1 2 75 69 89 3) 2 5)"],
            '(string-append "c" (number->string i))', '(string-append "f" (number->string i))'),
}

KEY_NOTES = {
    "genv": "K0=2^70 literal, K1=2^70 computed through 2^200 (spare bignum words), K2=1.5 literal, K3=(/ 3. 2), "
            "K4/K5 = two symbols sharing a bucket",
    "gen": "K0=2^70 literal, K1=2^70 computed through 2^200 (spare bignum words), K2=\"key\" literal, K3=\"key\" by "
           "width-changing string-set!, K4/K5 = two symbols sharing a bucket",
    "eq": "K0,K1 = two (list 1 2), K2/K3 = two \"key\" strings, K4/K5 = two symbols sharing a bucket of hash-by-identity",
    "str": "K0=\"key\" literal, K1=\"key\" by width-changing string-set!, K2=\"KEY\" literal, K3=\"KEY\" by utf8->string "
           "with offset, K4/K5 two strings sharing a bucket",
}

# ---- alphabets: name -> (scheme body, per-key?, mutator?).  `(k j)` is the key, T the current table.
# token printers: (p x) writes a value, (u) prints "_" (unspecified result), pe/ue = same but "E" on a raised error.
OPS69 = [
    ("set", "(hash-table-set! T (k j) (+ j 1)) (u)", True, True),
    ("ref", "(p (hash-table-ref T (k j) (lambda () 'nf)))", True, False),
    ("refx", "(pe (hash-table-ref T (k j)))", True, False),
    ("refd", "(p (hash-table-ref/default T (k j) 'd))", True, False),
    ("has", "(p (hash-table-exists? T (k j)))", True, False),
    ("del", "(hash-table-delete! T (k j)) (u)", True, True),
    ("upd", "(hash-table-update! T (k j) f+ (lambda () 0)) (u)", True, True),
    ("updx", "(ue (hash-table-update! T (k j) f+))", True, True),
    ("updd", "(hash-table-update!/default T (k j) f+ 0) (u)", True, True),
    ("updz", "(hash-table-update! T (k 4) f+ (lambda () (hash-table-size T))) (u)", False, True),
    ("size", "(p (hash-table-size T))", False, False),
    ("copy", "(set! OLDS (cons T OLDS)) (set! T (hash-table-copy T)) (u)", False, True),
    ("merge", "(set! T (hash-table-merge! T (other))) (u)", False, True),
    ("alist", "(pe* (dump-alist (hash-table->alist T)))", False, False),
    ("fold", "(pe (hash-table-fold T (lambda (k v a) (+ v a)) 0))", False, False),
    ("walk", "(pe* (let ((al '())) (hash-table-walk T (lambda (k v) (set! al (cons (cons k v) al)))) (dump-alist al)))", False, False),
    ("keys", "(pe* (dump-alist (map (lambda (x) (cons x (hash-table-ref/default T x 'gone))) (hash-table-keys T))))", False, False),
    ("vals", "(pe (apply + (hash-table-values T)))", False, False),
]

OPS125 = [
    ("set", "(hash-table-set! T (k j) (+ j 1)) (u)", True, True),
    ("set2", "(hash-table-set! T (k 0) 1 (k 1) 2) (u)", False, True),
    ("ref", "(p (hash-table-ref T (k j) (lambda () 'nf)))", True, False),
    ("refs", "(p (hash-table-ref T (k j) (lambda () 'nf) (lambda (v) (+ v 1))))", True, False),
    ("refx", "(pe (hash-table-ref T (k j)))", True, False),
    ("refd", "(p (hash-table-ref/default T (k j) 'd))", True, False),
    ("has", "(p (hash-table-contains? T (k j)))", True, False),
    ("delc", "(p (hash-table-delete! T (k j)))", True, True),
    ("del2", "(p (hash-table-delete! T (k 0) (k 2)))", False, True),
    ("intern", "(p (hash-table-intern! T (k j) (lambda () 5)))", True, True),
    ("upd", "(hash-table-update! T (k j) f+ (lambda () 0)) (u)", True, True),
    ("upds", "(hash-table-update! T (k j) f+ (lambda () 0) (lambda (v) v)) (u)", True, True),
    ("updx", "(ue (hash-table-update! T (k j) f+))", True, True),
    ("updd", "(hash-table-update!/default T (k j) f+ 0) (u)", True, True),
    ("updz", "(hash-table-update! T (k 4) f+ (lambda () (hash-table-size T))) (u)", False, True),
    ("size", "(p (hash-table-size T))", False, False),
    ("empty", "(p (hash-table-empty? T))", False, False),
    ("copy", "(set! OLDS (cons T OLDS)) (set! T (hash-table-copy T #t)) (u)", False, True),
    ("union", "(set! T (hash-table-union! T (other))) (u)", False, True),
    ("merge", "(set! T (hash-table-merge! T (other))) (u)", False, True),
    ("inter", "(set! T (hash-table-intersection! T (other))) (u)", False, True),
    ("diff", "(set! T (hash-table-difference! T (other))) (u)", False, True),
    ("xor", "(set! T (hash-table-xor! T (other))) (u)", False, True),
    ("clear", "(hash-table-clear! T) (u)", False, True),
    ("mapx", "(hash-table-map! (lambda (k v) (if (< v 1000) (+ v 100) v)) T) (u)", False, True),
    ("prune", "(hash-table-prune! (lambda (k v) (and (< v 1000) (odd? v))) T) (u)", False, True),
    ("count", "(pe (hash-table-count (lambda (k v) (< v 1000)) T))", False, False),
    ("find", "(pe (hash-table-find (lambda (k v) (and (< v 1000) (>= v 10) 'found)) T (lambda () 'none)))", False, False),
    ("alist", "(pe* (dump-alist (hash-table->alist T)))", False, False),
    ("fold125", "(pe (hash-table-fold (lambda (k v a) (+ v a)) 0 T))", False, False),
    ("fold125old", "(pe (hash-table-fold T (lambda (k v a) (+ v a)) 0))", False, False),
    ("walk", "(pe* (let ((al '())) (hash-table-walk T (lambda (k v) (set! al (cons (cons k v) al)))) (dump-alist al)))", False, False),
    ("foreach", "(pe* (let ((al '())) (hash-table-for-each (lambda (k v) (set! al (cons (cons k v) al))) T) (dump-alist al)))", False, False),
    ("maplist", "(pe* (dump-alist (hash-table-map->list cons T)))", False, False),
    ("keys", "(pe* (dump-alist (map (lambda (x) (cons x (hash-table-ref/default T x 'gone))) (hash-table-keys T))))", False, False),
    ("vals", "(pe (apply + (hash-table-values T)))", False, False),
    ("entries", "(pe* (call-with-values (lambda () (hash-table-entries T)) (lambda (ks vs) (write (length ks)) (write-char #\\/) (write (length vs)) (write-char #\\space))))", False, False),
    ("copyi", "(pe* (let ((c (hash-table-copy T))) (if (hash-table-mutable? c) (write-string \"mutable!\")) (dump-alist (hash-table->alist c))))", False, False),
    ("eqcopy", "(pe (hash-table=? (make-equal-comparator) T (hash-table-copy T #t)))", False, False),
    ("eqother", "(pe (hash-table=? (make-equal-comparator) T (other)))", False, False),
    ("ecopy", "(pe* (let ((e (hash-table-empty-copy T))) (write (hash-table-size e)) (write-char #\\,) (hash-table-set! e (k 0) 1) (write (hash-table-ref/default e (k 1) 'd)) (write-char #\\space)))", False, False),
]

ALPHABET = {"69": OPS69, "125": OPS125}
OPNAME_SCHEME = {  # for reports: model op -> the procedure exercised
    "set": "hash-table-set!", "set2": "hash-table-set! (2 pairs)", "ref": "hash-table-ref (thunk)", "refs": "hash-table-ref (failure, success)",
    "refx": "hash-table-ref (no thunk)", "refd": "hash-table-ref/default", "has": "hash-table-exists?/contains?",
    "del": "hash-table-delete!", "delc": "hash-table-delete! (count result)", "del2": "hash-table-delete! (2 keys)",
    "intern": "hash-table-intern!", "upd": "hash-table-update! (thunk)", "upds": "hash-table-update! (failure, success)",
    "updx": "hash-table-update! (no thunk)", "updd": "hash-table-update!/default", "updz": "hash-table-update! (thunk reads size)",
    "size": "hash-table-size", "empty": "hash-table-empty?", "copy": "hash-table-copy", "union": "hash-table-union!",
    "merge": "hash-table-merge!", "inter": "hash-table-intersection!", "diff": "hash-table-difference!", "xor": "hash-table-xor!",
    "clear": "hash-table-clear!", "mapx": "hash-table-map!", "prune": "hash-table-prune!", "count": "hash-table-count",
    "find": "hash-table-find", "alist": "hash-table->alist", "fold": "hash-table-fold", "fold125": "hash-table-fold (proc seed ht)",
    "fold125old": "hash-table-fold (ht proc seed)", "walk": "hash-table-walk", "foreach": "hash-table-for-each",
    "maplist": "hash-table-map->list", "keys": "hash-table-keys", "vals": "hash-table-values", "entries": "hash-table-entries",
    "copyi": "hash-table-copy (immutable)", "eqcopy": "hash-table=? copy", "eqother": "hash-table=? other", "ecopy": "hash-table-empty-copy",
    "dump": "contents (hash-table->alist after the history)", "olds": "contents of the original after hash-table-copy",
}


def op_codes(api):
    """-> (codes: list of (code, opname, j), mutators, reads)"""
    ops = ALPHABET[api]
    allc = []
    for idx, (name, body, perkey, mut) in enumerate(ops):
        for j in (range(6) if perkey else (0,)):
            allc.append((idx * 8 + j, name, j, mut))
    muts = [c for c in allc if c[3]]
    reads = [c for c in allc if not c[3]]
    return allc, muts, reads


def table_prelude(api, eqname, nfill, raw=False):
    kset, cls, mk69, mk125, hashfn = EQUIVS[eqname]
    kexprs, cand, filler = KEYSETS[kset]
    ops = ALPHABET[api]
    imports = "(import (scheme base) (scheme write) (scheme char) (srfi 69))" if api == "69" else \
        "(import (scheme base) (scheme write) (scheme char) (srfi 125) (srfi 128))"
    mk = mk69 if api == "69" else mk125
    opl = "\n".join("  (lambda (j) %s) ; %d %s" % (body, i, name) for i, (name, body, _, _) in enumerate(ops))
    return imports + r"""
(define write write-simple)
(define (p x) (write x) (write-char #\space))
(define (u) (write-string "_ "))
(define-syntax pe (syntax-rules () ((_ e) (guard (x (#t (write-string "E "))) (p e)))))
(define-syntax pe* (syntax-rules () ((_ e) (guard (x (#t (write-string "E "))) e))))
(define-syntax ue (syntax-rules () ((_ e) (guard (x (#t (write-string "E "))) e (u)))))
(define (f+ x) (+ x 10))
(define NFILL %(nfill)d)
(define SHASH (if %(raw)s string-hash (lambda (s . o) (if (pair? o) (string-hash s (car o)) (string-hash s)))))
(define SCIHASH (if %(raw)s string-ci-hash (lambda (s . o) (if (pair? o) (string-ci-hash s (car o)) (string-ci-hash s)))))
(define (MK) %(mk)s)
(define F (let ((v (make-vector NFILL #f))) (do ((i 0 (+ i 1))) ((= i NFILL) v) (vector-set! v i %(filler)s))))
(define K (vector %(k0)s %(k1)s %(k2)s %(k3)s #f #f))
(define CLS '#(%(cls)s))
;; two keys that share a bucket: search the candidates for a pair whose hashes agree modulo the largest
;; bucket count possible (the bucket counts are 23*2^n)
(define NC 400)
(define C (let ((v (make-vector NC #f))) (do ((i 0 (+ i 1))) ((= i NC) v) (vector-set! v i %(cand)s))))
(define H (let ((v (make-vector NC #f))) (do ((i 0 (+ i 1))) ((= i NC) v) (vector-set! v i (%(hashfn)s (vector-ref C i) 11776)))))
(define COLLIDE-MOD
  (let try ((m 11776))
    (if (< m 23)
        0
        (let ((hit (let lpi ((i 0))
                     (and (< i NC)
                          (or (let lpj ((j (+ i 1)))
                                (and (< j NC)
                                     (if (= (modulo (vector-ref H i) m) (modulo (vector-ref H j) m)) (cons i j) (lpj (+ j 1)))))
                              (lpi (+ i 1)))))))
          (if hit
              (begin (vector-set! K 4 (vector-ref C (car hit))) (vector-set! K 5 (vector-ref C (cdr hit))) m)
              (try (quotient m 2)))))))
(write-string ";;COLLIDE ") (write COLLIDE-MOD)
(write-string " ") (write (list (%(hashfn)s (vector-ref K 4) 23) (%(hashfn)s (vector-ref K 5) 23) (%(hashfn)s (vector-ref K 4) 46) (%(hashfn)s (vector-ref K 5) 46)))
(newline)
(define (k j) (vector-ref K j))
(define (kindex key) (let lp ((j 0)) (cond ((= j 6) #f) ((eq? key (vector-ref K j)) j) (else (lp (+ j 1))))))
(define T #f)
(define OLDS '())
(define (other) (let ((o (MK))) (hash-table-set! o (k 1) 7) (hash-table-set! o (k 5) 8) o))
(define (insert-sorted v ls) (cond ((null? ls) (list v)) ((and (number? v) (number? (car ls)) (> v (car ls))) (cons (car ls) (insert-sorted v (cdr ls)))) (else (cons v ls))))
(define d-slots (make-vector 6 '()))
(define d-fc 0) (define d-fs 0) (define d-bad '())
(define (dump-start) (vector-fill! d-slots '()) (set! d-fc 0) (set! d-fs 0) (set! d-bad '()))
(define (dump-entry key v)
  (cond ((and (exact-integer? v) (>= v 1000) (< v (+ 1000 NFILL)) (eqv? key (vector-ref F (- v 1000))))
         (set! d-fc (+ d-fc 1)) (set! d-fs (+ d-fs v)))
        ((kindex key) => (lambda (j) (let ((c (vector-ref CLS j))) (vector-set! d-slots c (insert-sorted v (vector-ref d-slots c))))))
        (else (set! d-bad (cons (cons key v) d-bad)))))
(define (dump-finish)
  (do ((c 0 (+ c 1))) ((= c 6))
    (for-each (lambda (v) (write c) (write-char #\:) (write v) (write-char #\;)) (vector-ref d-slots c)))
  (write-char #\F) (write d-fc) (write-char #\:) (write d-fs)
  (if (pair? d-bad) (begin (write-char #\?) (write d-bad)))
  (write-char #\space))
(define (dump-alist al)
  (dump-start) (for-each (lambda (e) (dump-entry (car e) (cdr e))) al) (dump-finish))
(define (dump-table t)
  (dump-start) (hash-table-walk t dump-entry) (dump-finish))
;; medium check: every filler is looked up (count and sum of those found with their value); no bucket walk
(define (medium-check t)
  (let lp ((i 0) (n 0) (s 0))
    (if (< i NFILL)
        (let ((v (hash-table-ref/default t (vector-ref F i) 'gone)))
          (if (eqv? v (+ 1000 i)) (lp (+ i 1) (+ n 1) (+ s v)) (lp (+ i 1) n s)))
        (begin (write-char #\M) (write n) (write-char #\:) (write s) (write-char #\space)))))
;; light check used on large tables when the operation cannot have touched the fillers: three filler probes
(define (light-check t)
  (write-char #\L)
  (if (> NFILL 0)
      (for-each (lambda (i) (write (hash-table-ref/default t (vector-ref F i) 'gone)) (write-char #\,))
                (list 0 (quotient NFILL 2) (- NFILL 1))))
  (write-char #\space))
(define OPS (vector
%(ops)s
))
(define (do-op code) ((vector-ref OPS (quotient code 8)) (remainder code 8)))
(define (run-one r)
  ;; r = #(rotation dump-mode mutator-code-or--1 prefix-code ...)
  (set! T (MK)) (set! OLDS '())
  (do ((i 0 (+ i 1))) ((= i NFILL)) (hash-table-set! T (vector-ref F i) (+ 1000 i)))
  (do ((i 3 (+ i 1))) ((= i (vector-length r))) (do-op (vector-ref r i)))
  (write-string "| ")
  (if (>= (vector-ref r 2) 0) (do-op (vector-ref r 2)))
  (write-string "| ")
  (let* ((rd (if (>= (vector-ref r 2) 0) LIGHT-READS READS)) (n (vector-length rd)) (rot (vector-ref r 0)))
    (do ((i 0 (+ i 1))) ((= i n)) (do-op (vector-ref rd (modulo (+ i rot) n)))))
  (write-string "| ")
  (case (vector-ref r 1)
    ((1) (pe* (dump-table T))
         (for-each (lambda (o) (write-char #\/) (pe* (dump-table o))) (reverse OLDS)))
    ((2) (pe* (medium-check T))
         (for-each (lambda (o) (write-char #\/) (pe* (medium-check o))) (reverse OLDS)))
    (else (pe* (light-check T)))))
(define (run-all runs)
  (do ((i 0 (+ i 1))) ((= i (vector-length runs)))
    (guard (x (#t (write-string "!X ") (write (condition/report-string x))))
      (run-one (vector-ref runs i)))
    (newline)))
""" % dict(nfill=nfill, mk=mk, filler=filler, k0=kexprs[0], k1=kexprs[1], k2=kexprs[2], k3=kexprs[3],
           cls=" ".join(map(str, cls)), cand=cand, hashfn=hashfn, ops=opl, raw="#t" if raw else "#f")


def condition_import_fix(txt):
    # condition/report-string lives in (chibi); keep the driver portable: fall back to a constant
    return txt.replace("(write (condition/report-string x))", "(write (if (error-object? x) (error-object-message x) x))")


TERMINAL_MUTATORS = {"updz"}
WHOLE_MUTATORS = {"copy", "merge", "union", "inter", "diff", "xor", "clear", "mapx", "prune"}
FULL_DUMP_N0 = 31          # tables up to this pre-fill are dumped completely (bucket walk) after every run
FULL_DUMP_DEPTH = 2        # larger tables: bucket walk after runs whose prefix is shorter than this, and in every
                           # run without mutator (once per expanded state); otherwise per-filler lookups / probes
LIGHT_READ_OP = "ref"      # per-key read executed after every mutator (lookup path), besides size


def explore(api, eqname, n0, maxlen):
    """Breadth-first exploration of the model.  -> (runs, stats)
    A run = (prefix reaching state S, mutator or None, full-dump flag); S ranges over every distinct state at
    depth < maxlen.  The run without mutator executes every read-only operation of the alphabet from S (self loops).
    """
    cls = EQUIVS[eqname][1]
    allc, muts, reads = op_codes(api)
    init = maps.Table(cls, n0)
    b0 = init.buckets
    seen = {init.key(): 0}
    frontier = [((), init)]
    runs = []
    transitions = 0
    states_by_depth = [1]
    for depth in range(maxlen):
        nxt = []
        for prefix, st in frontier:
            runs.append((prefix, None, 1))
            transitions += len(reads)
            for m in muts:
                t = st.clone()
                t.apply(m[1], m[2])
                transitions += 1
                touched = (m[1] in WHOLE_MUTATORS or t.buckets != b0 or t.olds or t.fill != n0)
                if n0 <= FULL_DUMP_N0 or (touched and depth < FULL_DUMP_DEPTH):
                    full = 1          # walk the whole table
                elif touched:
                    full = 2          # look up every filler (no bucket walk)
                else:
                    full = 0          # three filler probes
                runs.append((prefix, m, full))
                k = t.key()
                if m[1] in TERMINAL_MUTATORS:
                    continue              # explored as a transition, not extended
                if k not in seen:
                    seen[k] = depth + 1
                    nxt.append((prefix + (m,), t))
        frontier = nxt
        states_by_depth.append(len(nxt))
    return runs, dict(states=len(seen), transitions=transitions, states_by_depth=states_by_depth,
                      expanded=sum(states_by_depth[:-1]))


def light_reads(api):
    allc, muts, reads = op_codes(api)
    return [c for c in reads if c[1] == LIGHT_READ_OP or c[1] == "size"]


def expected_line(api, eqname, n0, prefix, m, rot, full, reads_block):
    """-> (tokens, labels); prefix/m/reads_block entries are (code, opname, j, ...)"""
    cls = EQUIVS[eqname][1]
    t = maps.Table(cls, n0)
    toks = []
    labels = []
    for c in prefix:
        toks.append(t.apply(c[1], c[2]))
        labels.append((c[1], c[2]))
    toks.append("|")
    labels.append(None)
    if m is not None:
        toks.append(t.apply(m[1], m[2]))
        labels.append((m[1], m[2]))
    toks.append("|")
    labels.append(None)
    n = len(reads_block)
    for i in range(n):
        c = reads_block[(i + rot) % n]
        toks.append(t.apply(c[1], c[2]))
        labels.append((c[1], c[2]))
    toks.append("|")
    labels.append(None)
    if full == 1:
        toks.append(t.dump())
        labels.append(("dump", 0))
        for dd, ff in t.olds:
            toks.append("/" + t.dump(dd, ff))
            labels.append(("olds", 0))
    elif full == 2:
        toks.append("M%d:%d" % (t.fill, t.fill_sum()))
        labels.append(("fillers", 0))
        for dd, ff in t.olds:
            toks.append("/M%d:%d" % (ff, sum(range(1000, 1000 + ff))))
            labels.append(("olds", 0))
    else:
        pr = [0, t.fill // 2, t.fill - 1] if t.fill > 0 else []
        toks.append("L" + "".join("%d," % (1000 + i) for i in pr))
        labels.append(("fillers", 0))
    return toks, labels


def runs_text(api, eqname, n0, items, raw=False):
    """driver text for a list of (index, prefix, m, full, rot)"""
    allc, muts, reads = op_codes(api)
    pre = condition_import_fix(table_prelude(api, eqname, n0, raw))
    out = [pre, "(define READS '#(%s))" % " ".join(str(c[0]) for c in reads),
           "(define LIGHT-READS '#(%s))" % " ".join(str(c[0]) for c in light_reads(api)), "(run-all '#("]
    for i, prefix, m, full, rot in items:
        out.append("#(%d %d %d %s)" % (rot, full, m[0] if m else -1, " ".join(str(c[0]) for c in prefix)))
    out.append("))")
    return "\n".join(out)


def parse_table_output(out):
    lines, collide, extra = [], None, []
    for l in out.split("\n"):
        if l.startswith(";;COLLIDE"):
            collide = l[10:]
            continue
        if l.startswith(";;STATS"):
            break
        if l.startswith(";;EXC") or "AddressSanitizer" in l or l.startswith("evalbatch:"):
            extra.append(l)
            continue
        lines.append(l)
    while lines and lines[-1] == "":
        lines.pop()
    return lines, collide, extra


def table_env(variant, poison):
    env = {}
    if poison:
        env["VERIF_POISON"] = "1"
    if variant == "asan":
        # the shared libraries each carry a copy of the static tables of sexp-hufftabs.h: not an ODR problem of interest
        env["ASAN_OPTIONS"] = build.env_for(variant)["ASAN_OPTIONS"] + ":detect_odr_violation=0"
    return env


def table_job(arg):
    """One process: (variant, api, eqname, n0, maxlen, nchunks, chunk, poison[, raw]) -> result dict"""
    variant, api, eqname, n0, maxlen, nchunks, chunk, poison = arg[:8]
    raw = len(arg) > 8 and arg[8]
    t0 = time.time()
    runs, stats = explore(api, eqname, n0, maxlen)
    allc, muts, reads = op_codes(api)
    lreads = light_reads(api)
    items = []
    for i, (prefix, m, full) in enumerate(runs):
        if i % nchunks == chunk:
            items.append((i, prefix, m, full, i % (len(reads) if m is None else len(lreads))))
    d = common.scratch_dir("c15t")
    path = os.path.join(d, "runs.scm")
    common.write_file(path, runs_text(api, eqname, n0, items, raw))
    import resource
    ru0 = resource.getrusage(resource.RUSAGE_CHILDREN)
    res = common.evalbatch(variant, [path], timeout=3000, cwd=d, env=table_env(variant, poison))
    lines, collide, extra = parse_table_output(res.out)
    retried = False
    if len(lines) != len(items) or res.rc != 0 or extra:
        # run the batch once more before believing it (other work on this machine rebuilds build/<variant> now and then)
        retried = True
        first_tail = res.out[-600:]
        res = common.evalbatch(variant, [path], timeout=3000, cwd=d, env=table_env(variant, poison))
        lines, collide, extra = parse_table_output(res.out)
    ru1 = resource.getrusage(resource.RUSAGE_CHILDREN)
    cpu = (ru1.ru_utime - ru0.ru_utime) + (ru1.ru_stime - ru0.ru_stime)
    mism = []
    outcomes = {}
    n = min(len(lines), len(items))
    ntok = 0
    for li in range(n):
        i, prefix, m, full, rot = items[li]
        blk = reads if m is None else lreads
        toks, labels = expected_line(api, eqname, n0, prefix, m, rot, full, blk)
        want = " ".join(toks)
        got = lines[li].rstrip()
        ntok += len(toks) - 3
        key = (m[1] + ":" + toks[len(prefix) + 1]) if m is not None else "reads"
        outcomes[key] = outcomes.get(key, 0) + 1
        if got == want:
            continue
        gt = got.split(" ")
        bad = []
        if len(gt) != len(toks):
            bad.append((("shape", 0), got[-160:], want[-160:]))
        else:
            for a, b, lab in zip(gt, toks, labels):
                if a != b:
                    bad.append((lab or ("shape", 0), a, b))
        pl = [(c[1], c[2]) for c in prefix]
        ml = (m[1], m[2]) if m else None
        for lab, a, b in bad[:8]:
            mism.append((i, pl, ml, lab, a, b, rot, full))
    crash = None
    cm = (collide or "0").split(" ")[0]
    if not cm.isdigit() or int(cm) < 46:
        extra.append("harness: no pair of keys sharing a bucket at 23 and 46 buckets was found (%r)" % collide)
    if len(lines) != len(items) or res.rc != 0 or extra:
        at = items[n] if n < len(items) else None
        crash = dict(rc=res.rc, got=len(lines), want=len(items), asan=res.asan(), tail=res.out[-1800:], extra=extra[:5],
                     timed_out=res.timed_out,
                     at=([(c[1], c[2]) for c in at[1]], (at[2][1], at[2][2]) if at[2] else None, at[4], at[3]) if at else None)
    shutil.rmtree(d, ignore_errors=True)
    sample = None
    if items:
        i, prefix, m, full, rot = items[len(items) // 2]
        sample = "%s table, SRFI %s, %d pre-filled: %s" % (eqname, api, n0, " ; ".join(
            "%s K%d" % (OPNAME_SCHEME.get(c[1], c[1]), c[2]) for c in list(prefix) + ([m] if m else [])) or "(reads only)")
    return dict(api=api, eq=eqname, n0=n0, chunk=chunk, runs=len(items), executed=n, tokens=ntok, mism=mism, sample=sample, raw=raw,
                nmism=len(mism), outcomes=outcomes, crash=crash, stats=stats, collide=collide,
                wall=time.time() - t0, variant=variant, cpu=cpu, retried=retried)


KEYS_OF_OP = {"set2": (0, 1), "del2": (0, 2), "updz": (4,), "merge": (1, 5), "union": (1, 5), "inter": (1, 5), "diff": (1, 5),
              "xor": (1, 5), "eqother": (1, 5), "ecopy": (0, 1)}
PER_KEY = {name for ops in ALPHABET.values() for (name, _, perkey, _) in ops if perkey}


def opstr(op):
    name, j = op
    return "%s K%d" % (name, j) if name in PER_KEY else name


def keys_touched(op):
    if op is None:
        return ()
    name, j = op
    if name in PER_KEY:
        return (j,)
    return KEYS_OF_OP.get(name, ())


def attribute(api, eqname, n0, prefix, m, label, got, want):
    """Heuristic root-cause tag for one mismatching token (used only to group reports)."""
    cls = EQUIVS[eqname][1]
    kset = EQUIVS[eqname][0]
    hist = list(prefix) + ([m] if m else [])
    if label[0] in ("delc", "del2") and got == "#<undef>":
        return "srfi125-delete!-returns-no-count"
    if "not-found" in got:
        return "update!-without-thunk-leaves-sentinel-entry"
    keyless = label[0] not in PER_KEY
    # replay the model to see which updx failed / which updz hit an absent key
    t = maps.Table(cls, n0)
    updx_classes, updz_absent = set(), False
    for name, j in hist:
        if name == "updx" and cls[j] not in t.d:
            updx_classes.add(cls[j])
        if name == "updz" and cls[4] not in t.d:
            updz_absent = True
        t.apply(name, j)
    lab_classes = {cls[j] for j in keys_touched(label)}
    if updx_classes and (keyless or (lab_classes & updx_classes)):
        return "update!-without-thunk-leaves-sentinel-entry"
    if updz_absent and (keyless or cls[4] in lab_classes):
        return "update!-thunk-runs-after-cell-insertion"
    if kset in ("gen", "genv") and eqname in ("eqv?", "equal?"):
        touched = set()
        for o in hist + [label]:
            touched.update(j for j in keys_touched(o) if j in (0, 1))
        if len(touched) == 2 and (keyless or 0 in lab_classes):
            return "equal-bignums-hash-differently"
    return "unexplained"


def replay_program(api, eqname, n0, prefix, m, rot, full, raw=False):
    """prefix: [(opname, j)], m: (opname, j) or None"""
    allc, muts, reads = op_codes(api)
    code = {(c[1], c[2]): c for c in allc}
    pc = [code[a] for a in prefix]
    mc = code[m] if m else None
    blk = reads if m is None else light_reads(api)
    toks, labels = expected_line(api, eqname, n0, pc, mc, rot, full, blk)
    hist = " ; ".join("%s K%d" % (OPNAME_SCHEME.get(a, a), b) for a, b in list(prefix) + ([m] if m else []))
    n = len(blk)
    order = [blk[(i + rot) % n] for i in range(n)]
    return (";; C15(b) %s table, SRFI %s names, pre-filled with %d entries; history: %s\n" % (eqname, api, n0, hist or "(none)")
            + ";; keys: %s\n" % KEY_NOTES[EQUIVS[eqname][0]]
            + runs_text(api, eqname, n0, [(0, pc, mc, full, rot)], raw)
            + "\n;; expected: %s\n" % " ".join(toks)
            + ";; tokens: results of the history ops | result of the last op | reads: %s | contents as class:value; F<fillers>:<sum>\n"
            % " ".join("%s.K%d" % (c[1], c[2]) for c in order))


# =====================================================================================================
# (a) coherence of equal? / eqv? / hash over (abstract value, route) instances
# =====================================================================================================

NIL = ("nil",)


def I(n): return ("i", n)
def Q(fr): return ("q", fr.numerator, fr.denominator) if fr.denominator != 1 else ("i", fr.numerator)
def FL(x): return ("f", "nan" if x != x else float(x).hex())
def S(s): return ("s", s)
def Y(s): return ("y", s)
def CH(cp): return ("ch", cp)
def V(*xs): return ("v", tuple(xs))
def BV(*bs): return ("bv", bytes(bs))
def CX(re_, im_): return ("c", re_, im_)


def L(*xs, tail=NIL):
    r = tail
    for x in reversed(xs):
        r = ("p", x, r)
    return r


def has_nan(v):
    if v[0] == "f":
        return v[1] == "nan"
    if v[0] in ("p", "c"):
        return has_nan(v[1]) or has_nan(v[2])
    if v[0] == "v":
        return any(has_nan(x) for x in v[1])
    if v[0] == "r":
        return any(has_nan(x) for x in v[2])
    return False


def flo_text(hexrepr):
    if hexrepr == "nan":
        return "+nan.0"
    x = float.fromhex(hexrepr)
    if x == math.inf:
        return "+inf.0"
    if x == -math.inf:
        return "-inf.0"
    return repr(x)


def str_text(s):
    out = []
    for ch in s:
        o = ord(ch)
        if ch in '"\\':
            out.append("\\" + ch)
        elif 32 <= o < 127:
            out.append(ch)
        else:
            out.append("\\x%x;" % o)
    return '"' + "".join(out) + '"'


def sym_text(s):
    if s and all(c.isalnum() and ord(c) < 128 for c in s) and not s[0].isdigit():
        return s
    return "|" + "".join(c if (32 <= ord(c) < 127 and c not in "|\\") else "\\x%x;" % ord(c) for c in s) + "|"


def chr_text(cp):
    if 33 <= cp < 127:
        return "#\\" + chr(cp)
    return "#\\x%x" % cp


def datum(v):
    """external representation (ASCII only)"""
    k = v[0]
    if k == "i":
        return str(v[1])
    if k == "q":
        return "%d/%d" % (v[1], v[2])
    if k == "f":
        return flo_text(v[1])
    if k == "c":
        im = datum(v[2])
        if not im.startswith(("+", "-")):
            im = "+" + im
        return datum(v[1]) + im + "i"
    if k == "ch":
        return chr_text(v[1])
    if k == "s":
        return str_text(v[1])
    if k == "y":
        return sym_text(v[1])
    if k == "b":
        return "#t" if v[1] else "#f"
    if k == "nil":
        return "()"
    if k == "p":
        items = []
        while v[0] == "p":
            items.append(datum(v[1]))
            v = v[2]
        if v != NIL:
            items += [".", datum(v)]
        return "(" + " ".join(items) + ")"
    if k == "v":
        return "#(" + " ".join(datum(x) for x in v[1]) + ")"
    if k == "bv":
        return "#u8(" + " ".join(str(b) for b in v[1]) + ")"
    raise ValueError(v)


def self_evaluating(v):
    return v[0] in ("i", "q", "f", "c", "ch", "s", "b", "bv")


def lit(v):
    return datum(v) if self_evaluating(v) else "'" + datum(v)


def sstr(text):
    """Scheme string literal holding `text` (ASCII)"""
    return '"' + text.replace("\\", "\\\\").replace('"', '\\"') + '"'


def kind_of(v):
    k = v[0]
    if k == "i":
        return "fixnum" if -2 ** 62 <= v[1] < 2 ** 62 else "bignum"
    return {"q": "ratio", "f": "flonum", "c": "complex", "ch": "char", "s": "string", "y": "symbol", "b": "boolean",
            "nil": "null", "p": "pair", "v": "vector", "bv": "bytevector", "r": "record"}[k]


NUMERIC = ("i", "q", "f", "c")
ATOMIC = NUMERIC + ("ch", "y", "b", "nil")


def exact_double(fr):
    try:
        f = float(fr)
    except OverflowError:
        return False
    return Fraction(f) == fr


def utf8_width(ch):
    return len(ch.encode("utf-8"))


def detour(text):
    return "(- (expt 2 200) (- (expt 2 200) %s))" % text


def int_routes(n):
    t = str(n)
    r = [("literal", t, True),
         ("detour-2^200", detour(t), False),
         ("mul-div", "(quotient (* %s (expt 3 150)) (expt 3 150))" % t, False),
         ("string->number", "(string->number %s)" % sstr(t), False),
         ("string->number-16", "(string->number %s 16)" % sstr(("-" if n < 0 else "") + "%x" % abs(n)), False),
         ("reader", "(read (open-input-string %s))" % sstr(t), False),
         ("sub1-add1", "(+ (- %s 1) 1)" % t, False),
         ("negate-twice", "(- (- %s))" % t, False)]
    if exact_double(Fraction(n)):
        r.append(("exact-inexact", "(exact (inexact %s))" % t, False))
    return r


def ratio_routes(fr):
    t = "%d/%d" % (fr.numerator, fr.denominator)
    r = [("literal", t, True),
         ("divide", "(/ %d %d)" % (fr.numerator, fr.denominator), False),
         ("divide-unreduced", "(/ (* %d 6) (* %d 6))" % (fr.numerator, fr.denominator), False),
         ("divide-detour", "(/ %s %d)" % (detour(str(fr.numerator)), fr.denominator), False),
         ("string->number", "(string->number %s)" % sstr(t), False),
         ("reader", "(read (open-input-string %s))" % sstr(t), False)]
    if exact_double(fr):
        r.append(("exact-inexact", "(exact (inexact %s))" % t, False))
    return r


def flo_routes(x):
    v = FL(x)
    t = flo_text(v[1])
    r = [("literal", t, True), ("string->number", "(string->number %s)" % sstr(t), False),
         ("reader", "(read (open-input-string %s))" % sstr(t), False),
         ("times2-half", "(/ (* %s 2.0) 2.0)" % t, False)]
    if x == x and abs(x) != math.inf and not (x == 0 and math.copysign(1, x) < 0) and Fraction(x).denominator <= 2 ** 53:
        # (larger denominators: (inexact 1/2^1074) gives 0.0, a conversion matter outside this property)
        fr = Fraction(x)
        r.append(("inexact-of-exact", "(inexact %s)" % (str(fr.numerator) if fr.denominator == 1 else "%d/%d" % (fr.numerator, fr.denominator)), False))
    if x == 0 and math.copysign(1, x) < 0:
        r += [("negate-zero", "(- 0.0)", False), ("neg-times-zero", "(* -1.0 0.0)", False), ("neg-over-inf", "(/ -1.0 +inf.0)", False)]
    if x == 0 and math.copysign(1, x) > 0:
        r += [("one-over-inf", "(/ 1.0 +inf.0)", False), ("x-minus-x", "(- 1.5 1.5)", False)]
    if x != x:
        r += [("zero-over-zero", "(/ 0. 0.)", False), ("inf-minus-inf", "(- +inf.0 +inf.0)", False)]
    if x == math.inf:
        r += [("one-over-zero", "(/ 1.0 0.0)", False), ("overflow", "(* 1e200 1e200)", False)]
    return r


def complex_routes(re_, im_):
    v = CX(re_, im_)
    t = datum(v)
    return [("literal", t, True),
            ("make-rectangular", "(make-rectangular %s %s)" % (datum(re_), datum(im_)), False),
            ("string->number", "(string->number %s)" % sstr(t), False),
            ("reader", "(read (open-input-string %s))" % sstr(t), False),
            ("arith", "(+ %s (* %s (make-rectangular 0 1)))" % (datum(re_), datum(im_)), False)]


def char_routes(cp):
    t = chr_text(cp)
    r = [("literal", t, True), ("integer->char", "(integer->char %d)" % cp, False),
         ("string-ref", "(string-ref %s 1)" % str_text("x" + chr(cp) + "y"), False),
         ("string->list", "(cadr (string->list %s))" % str_text("λ" + chr(cp)), False),
         ("reader", "(read (open-input-string %s))" % sstr("#\\x%x" % cp), False)]
    if chr(cp).isalpha() and chr(cp).lower() != chr(cp).upper() and cp < 0x250:
        other = chr(cp).upper() if chr(cp).islower() else chr(cp).lower()
        fn = "char-downcase" if chr(cp).islower() else "char-upcase"
        r.append((fn, "(%s %s)" % (fn, chr_text(ord(other))), False))
    return r


SAME_WIDTH_OTHER = {1: "z", 2: "é", 3: "₭", 4: "\U0001f601"}
WIDER = {1: "€", 2: "\U0001f600", 3: "\U0001f600"}


def string_routes(s, fresh_only=False):
    t = str_text(s)
    n = len(s)
    r = [] if fresh_only else [("literal", t, True)]
    r += [("string-copy", "(string-copy %s)" % t, False),
          ("string-ctor", "(string %s)" % " ".join(chr_text(ord(c)) for c in s), False),
          ("list->string", "(list->string (list %s))" % " ".join(chr_text(ord(c)) for c in s), False),
          ("string-append", "(string-append %s %s)" % (str_text(s[:n // 2]), str_text(s[n // 2:])), False),
          ("substring", "(substring %s 2 %d)" % (str_text("λ€" + s + "zz"), 2 + n), False),
          ("string-copy-range", "(string-copy %s 1 %d)" % (str_text("\U0001f600" + s + "λ"), 1 + n), False),
          ("utf8->string-offset", "(utf8->string (bytevector 1 2 %s 3) 2 %d)" % (" ".join(str(b) for b in s.encode("utf-8")), 2 + len(s.encode("utf-8"))), False),
          ("utf8->string", "(utf8->string (bytevector %s))" % " ".join(str(b) for b in s.encode("utf-8")), False),
          # (chibi io): the string SHARES the bytevector's store at an offset (no copy)
          ("utf8->string!-shared", "(utf8->string! (bytevector 1 2 %s 3) 2 %d)" % (" ".join(str(b) for b in s.encode("utf-8")), 2 + len(s.encode("utf-8"))), False),
          ("output-port", "(let ((p (open-output-string))) (write-string %s p) (write-string %s p) (get-output-string p))" % (str_text(s[:n // 2]), str_text(s[n // 2:])), False),
          ("read-line", "(read-line (open-input-string %s))" % str_text(s + "\nrest"), False) if n else
          ("read-string-0", "(let ((x (read-string 0 (open-input-string \"abc\")))) (if (string? x) x \"\"))", False),
          ("reader", "(read (open-input-string %s))" % sstr(t), False),
          ("string-map", "(string-map (lambda (c) c) %s)" % t, False),
          ("make-string-copy!", "(let ((d (make-string %d #\\z))) (string-copy! d 0 %s) d)" % (n, t), False)]
    if n:
        r.append(("symbol->string", "(symbol->string (string->symbol %s))" % t, False))
        r.append(("string-fill-set", "(let ((d (make-string %d #\\space))) %s d)" % (
            n, " ".join("(string-set! d %d %s)" % (i, chr_text(ord(c))) for i, c in enumerate(s))), False))
        # string-set! without width change
        p = n // 2
        w = utf8_width(s[p])
        o = SAME_WIDTH_OTHER[w] if SAME_WIDTH_OTHER[w] != s[p] else {1: "y", 2: "è", 3: "₮", 4: "\U0001f602"}[w]
        r.append(("string-set!-same-width", "(let ((d (string-copy %s))) (string-set! d %d %s) d)" % (
            str_text(s[:p] + o + s[p + 1:]), p, chr_text(ord(s[p]))), False))
        # width changes: narrower char written over a wider one, wider over narrower
        if w < 4:
            r.append(("string-set!-shrink", "(let ((d (string-copy %s))) (string-set! d %d %s) d)" % (
                str_text(s[:p] + WIDER[w] + s[p + 1:]), p, chr_text(ord(s[p]))), False))
        if w > 1:
            r.append(("string-set!-grow", "(let ((d (string-copy %s))) (string-set! d %d %s) d)" % (
                str_text(s[:p] + "z" + s[p + 1:]), p, chr_text(ord(s[p]))), False))
    if s and s.upper() != s and s.upper().lower() == s and all(ord(c) < 128 for c in s):
        r.append(("string-downcase", "(string-downcase %s)" % str_text(s.upper()), False))
    if s and s.lower() != s and s.lower().upper() == s and all(ord(c) < 128 for c in s):
        r.append(("string-upcase", "(string-upcase %s)" % str_text(s.lower()), False))
    return r


def symbol_routes(s):
    t = sym_text(s)
    n = len(s)
    return [("literal", "'" + t, True), ("string->symbol", "(string->symbol %s)" % str_text(s), False),
            ("string->symbol-fresh", "(string->symbol (string-append %s %s))" % (str_text(s[:n // 2]), str_text(s[n // 2:])), False),
            ("reader", "(read (open-input-string %s))" % sstr(t), False),
            ("car-of-literal", "(car '(%s 1))" % t, False)]


def ctor(v, fresh):
    """expression building v from constructors; `fresh` selects non-literal routes for the atoms inside
    (bignums through the 2^200 detour, strings through a width-changing string-set! or utf8->string)"""
    k = v[0]
    if k == "p":
        return "(cons %s %s)" % (ctor(v[1], fresh), ctor(v[2], fresh))
    if k == "v":
        return "(vector %s)" % " ".join(ctor(x, fresh) for x in v[1])
    if k == "bv":
        return "(bytevector %s)" % " ".join(str(b) for b in v[1])
    if fresh:
        if k == "i" and kind_of(v) == "bignum":
            return detour(str(v[1]))
        if k == "s":
            rs = dict((a, b) for a, b, _ in string_routes(v[1], True))
            return rs.get("string-set!-grow") or rs.get("string-set!-shrink") or rs["utf8->string-offset"]
        if k == "q":
            return "(/ %s %d)" % (detour(str(v[1])), v[2])
        if k == "f" and v[1] != "nan":
            return "(/ (* %s 2.0) 2.0)" % flo_text(v[1])
    return lit(v)


def compound_routes(v):
    k = v[0]
    r = [("literal", lit(v), True), ("constructors", ctor(v, False), False),
         ("constructors-fresh-atoms", ctor(v, True), False),
         ("reader", "(read (open-input-string %s))" % sstr(datum(v)), False)]
    if k == "p":
        items = []
        w = v
        while w[0] == "p":
            items.append(w[1])
            w = w[2]
        proper = (w == NIL)
        if proper:
            h = len(items) // 2
            r.append(("list-copy", "(list-copy %s)" % lit(v), False))
            r.append(("append", "(append %s %s)" % (lit(L(*items[:h])), lit(L(*items[h:]))), False))
            r.append(("vector->list", "(vector->list %s)" % ctor(V(*items), True), False))
            r.append(("map", "(map (lambda (x) x) %s)" % lit(v), False))
            r.append(("reverse-reverse", "(reverse (reverse %s))" % lit(v), False))
        r.append(("set-car!-set-cdr!", "(let ((c (cons #f #f))) (set-car! c %s) (set-cdr! c %s) c)" % (ctor(v[1], True), ctor(v[2], False)), False))
    elif k == "v":
        items = list(v[1])
        n = len(items)
        h = n // 2
        r.append(("vector-copy", "(vector-copy %s)" % lit(v), False))
        r.append(("vector-append", "(vector-append %s %s)" % (lit(V(*items[:h])), lit(V(*items[h:]))), False))
        r.append(("list->vector", "(list->vector %s)" % ctor(L(*items), True), False))
        r.append(("vector-set!", "(let ((d (make-vector %d 0))) %s d)" % (n, " ".join(
            "(vector-set! d %d %s)" % (i, ctor(x, True)) for i, x in enumerate(items))), False))
        r.append(("vector-copy-range", "(vector-copy %s 1 %d)" % (lit(V(I(0), *items, I(0))), n + 1), False))
        r.append(("vector-map", "(vector-map (lambda (x) x) %s)" % lit(v), False))
    elif k == "bv":
        bs = list(v[1])
        n = len(bs)
        r.append(("bytevector-copy", "(bytevector-copy %s)" % lit(v), False))
        r.append(("bytevector-copy-range", "(bytevector-copy %s 1 %d)" % (lit(("bv", bytes([9] + bs + [9]))), n + 1), False))
        r.append(("bytevector-append", "(bytevector-append %s %s)" % (lit(("bv", bytes(bs[:n // 2]))), lit(("bv", bytes(bs[n // 2:])))), False))
        r.append(("bytevector-u8-set!", "(let ((d (make-bytevector %d 255))) %s d)" % (n, " ".join(
            "(bytevector-u8-set! d %d %d)" % (i, b) for i, b in enumerate(bs))), False))
        try:
            txt = bytes(bs).decode("utf-8")
            if txt and all(32 <= ord(c) for c in txt):
                r.append(("string->utf8", "(string->utf8 %s)" % str_text(txt), False))
        except UnicodeDecodeError:
            pass
    return r


RECORD_DEFS = """
(define-record-type Point (make-point x y) point? (x point-x) (y point-y set-point-y!))
(define-record-type Qoint (make-qoint x y) qoint? (x qoint-x) (y qoint-y))
"""


def record_instances():
    big = I(2 ** 70)
    out = []
    for typ, mk in (("Point", "make-point"), ("Qoint", "make-qoint")):
        for fields in ((I(1), I(2)), (I(1), I(3)), (big, S("aλc"))):
            v = ("r", typ, fields)
            out.append((v, "constructor", "(%s %s %s)" % (mk, lit(fields[0]), lit(fields[1]))))
            out.append((v, "constructor-again", "(%s %s %s)" % (mk, ctor(fields[0], True), ctor(fields[1], True))))
    out.append((("r", "Point", (I(1), I(2))), "field-set!", "(let ((r (make-point 1 0))) (set-point-y! r 2) r)"))
    return out


class Inst:
    __slots__ = ("idx", "val", "kind", "route", "expr", "literal", "nan")

    def __init__(self, val, route, expr, literal):
        self.val, self.route, self.expr, self.literal = val, route, expr, literal
        self.kind = kind_of(val)
        self.nan = has_nan(val)
        self.idx = None


def catalogue(tier):
    q = tier == "quick"
    insts = []

    def add(v, routes):
        for name, expr, isl in routes:
            insts.append(Inst(v, name, expr, isl))

    ints = [0, 1, -1, 2 ** 61, 2 ** 62 - 1, 2 ** 62, -2 ** 62, -2 ** 62 - 1, 2 ** 63, 2 ** 64 - 1, 2 ** 64, -2 ** 64,
            2 ** 128, 2 ** 128 + 1, -2 ** 128]
    if not q:
        ints += [42, 2 ** 61 - 1, 2 ** 61 + 1, -2 ** 61, 2 ** 62 + 1, 2 ** 63 - 1, -2 ** 63, 2 ** 63 + 1, -2 ** 64 - 1, 2 ** 64 + 1,
                 2 ** 128 - 1, -2 ** 128 - 1, -2 ** 128 + 1, 2 ** 192, 2 ** 127]
    for n in ints:
        add(I(n), int_routes(n))
    rats = [Fraction(1, 2), Fraction(-1, 2), Fraction(1, 3), Fraction(2 ** 64 + 1, 3), Fraction(3, 2 ** 70),
            Fraction(-(2 ** 128 + 1), 2 ** 64 - 1)]
    if not q:
        rats += [Fraction(-7, 3), Fraction(2 ** 70, 3), Fraction(2 ** 62, 3), Fraction(-(2 ** 62) - 1, 2), Fraction(1, 2 ** 64)]
    for fr in rats:
        add(Q(fr), ratio_routes(fr))
    flos = [0.0, -0.0, 1.0, -1.5, float(2 ** 62), float(2 ** 64), math.inf, -math.inf, math.nan]
    if not q:
        flos += [1.5, 1e300, -1.0, 0.5, float(2 ** 128), 5e-324]
    for x in flos:
        add(FL(x), flo_routes(x))
    cxs = [(I(1), I(2)), (FL(1.0), FL(2.0)), (Q(Fraction(1, 2)), I(-3))]
    if not q:
        cxs += [(I(0), I(1)), (FL(1.5), FL(-0.5)), (I(2 ** 64), I(1))]
    for re_, im_ in cxs:
        add(CX(re_, im_), complex_routes(re_, im_))
    chars = [0x61, 0x41, 0x3bb, 0x1f600]
    if not q:
        chars += [0x20, 0x20ac, 0x0, 0xe9, 0xc9, 0x7f]
    for cp in chars:
        add(CH(cp), char_routes(cp))
    strs = ["", "a", "abc", "abd", "ABC", "aλc", "a€c", "a\U0001f600c", "Été", "été"]
    if not q:
        strs += ["λ", "ab", "abcdefghijklmnopqrstuvwxyz0123456789", "aλd", "\U0001f600", "a c", "aλC", "Aλc"]
    for s in strs:
        add(S(s), string_routes(s))
    syms = ["abc", "ABC", "a b", "λ"]
    if not q:
        syms += ["abd", "", "x1"]
    for s in syms:
        add(Y(s), symbol_routes(s))
    for b in (True, False):
        add(("b", b), [("literal", "#t" if b else "#f", True), ("computed", "(eq? 1 1)" if b else "(eq? 1 2)", False)])
    add(NIL, [("literal", "'()", True), ("cdr", "(cdr (list 1))", False), ("reader", "(read (open-input-string \"()\"))", False)])
    big = I(2 ** 64)
    comps = [L(I(1), I(2)), L(I(1), tail=I(2)), L(I(1), L(I(2), S("ab")), V(I(3))), L(big, S("aλc"), FL(1.5)),
             L(big, S("aλc"), FL(-1.5)),
             V(), V(I(1), I(2)), V(I(1), V(I(2), S("ab")), L(I(3))), V(big, S("aλc"), FL(-0.0)), V(big, S("aλc"), FL(0.0)),
             BV(), BV(1, 2, 3), BV(1, 2, 4), L(BV(1, 2, 3), CH(0x61), Y("abc")), L(I(1), FL(2.0)), V(I(1), I(2), I(3)),
             L(I(1), I(2), I(3)), L(Q(Fraction(2 ** 70, 3)), I(-2 ** 62 - 1)), V(FL(math.nan), I(1)), BV(97, 98, 99)]
    if not q:
        comps += [L(L(I(1))), V(V()), L(NIL), V(NIL), L(S("")), V(L(I(1), I(2)), L(I(1), I(2))), L(V(I(1), I(2)), tail=V(I(1), I(2))),
                  L(I(2 ** 128), I(-2 ** 128)), V(CX(I(1), I(2)), CX(FL(1.0), FL(2.0))), BV(0), BV(255, 0, 128, 127),
                  L(S("a\U0001f600c"), S("abc")), V(Y("abc"), CH(0x3bb), ("b", True)), L(I(2 ** 62), I(2 ** 62 - 1))]
    for v in comps:
        add(v, compound_routes(v))
    for v, route, expr in record_instances():
        insts.append(Inst(v, route, expr, False))
    for i, x in enumerate(insts):
        x.idx = i
    return insts


def exp_equal(a, b):
    """True / False / None (R7RS leaves it open)"""
    if a.kind == "record" or b.kind == "record":
        if a.idx == b.idx:
            return None if a.nan else True
        if a.kind == b.kind:
            return None          # "in all other cases equal? may return either #t or #f"
        return False
    if a.val == b.val:
        return None if a.nan else True
    return False


EMPTY = {("s", ""), ("v", ()), ("bv", b"")}


def exp_eqv(a, b):
    if a.idx == b.idx:
        return None if a.nan else True
    if a.val[0] in ATOMIC or b.val[0] in ATOMIC:
        if a.val == b.val:
            return None if a.nan else True
        return False
    # strings, pairs, vectors, bytevectors, records: distinct locations
    if a.val != b.val:
        return False
    if a.val in EMPTY:
        return None
    if a.literal and b.literal:
        return None              # constants may be shared
    return False


COH_PRELUDE = """(import (scheme base) (scheme write) (scheme char) (scheme inexact) (scheme complex) (scheme read) (srfi 69)
        (only (chibi io) utf8->string!)
        (rename (only (chibi) equal?) (equal? native-equal?)))
""" + RECORD_DEFS + """
(define write write-simple)
(define (tf r) (cond ((eq? r #t) #\\t) ((eq? r #f) #\\f) (else #\\?)))
(define-syntax c (syntax-rules () ((_ e) (guard (x (#t #\\E)) (tf e)))))
(define-syntax put
  (syntax-rules ()
    ((_ i e) (guard (x (#t (vector-set! X i (list 'route-error i)) (display ";;ROUTE-ERROR ") (write i) (display " ")
                           (write (if (error-object? x) (error-object-message x) x)) (newline)))
               (vector-set! X i e)))))
"""


def coherence_text(insts, lo, hi, with_hash):
    n = len(insts)
    out = [COH_PRELUDE, "(define N %d)" % n, "(define X (make-vector N 'unset))"]
    for x in insts:
        out.append("(put %d %s)" % (x.idx, x.expr))
    out.append("""
(define (row pred i)
  (let ((a (vector-ref X i)))
    (do ((j 0 (+ j 1))) ((= j N)) (write-char (c (pred a (vector-ref X j)))))))
(define (ci? a b) (and (string? a) (string? b) (string-ci=? a b)))
(do ((i %d (+ i 1))) ((= i %d))
  (write i) (write-char #\\space)
  (row native-equal? i) (write-char #\\space)
  (row equal? i) (write-char #\\space)
  (row eqv? i) (write-char #\\space)
  (if (string? (vector-ref X i)) (row ci? i) (write-char #\\-))
  (newline))
""" % (lo, hi))
    if with_hash:
        out.append("""
(do ((i 0 (+ i 1))) ((= i N))
  (let ((x (vector-ref X i)))
    (display ";;H ") (write i) (write-char #\\space)
    (write (guard (e (#t 'E)) (hash x))) (write-char #\\space)
    (write (guard (e (#t 'E)) (hash x))) (write-char #\\space)
    (write (guard (e (#t 'E)) (hash x 23))) (write-char #\\space)
    (write (if (string? x) (guard (e (#t 'E)) (string-hash x)) '-)) (write-char #\\space)
    (write (if (string? x) (guard (e (#t 'E)) (string-ci-hash x)) '-))
    (newline)))
""")
    return "\n".join(out)


def coherence_job(arg):
    tier, lo, hi, with_hash = arg
    insts = catalogue(tier)
    d = common.scratch_dir("c15a")
    path = os.path.join(d, "coh.scm")
    common.write_file(path, coherence_text(insts, lo, hi, with_hash))
    res = common.evalbatch("opt", [path], timeout=1500, cwd=d)
    rows, hashes, route_errors, other = {}, {}, [], []
    for l in res.out.split("\n"):
        if l.startswith(";;H "):
            f = l.split(" ")
            hashes[int(f[1])] = f[2:]
        elif l.startswith(";;ROUTE-ERROR"):
            route_errors.append(l)
        elif l.startswith(";;STATS"):
            break
        elif l.startswith(";;EXC"):
            other.append(l)
        elif l and l[0].isdigit():
            f = l.split(" ")
            if len(f) == 5:
                rows[int(f[0])] = f[1:]
            else:
                other.append(l[:200])
        elif l.strip():
            other.append(l[:200])
    shutil.rmtree(d, ignore_errors=True)
    return dict(lo=lo, hi=hi, rows=rows, hashes=hashes, route_errors=route_errors, other=other, rc=res.rc,
                timed_out=res.timed_out, tail=res.out[-1200:] if (res.rc != 0 or res.timed_out) else "")


PRED_NAMES = ["equal?-native", "equal?-base", "eqv?"]


def contains_bignum(v):
    if v[0] == "i":
        return not (-2 ** 62 <= v[1] < 2 ** 62)
    if v[0] == "q":
        return contains_bignum(("i", v[1])) or contains_bignum(("i", v[2]))
    if v[0] in ("p", "c"):
        return contains_bignum(v[1]) or contains_bignum(v[2])
    if v[0] == "v":
        return any(contains_bignum(x) for x in v[1])
    if v[0] == "r":
        return any(contains_bignum(x) for x in v[2])
    return False


def analyse_coherence(chk, insts, rows, hashes, agg, complete=True):
    """rows: idx -> [native, base, eqv, ci]; agg(desc, what, replay) collects grouped violations"""
    n = len(insts)
    missing = [i for i in range(n) if i not in rows]
    if missing and complete:
        agg(dict(op="coherence-missing-rows", count=len(missing)), "no result rows for instances %s..." % missing[:5], None)
    exp_fns = [exp_equal, exp_equal, exp_eqv]

    def rp(a, b, pred, want, got):
        imp = COH_PRELUDE
        pn = {"equal?-native": "native-equal?", "equal?-base": "equal?", "eqv?": "eqv?"}.get(pred, pred)
        return (imp + "(define a %s)\n(define b %s)\n(write (list (%s a b) (%s b a)))\n(newline)\n"
                % (a.expr, b.expr, pn, pn)
                + ";; a = %s via %s, b = %s via %s\n;; expected %s, observed %s\n"
                % (datum_or_rec(a.val), a.route, datum_or_rec(b.val), b.route, want, got))

    for p, pname in enumerate(PRED_NAMES):
        fn = exp_fns[p]
        masks = {}
        for i in range(n):
            if i not in rows:
                continue
            row = rows[i][p]
            a = insts[i]
            m = 0
            for j in range(n):
                g = row[j]
                b = insts[j]
                e = fn(a, b)
                chk.evaluations += 1
                if g == "t":
                    m |= 1 << j
                if e is None:
                    chk.excluded["unspecified by R7RS (NaN, records, empty or literal constants)"] += 1
                    if g not in "tf":
                        agg(dict(op=pname, kind=a.kind, kind_b=b.kind, route_a=a.route, route_b=b.route, got=g, want="#t or #f"),
                            "(%s a b) raised/returned a non-boolean for a=%s [%s] b=%s [%s]" % (pname, datum_or_rec(a.val), a.route, datum_or_rec(b.val), b.route),
                            rp(a, b, pname, "#t or #f", g))
                    continue
                chk.outcomes["%s:%s" % (pname, "#t" if e else "#f")] += 1
                if a.kind not in ("fixnum", "boolean", "null") or a.route != "literal":
                    chk.nontrivial_n += 1
                w = "t" if e else "f"
                if g != w:
                    same_val = a.val == b.val
                    agg(dict(op=pname, kind=a.kind, kind_b=b.kind, route_a=a.route, route_b=b.route, got=g, want=w,
                             same_value=same_val),
                        "(%s a b) => %s, expected %s for a=%s [route %s] b=%s [route %s]" % (
                            pname, g, w, datum_or_rec(a.val), a.route, datum_or_rec(b.val), b.route),
                        rp(a, b, pname, w, g))
            masks[i] = m
        # symmetry, reflexivity, transitivity on what was observed (also on the unspecified cases)
        for i, m in masks.items():
            a = insts[i]
            if not a.nan and not (m >> i) & 1:
                agg(dict(op="reflexive:" + pname, kind=a.kind, route_a=a.route), "(%s x x) => #f for x=%s [%s]" % (pname, datum_or_rec(a.val), a.route),
                    rp(a, a, pname, "t", "f"))
            for j in masks:
                if j > i and ((m >> j) & 1) != ((masks[j] >> i) & 1):
                    b = insts[j]
                    agg(dict(op="symmetric:" + pname, kind=a.kind, kind_b=b.kind, route_a=a.route, route_b=b.route),
                        "(%s a b) and (%s b a) differ for a=%s [%s] b=%s [%s]" % (pname, pname, datum_or_rec(a.val), a.route, datum_or_rec(b.val), b.route),
                        rp(a, b, pname, "same both ways", "different"))
            chk.evaluations += 1
            mm = m
            j = 0
            while mm:
                if mm & 1 and j in masks and masks[j] != m and not a.nan and not insts[j].nan:
                    # i ~ j but their classes differ: find a witness k
                    diff = masks[j] ^ m
                    k = (diff & -diff).bit_length() - 1
                    b, c = insts[j], insts[k]
                    agg(dict(op="transitive:" + pname, kind=a.kind, route_a=a.route, route_b=b.route, route_c=c.route),
                        "%s not transitive: a~b but a, b disagree about c; a=%s [%s] b=%s [%s] c=%s [%s]" % (
                            pname, datum_or_rec(a.val), a.route, datum_or_rec(b.val), b.route, datum_or_rec(c.val), c.route), None)
                mm >>= 1
                j += 1
    # equal? => same hash ; string=? => same string-hash ; string-ci=? => same string-ci-hash
    for i in range(n):
        if i not in rows or i not in hashes:
            continue
        a = insts[i]
        hi = hashes[i]
        if hi[0] != hi[1]:
            agg(dict(op="hash-unstable", kind=a.kind, route_a=a.route), "(hash x) twice gave %s then %s for %s" % (hi[0], hi[1], datum_or_rec(a.val)), None)
        if hi[0] == "E":
            agg(dict(op="hash-error", kind=a.kind, route_a=a.route), "(hash x) raised for %s [%s]" % (datum_or_rec(a.val), a.route), None)
        for j in range(i + 1, n):
            if j not in hashes:
                continue
            b = insts[j]
            hj = hashes[j]
            observed = rows[i][1][j] == "t" or rows[i][0][j] == "t"
            spec = exp_equal(a, b)
            if spec is True or (spec is None and observed):
                chk.evaluations += 1
                chk.outcomes["hash:" + ("same" if hi[0] == hj[0] else "DIFFERENT")] += 1
                if hi[0] != hj[0] or hi[2] != hj[2]:
                    agg(dict(op="hash", kind=a.kind, route_a=a.route, route_b=b.route, got="different", want="same",
                             contains_bignum=contains_bignum(a.val)),
                        "equal? values hash differently: (hash a)=%s (hash b)=%s, a=%s [route %s], b [route %s]" % (
                            hi[0], hj[0], datum_or_rec(a.val), a.route, b.route),
                        COH_PRELUDE + "(define a %s)\n(define b %s)\n(write (list (equal? a b) (native-equal? a b) (hash a) (hash b) (hash a 23) (hash b 23)))\n;; expected: #t #t and equal hashes\n" % (a.expr, b.expr))
            if a.kind == "string" and b.kind == "string":
                if a.val == b.val:
                    chk.evaluations += 1
                    chk.outcomes["string-hash:" + ("same" if hi[3] == hj[3] else "DIFFERENT")] += 1
                    if hi[3] != hj[3]:
                        agg(dict(op="string-hash", kind="string", route_a=a.route, route_b=b.route, got="different", want="same"),
                            "string=? strings with different string-hash: %s vs %s for %s [%s] / [%s]" % (hi[3], hj[3], datum(a.val), a.route, b.route),
                            COH_PRELUDE + "(define a %s)\n(define b %s)\n(write (list (string=? a b) (string-hash a) (string-hash b)))\n" % (a.expr, b.expr))
                if rows[i][3] != "-" and rows[i][3][j] == "t":
                    chk.evaluations += 1
                    chk.outcomes["string-ci-hash:" + ("same" if hi[4] == hj[4] else "DIFFERENT")] += 1
                    if hi[4] != hj[4]:
                        ascii_only = all(ord(ch) < 128 for ch in a.val[1] + b.val[1])
                        agg(dict(op="string-ci-hash", kind="string", ascii=ascii_only, a=a.val[1], b=b.val[1], got="different", want="same"),
                            "string-ci=? strings with different string-ci-hash: %s vs %s for %s / %s" % (hi[4], hj[4], datum(a.val), datum(b.val)),
                            COH_PRELUDE + "(define a %s)\n(define b %s)\n(write (list (string-ci=? a b) (string-ci-hash a) (string-ci-hash b)))\n;; expected: #t and equal hashes\n" % (lit(a.val), lit(b.val)))


def datum_or_rec(v):
    if v[0] == "r":
        return "#<%s %s>" % (v[1], " ".join(datum(x) for x in v[2]))
    s = datum(v)
    return s if len(s) < 90 else s[:87] + "..."


# ---------------------------------------------------------------- cyclic family (oracle: bisimulation)

class G:
    """abstract graph node: kind 'p' (car, cdr) or 'v' (items); atoms are plain tuples"""
    def __init__(self, kind, kids=None):
        self.kind, self.kids = kind, kids or []


def bisim(a, b, assumed=None):
    assumed = assumed if assumed is not None else set()
    if not isinstance(a, G) or not isinstance(b, G):
        return (not isinstance(a, G)) and (not isinstance(b, G)) and a == b
    if a.kind != b.kind or len(a.kids) != len(b.kids):
        return False
    k = (id(a), id(b))
    if k in assumed:
        return True
    assumed.add(k)
    return all(bisim(x, y, assumed) for x, y in zip(a.kids, b.kids))


def glist(items, tail=NIL):
    """fresh chain of pair nodes; returns (head, last pair)"""
    head = last = None
    for x in items:
        n = G("p", [x, NIL])
        if last is None:
            head = n
        else:
            last.kids[1] = n
        last = n
    last.kids[1] = tail
    return head, last


def cyclic_family():
    """[(name, scheme expr, graph)]"""
    fam = []

    def circ(items, lead=()):
        h, last = glist(list(items))
        last.kids[1] = h
        if lead:
            h2, l2 = glist(list(lead), h)
            return h2
        return h
    one, two, three, zero = I(1), I(2), I(3), I(0)
    fam.append(("circ(1 2)", "(let ((x (list 1 2))) (set-cdr! (cdr x) x) x)", circ([one, two])))
    fam.append(("circ(1 2 1 2)", "(let ((x (list 1 2 1 2))) (set-cdr! (cdr (cddr x)) x) x)", circ([one, two, one, two])))
    fam.append(("circ(1 2) via reader", "(read (open-input-string \"#0=(1 2 . #0#)\"))", circ([one, two])))
    fam.append(("(1 . circ(2 1))", "(let ((x (list 2 1))) (set-cdr! (cdr x) x) (cons 1 x))", circ([two, one], lead=[one])))
    fam.append(("circ(1 3)", "(let ((x (list 1 3))) (set-cdr! (cdr x) x) x)", circ([one, three])))
    fam.append(("(1 . circ(2))", "(let ((x (list 1 2))) (set-cdr! (cdr x) (cdr x)) x)", circ([two], lead=[one])))
    fam.append(("(0 . circ(1 2))", "(let ((x (list 1 2))) (set-cdr! (cdr x) x) (cons 0 x))", circ([one, two], lead=[zero])))
    fam.append(("(1 2 1 2) acyclic", "(list 1 2 1 2)", glist([one, two, one, two])[0]))
    for nm, second in (("x=(x 2)", two), ("x=(x 2) again", two), ("x=(x 3)", three)):
        x, _ = glist([NIL, second])
        x.kids[0] = x
        fam.append((nm, "(let ((x (list 1 %d))) (set-car! x x) x)" % second[1], x))
    v1 = G("v", [one, None]); v1.kids[1] = v1
    fam.append(("v=#(1 v)", "(let ((v (vector 1 #f))) (vector-set! v 1 v) v)", v1))
    v2 = G("v", [one, None]); w2 = G("v", [one, v2]); v2.kids[1] = w2
    fam.append(("v=#(1 #(1 v))", "(let* ((v (vector 1 #f)) (w (vector 1 v))) (vector-set! v 1 w) v)", v2))
    v3 = G("v", [two, None]); v3.kids[1] = v3
    fam.append(("v=#(2 v)", "(let ((v (vector 2 #f))) (vector-set! v 1 v) v)", v3))
    for nm, second in (("v=#(v 1)", one), ("v=#(v 1) again", one), ("v=#(v 2)", two)):
        v = G("v", [None, second]); v.kids[0] = v
        fam.append((nm, "(let ((v (vector #f %d))) (vector-set! v 0 v) v)" % second[1], v))
    fam.append(("#(1 #(1 #(1 0))) acyclic", "(vector 1 (vector 1 (vector 1 0)))", G("v", [one, G("v", [one, G("v", [one, zero])])])))
    c = circ([one, two])
    fam.append(("#(circ(1 2) 1)", "(let ((x (list 1 2))) (set-cdr! (cdr x) x) (vector x 1))", G("v", [c, one])))
    # a cycle through both kinds: x = (1 . #(x))
    x = G("p", [one, None]); vv = G("v", [x]); x.kids[1] = vv
    fam.append(("x=(1 . #(x))", "(let* ((x (list 1)) (v (vector x))) (set-cdr! x v) x)", x))
    x2 = G("p", [one, None]); vv2 = G("v", [None]); x2.kids[1] = vv2
    y2 = G("p", [one, G("v", [x2])]); vv2.kids[0] = y2
    fam.append(("x=(1 . #((1 . #(x))))", "(let* ((x (list 1)) (y (list 1)) (v (vector y)) (w (vector x))) (set-cdr! x v) (set-cdr! y w) x)", x2))
    return fam


def cyclic_text(fam):
    out = [COH_PRELUDE, "(define N %d)" % len(fam), "(define X (make-vector N 'unset))"]
    for i, (nm, expr, g) in enumerate(fam):
        out.append("(put %d %s)" % (i, expr))
    out.append("""
(define (row pred i)
  (let ((a (vector-ref X i)))
    (do ((j 0 (+ j 1))) ((= j N)) (write-char (c (pred a (vector-ref X j)))))))
(do ((i 0 (+ i 1))) ((= i N))
  (write i) (write-char #\\space) (row equal? i) (write-char #\\space) (row eqv? i) (newline))
(display ";;NATIVE") (newline)
(do ((i 0 (+ i 1))) ((= i N))
  (write i) (write-char #\\space) (row native-equal? i) (newline))
""")
    return "\n".join(out)


def cyclic_job(_):
    fam = cyclic_family()
    d = common.scratch_dir("c15c")
    path = os.path.join(d, "cyc.scm")
    common.write_file(path, cyclic_text(fam))
    res = common.evalbatch("opt", [path], timeout=240, cwd=d)
    shutil.rmtree(d, ignore_errors=True)
    return dict(out=res.out, rc=res.rc, timed_out=res.timed_out)


def hash_cyclic_job(i):
    fam = cyclic_family()
    nm, expr, g = fam[i]
    d = common.scratch_dir("c15h")
    path = os.path.join(d, "h.scm")
    common.write_file(path, COH_PRELUDE + "(define x %s)\n(define y %s)\n(display \";;HASH \")(write (list (hash x) (hash y)))\n(newline)\n" % (expr, expr))
    t0 = time.time()
    res = common.evalbatch("opt", [path], timeout=20, cwd=d)
    shutil.rmtree(d, ignore_errors=True)
    return dict(i=i, name=nm, expr=expr, out=res.out[-600:], rc=res.rc, timed_out=res.timed_out, wall=time.time() - t0)


# ---------------------------------------------------------------- depth family

DEPTH_TEXT = COH_PRELUDE + """
;; nesting in the FIRST slot that the comparison cannot skip (the last slots are fresh, not eq?, pairs)
(define (nest-first-list n leaf) (let lp ((i 0) (acc leaf)) (if (= i n) acc (lp (+ i 1) (list acc 0)))))
(define (nest-first-vector n leaf) (let lp ((i 0) (acc leaf)) (if (= i n) acc (lp (+ i 1) (vector acc (list 0))))))
;; nesting in the LAST slot
(define (nest-last-list n leaf) (let lp ((i 0) (acc leaf)) (if (= i n) acc (lp (+ i 1) (cons 0 acc)))))
(define (nest-last-vector n leaf) (let lp ((i 0) (acc leaf)) (if (= i n) acc (lp (+ i 1) (vector 0 acc)))))
;; width: n fresh pointer elements, only the last differs
(define (wide-list n leaf) (let lp ((i 1) (acc (list leaf))) (if (>= i n) acc (lp (+ i 1) (cons (string #\\a) acc)))))
(define (wide-vector n leaf) (let ((v (make-vector n #f))) (do ((i 0 (+ i 1))) ((= i n)) (vector-set! v i (string #\\a))) (vector-set! v (- n 1) leaf) v))
(define (leaf-a) (list (string #\\a)))
(define (leaf-b) (list (string #\\b)))
(define-syntax t
  (syntax-rules ()
    ((_ name mk n)
     (let ((a (mk n (leaf-a))) (a2 (mk n (leaf-a))) (b (mk n (leaf-b))))
       (display name) (write-char #\\space) (write n) (write-char #\\space)
       (write-char (c (native-equal? a a2))) (write-char (c (native-equal? a b))) (write-char (c (native-equal? b a)))
       (write-char #\\space)
       (write-char (c (equal? a a2))) (write-char (c (equal? a b))) (write-char (c (equal? b a)))
       (write-char #\\space)
       (write-char (c (eqv? a a2))) (write-char (c (eqv? a a)))
       (write-char #\\space)
       (write-char (c (= (hash a) (hash a2))))
       (newline)))))
(define-syntax all
  (syntax-rules ()
    ((_ n) (begin (t "first-list" nest-first-list n) (t "first-vector" nest-first-vector n)
                  (t "last-list" nest-last-list n) (t "last-vector" nest-last-vector n)
                  (t "wide-list" wide-list n) (t "wide-vector" wide-vector n)))))
"""


def depth_job(ns):
    d = common.scratch_dir("c15d")
    path = os.path.join(d, "depth.scm")
    common.write_file(path, DEPTH_TEXT + "\n".join("(all %d)" % n for n in ns))
    res = common.evalbatch("opt", [path], timeout=600, cwd=d)
    shutil.rmtree(d, ignore_errors=True)
    return dict(ns=ns, out=res.out, rc=res.rc, timed_out=res.timed_out)


# =====================================================================================================
# driver
# =====================================================================================================

class Agg:
    """group mismatches by root cause; one reported violation per group, with a count and the simplest example"""

    def __init__(self):
        self.groups = {}

    def add(self, key, desc, what, replay, weight=0):
        g = self.groups.get(key)
        if g is None:
            self.groups[key] = g = dict(count=0, desc=desc, what=what, replay=replay, weight=weight, extra={})
        g["count"] += 1
        if weight < g["weight"]:
            g.update(desc=desc, what=what, replay=replay, weight=weight)
        return g


def table_depth(tier, api, n0):
    """maximal number of state-changing operations in an explored history (every history is followed by reads).
    Chosen from measured cost: one history costs ~0.35 ms on an empty table and 10-50 ms on a 491-entry table
    (chibi's VM needs ~1 us per bucket to walk a table, ~20 us per call of a hash/equivalence procedure from C)."""
    small = n0 <= FULL_DUMP_N0
    if tier == "quick":
        if api == "69":
            return 4 if n0 <= 2 else (3 if small else 2)
        return 3 if n0 <= 8 else (2 if small else 1)
    if api == "69":
        return 5 if n0 <= 2 else (4 if small else 3)
    return 4 if n0 <= 8 else (3 if n0 <= 62 else 2)


def run_cost_ms(api, eqname, n0):
    """estimated CPU milliseconds of one history (asan build), from measurements; only used to size and order the batches"""
    fast = (eqname in ("eq?", "equal?") and api == "69") or (eqname == "eq?")
    ci = 3.0 if eqname == "string-ci=?" else 1.0        # string-ci=? folds (allocates) both strings on every comparison
    if n0 <= FULL_DUMP_N0:
        return ci * ((0.4 if fast else 0.6) + 0.0036 * maps.buckets_after_inserts(n0))
    return ci * (0.4 + n0 * (0.022 if fast else 0.07)) * (1.6 if api == "125" else 1.0)


def initial_sizes():
    th = maps.growth_thresholds(512)
    ns = {0}
    for t in th:
        ns.add(t - 1)
        ns.add(t)
    return sorted(ns), th


def run_any(job, attempt=0):
    kind = job[0]
    try:
        if kind == "table":
            return kind, table_job(job[1])
        if kind == "coh":
            return kind, coherence_job(job[1])
        if kind == "cyclic":
            return kind, cyclic_job(job[1])
        if kind == "hashcyc":
            return kind, hash_cyclic_job(job[1])
        if kind == "depth":
            return kind, depth_job(job[1])
    except Exception as ex:
        # typically: /repo changed under us and the variant is being rebuilt by another process, or the rebuild
        # failed half-way.  Wait, try once more; a second failure is reported as a harness error by main().
        import traceback
        if attempt == 0:
            time.sleep(20)
            return run_any(job, 1)
        return "error", dict(job=job, tb=traceback.format_exc())
    raise ValueError(kind)


def reap_workers(pids):
    """after Pool.terminate(): the evalbatch children of killed workers keep running; stop them and remove their scratch"""
    import signal
    marks = ["-%d-" % p for p in pids]
    for ent in os.listdir("/proc"):
        if not ent.isdigit():
            continue
        try:
            cmd = open("/proc/%s/cmdline" % ent, "rb").read().decode("utf-8", "replace")
        except OSError:
            continue
        if "/build/scratch/c15" in cmd and any(m in cmd for m in marks):
            try:
                os.kill(int(ent), signal.SIGKILL)
            except OSError:
                pass
    if os.path.isdir(common.SCRATCH_ROOT):
        for f in os.listdir(common.SCRATCH_ROOT):
            if f.startswith("c15") and any(m in f + "-" or m in f for m in marks):
                shutil.rmtree(os.path.join(common.SCRATCH_ROOT, f), ignore_errors=True)


def standalone(text, variant="opt", env=None, timeout=120):
    d = common.scratch_dir("c15r")
    path = os.path.join(d, "replay.scm")
    common.write_file(path, text)
    res = common.evalbatch(variant, [path], timeout=timeout, cwd=d, env=env)
    shutil.rmtree(d, ignore_errors=True)
    return res


def main(tier, replay=None):
    chk = Check("C15", "model_checking", tier, quick_s=135, thorough_s=1140)
    chk.clean_replays()
    chk.max_reported = 60
    for v in ("opt", "asan"):
        build.build_variant(v)
    n0s, thresholds = initial_sizes()
    insts = catalogue(tier)
    fam = cyclic_family()
    agg = Agg()

    # ---------------- job list
    jobs = []
    est = {}
    for api in ("69", "125"):
        for eqname in EQUIVS:
            for L in (1, 2, 3, 4, 5):
                if any(table_depth(tier, api, n) == L for n in n0s):
                    runs, st = explore(api, eqname, 3, L)
                    est[(api, eqname, L)] = len(runs)
    for api in ("69", "125"):
        for eqname in EQUIVS:
            for n0 in n0s:
                L = table_depth(tier, api, n0)
                nruns = est[(api, eqname, L)]
                cost = nruns * run_cost_ms(api, eqname, n0)          # estimated CPU ms
                nchunks = max(1, int(math.ceil(cost / 20000.0)))
                for c in range(nchunks):
                    jobs.append((cost / nchunks, ("table", ("asan", api, eqname, n0, L, nchunks, c, True))))
    # the hash procedure objects themselves (string-hash, string-ci-hash) as table hash functions: shallow, small tables
    for api in ("69", "125"):
        for eqname in ("string=?", "string-ci=?"):
            for n0 in (1, 2):
                jobs.append((15000, ("table", ("asan", api, eqname, n0, 2, 1, 0, True, True))))
    nrow = len(insts)
    step = max(8, nrow // 40)
    first = True
    for lo in range(0, nrow, step):
        jobs.append((12000 if first else 8000, ("coh", (tier, lo, min(nrow, lo + step), first))))
        first = False
    jobs.append((30000, ("cyclic", 0)))
    for n in (9999, 10000, 10001) if tier == "quick" else (9998, 9999, 10000, 10001, 10002, 20000):
        jobs.append((30000, ("depth", [n])))
    for i in range(len(fam)):
        jobs.append((20000, ("hashcyc", i)))
    jobs.sort(key=lambda j: -j[0])
    work = [j for _, j in jobs]
    parts = os.environ.get("C15_PARTS")          # debugging aid: "a" or "b" runs one half only (evidence then says so)
    if parts == "a":
        work = [w for w in work if w[0] != "table"]
    elif parts == "b":
        work = [w for w in work if w[0] == "table"]
    if parts:
        chk.exhaustive = False
        chk.cov["parts_selected"] = parts
    import random
    if chk.seed:
        random.Random(chk.seed).shuffle(work)
    log("C15 %s: %d jobs (%d table chunks), %d coherence instances of %d abstract values" % (
        tier, len(work), sum(1 for w in work if w[0] == "table"), nrow, len(set(x.val for x in insts))))

    # ---------------- run
    rows, hashes = {}, {}
    tstats = {}            # (api, eq, n0) -> stats
    table_runs = table_exec = 0
    cpu_by, runs_by, retried_jobs = {}, {}, []
    collide_mods = set()
    crashes = []
    done = 0
    cyc = None
    depth_out = []
    hashcyc = []
    harness_errors = []
    st = dict(table_runs=0, table_exec=0, cyc=None)

    def handle(kind, r):
        if kind == "error":
            harness_errors.append(r)
            log("worker error:", r["tb"][-400:])
        elif kind == "table":
            key = (r["api"], r["eq"], r["n0"], r["raw"])
            tstats[key] = r["stats"]
            st["table_runs"] += r["runs"]
            st["table_exec"] += r["executed"]
            ck = "srfi-%s %s" % (r["api"], "n0<=31" if r["n0"] <= FULL_DUMP_N0 else "n0>31")
            cpu_by[ck] = cpu_by.get(ck, 0.0) + r["cpu"]
            runs_by[ck] = runs_by.get(ck, 0) + r["executed"]
            if r["retried"]:
                retried_jobs.append((r["api"], r["eq"], r["n0"], bool(r["crash"])))
            chk.evaluations += r["tokens"]
            for k, c in r["outcomes"].items():
                chk.outcomes["table:" + k.split(":")[0] + (":E" if k.endswith(":E") else "")] += c
            if r["collide"]:
                collide_mods.add(r["collide"].split(" ")[0])
            if r["sample"] and r["chunk"] == 0 and r["n0"] in (2, 16, 491):
                chk.sample(r["sample"], cap=9)
            for (i, pl, ml, lab, got, want, rot, full) in r["mism"]:
                cause = attribute(r["api"], r["eq"], r["n0"], pl, ml, lab, got, want)
                gk = (cause, r["api"]) if cause != "unexplained" else (cause, r["api"], r["eq"], lab[0])
                g = agg.add(gk, None, None, None, weight=len(pl) * 1000 + r["n0"])
                if g["desc"] is None or g["weight"] == len(pl) * 1000 + r["n0"] and g["desc"].get("_w") != g["weight"]:
                    g["desc"] = dict(op="table:" + cause, api="srfi-" + r["api"], equivalence=r["eq"], n0=r["n0"],
                                     history=[opstr(x) for x in pl + ([ml] if ml else [])], at=opstr(lab),
                                     got=got, want=want, _w=g["weight"], _rp=(r["api"], r["eq"], r["n0"], pl, ml, rot, full, r["raw"]))
                g["extra"].setdefault("at", set()).add(lab[0])
                g["extra"].setdefault("equivalences", set()).add(r["eq"])
                g["extra"].setdefault("n0", set()).add(r["n0"])
            if r["crash"]:
                crashes.append(r)
        elif kind == "coh":
            rows.update(r["rows"])
            hashes.update(r["hashes"])
            for e in r["route_errors"]:
                i = int(e.split()[1])
                agg.add(("route-error", insts[i].kind, insts[i].route),
                        dict(op="route-error", kind=insts[i].kind, route=insts[i].route, expr=insts[i].expr),
                        "building %s through route %s raised: %s" % (datum_or_rec(insts[i].val), insts[i].route, e),
                        COH_PRELUDE + "(write %s)\n" % insts[i].expr)
            if r["rc"] != 0 or r["timed_out"] or r["other"]:
                agg.add(("coh-crash", r["lo"]), dict(op="coherence-batch-crash", rc=r["rc"], lo=r["lo"], hi=r["hi"], timed_out=r["timed_out"]),
                        "coherence batch rows %d..%d ended abnormally rc=%s: %s %s" % (r["lo"], r["hi"], r["rc"], r["other"][:3], r["tail"][-300:]), None)
        elif kind == "cyclic":
            st["cyc"] = r
        elif kind == "depth":
            depth_out.append(r)
        elif kind == "hashcyc":
            hashcyc.append(r)

    with Pool(common.NCPU) as pool:
        worker_pids = [w.pid for w in pool._pool]
        for kind, r in pool.imap_unordered(run_any, work):
            done += 1
            handle(kind, r)
            if chk.out_of_time():
                pool.terminate()
                reap_workers(worker_pids)
                log("deadline reached after %d/%d jobs" % (done, len(work)))
                break
    if harness_errors and not chk.out_of_time():
        # second chance, serially, for jobs whose worker failed twice (e.g. while a variant was being rebuilt)
        todo = list(harness_errors)
        del harness_errors[:]
        for e in todo:
            kind, r = run_any(e["job"])
            if kind == "error":
                raise common.HarnessError(r["tb"])
            handle(kind, r)
    elif harness_errors:
        raise common.HarnessError(harness_errors[0]["tb"])
    table_runs, table_exec, cyc = st["table_runs"], st["table_exec"], st["cyc"]

    # ---------------- (a) analysis
    def agg_a(desc, what, replay):
        key = (desc["op"], desc.get("kind"), desc.get("kind_b"), desc.get("got"), desc.get("want"), desc.get("ascii"))
        w = len(what) + (0 if (desc.get("route_a"), desc.get("route_b")) == ("literal", "detour-2^200") else 1000)
        g = agg.add(key, desc, what, replay, weight=w)
        if "route_a" in desc:
            g["extra"].setdefault("routes", set()).add((desc.get("route_a"), desc.get("route_b")))
    if len(rows) < len(insts):
        log("coherence matrix incomplete (%d of %d rows): analysing the completed rows only" % (len(rows), len(insts)))
    analyse_coherence(chk, insts, rows, hashes, agg_a, complete=chk.exhaustive or os.environ.get("C15_PARTS") == "a")
    chk.cov["coherence_instances"] = len(insts)
    chk.cov["coherence_abstract_values"] = len(set(x.val for x in insts))
    chk.cov["coherence_routes"] = sorted(set(x.route for x in insts))
    chk.cov["coherence_pairs"] = len(rows) * len(insts)

    # cyclic family
    if cyc is not None:
        analyse_cyclic(chk, fam, cyc, agg_a)
    for r in hashcyc:
        chk.evaluations += 1
        m = re.search(r";;HASH \((\S+) (\S+)\)", r["out"])
        if r["timed_out"]:
            chk.outcomes["hash-cyclic:timeout"] += 1
            shape = "last-slot cycle" if ("set-cdr!" in r["expr"] or "vector-set! v 1" in r["expr"]) else "cycle"
            agg.add(("hash-cyclic",), dict(op="hash-cyclic-nonterminating", value=r["name"], shape=shape),
                    "(hash x) does not return within 20 s for the cyclic %s, although (equal? x x') terminates" % r["name"],
                    COH_PRELUDE + "(define x %s)\n(write (hash x))\n;; expected: an integer; observed: no result within 20 s\n" % r["expr"],
                    weight=len(r["expr"]))["extra"].setdefault("values", set()).add(r["name"])
        elif not m or r["rc"] != 0:
            agg.add(("hash-cyclic-crash", r["name"]), dict(op="hash-cyclic-crash", value=r["name"], rc=r["rc"]),
                    "(hash x) on cyclic %s ended abnormally: %s" % (r["name"], r["out"][-300:]), None)
        else:
            chk.outcomes["hash-cyclic:" + ("same" if m.group(1) == m.group(2) else "DIFFERENT")] += 1
            if m.group(1) != m.group(2):
                agg.add(("hash-cyclic-diff",), dict(op="hash", kind="cyclic", value=r["name"], got="different", want="same"),
                        "two equal? cyclic structures %s hash differently: %s %s" % (r["name"], m.group(1), m.group(2)),
                        COH_PRELUDE + "(define x %s)\n(define y %s)\n(write (list (equal? x y) (hash x) (hash y)))\n" % (r["expr"], r["expr"]))
    # depth family
    for r in depth_out:
        analyse_depth(chk, r, agg)

    # ---------------- (b) crashes / sanitizer reports
    for r in crashes:
        c = r["crash"]
        at = c["at"]
        fr = c["asan"][1][:4] if c["asan"] else None
        desc = dict(op="table:crash" if not c["asan"] else "table:asan-" + c["asan"][0], api="srfi-" + r["api"], equivalence=r["eq"], n0=r["n0"],
                    rc=c["rc"], frames=fr, timed_out=c["timed_out"], history=[opstr(x) for x in (at[0] + ([at[1]] if at[1] else []))] if at else None)
        rp = None
        if at:
            rp = replay_program(r["api"], r["eq"], r["n0"], at[0], at[1], at[2], at[3], r["raw"])
        agg.add(("crash", r["api"], r["eq"], str(fr)), desc,
                "table batch (%s, SRFI %s, n0=%d) stopped after %d of %d histories rc=%s %s; tail: %s" % (
                    r["eq"], r["api"], r["n0"], c["got"], c["want"], c["rc"], "ASan %s in %s" % (c["asan"][0], fr) if c["asan"] else "",
                    (c["extra"] or [c["tail"][-300:]])[0][:300]), rp, weight=r["n0"])

    # ---------------- emit grouped violations (each example re-run alone in a fresh process first)
    for key, g in sorted(agg.groups.items(), key=lambda kv: str(kv[0])):
        desc = dict(g["desc"])
        what = g["what"]
        rp = g["replay"]
        if "_rp" in desc:
            api, eqn, n0, pl, ml, rot, full, raw = desc.pop("_rp")
            desc.pop("_w", None)
            rp = replay_program(api, eqn, n0, pl, ml, rot, full, raw)
            toks, labels = expected_line(api, eqn, n0, [(0, a, b) for a, b in pl], (0, ml[0], ml[1]) if ml else None, rot, full,
                                         [(0, c[1], c[2]) for c in (op_codes(api)[2] if ml is None else light_reads(api))])
            res = standalone(rp, "opt")
            lines, _, _ = parse_table_output(res.out)
            got_line = lines[0].rstrip() if lines else ""
            desc["standalone_reproduced"] = (got_line != " ".join(toks))
            what = "%s table (SRFI %s names, %d pre-filled entries), history [%s]: %s gave %s, the finite-map model says %s" % (
                eqn, api, n0, "; ".join(desc["history"]) or "-", desc["at"], desc["got"], desc["want"])
            rp += ";; observed: %s\n" % got_line
        elif rp is not None and desc.get("op", "").split(":")[0] in PRED_NAMES + ["hash", "string-hash", "string-ci-hash", "symmetric", "reflexive"]:
            res = standalone(rp, "opt", timeout=60)
            body = res.out.split(";;STATS")[0].strip()
            desc["standalone_output"] = body[-200:]
            rp += ";; observed alone: %s\n" % body[-200:]
        desc["count"] = g["count"]
        for k, v in g["extra"].items():
            desc[k] = sorted(v, key=str)[:24]
        chk.violation(desc, "%s  [%d cases in this group]" % (what, g["count"]), rp)

    # ---------------- coverage
    states = sum(s["states"] for s in tstats.values())
    trans = sum(s["transitions"] for s in tstats.values())
    chk.cov["states"] = states
    chk.cov["transitions"] = trans
    chk.cov["traces_validated_against_impl"] = table_exec
    chk.cov["table_histories_planned"] = table_runs
    chk.cov["table_configurations"] = len(tstats)
    chk.cov["initial_sizes"] = n0s
    chk.cov["growth_thresholds"] = thresholds
    chk.cov["equivalences"] = list(EQUIVS)
    chk.cov["alphabet_sizes"] = {api: dict(zip(("all", "mutators", "reads"), map(len, op_codes(api)))) for api in ALPHABET}
    chk.cov["history_depth"] = {api: sorted(set(table_depth(tier, api, n) for n in n0s)) for api in ALPHABET}
    chk.cov["bucket_collision_modulus"] = sorted(collide_mods)
    chk.cov["table_cpu_seconds"] = {k: round(v, 1) for k, v in cpu_by.items()}
    chk.cov["table_histories_by_class"] = runs_by
    chk.cov["table_batches_rerun"] = len(retried_jobs)
    log("table cpu by class:", chk.cov["table_cpu_seconds"], runs_by, "reruns:", retried_jobs[:5])
    chk.cov["jobs_completed"] = done
    chk.cov["jobs_total"] = len(work)
    chk.cov["variants"] = {"tables": "asan + VERIF_POISON=1", "coherence": "opt"}
    chk.nontrivial_n += table_exec
    chk.rule = (
        "(a) every ordered pair of the %d (value, route) instances x {native equal?, (scheme base) equal?, eqv?}, expected from "
        "abstract identity (R7RS 6.1; NaN, records, empty/literal constants excluded where the report leaves the result open), "
        "plus symmetry, reflexivity, transitivity of the observed relations, equal? => same (hash x) and (hash x 23), "
        "string=? => same string-hash, string-ci=? => same string-ci-hash; %d cyclic structures, all pairs, oracle = bisimulation; "
        "nesting/width 9999..10001 in first and last slots.  (b) breadth-first exploration of the finite-map model from a table "
        "pre-filled to each of %d sizes (both sides of every growth threshold up to 512), for 5 equivalences and the SRFI 69 / "
        "SRFI 125 names; states are identified by (contents of the 6 addressed keys, filler count, bucket count, copies taken); "
        "from every state at depth < d every operation of the alphabet is executed on the implementation after the shortest "
        "history reaching the state (read-only operations in one run per state, each state-changing operation in its own run "
        "followed by a lookup of all 6 keys, the size and a contents check); d = history_depth.  distinct_nontrivial counts the "
        "executed histories plus the coherence pairs that involve a non-literal route or a non-fixnum value"
        % (len(insts), len(fam), len(n0s)))
    chk.assumptions = [
        "64-bit build; growth rule read from lib/srfi/69/hash.c is used only to choose pre-fill sizes and to classify states",
        "SRFI 69 leaves the winner of hash-table-merge! on a common key open; the SRFI 125 rule (first table wins) is asserted",
        "hash-table-pop! (SRFI 125) is not in the alphabet: which association it removes is unspecified",
        "tables larger than 31 entries: the contents are walked in every run without mutator and in runs of depth < 2; deeper runs "
        "that touched the whole table or crossed a growth threshold look up every filler, the others probe three fillers",
        "read-only operations from a state are executed one after the other on the same table (rotating order)",
        "hash-table-update! with a size-reading thunk is explored as a final operation only",
        "string tables use (lambda (s . o) ...) around string-hash / string-ci-hash; the procedure objects themselves are used "
        "in 8 extra configurations (1 and 2 pre-filled entries, depth 2)",
        "default comparator of SRFI 128 (numbers compared with =) is not among the five equivalences",
    ]
    for name, expr, g in fam[:1]:
        chk.sample("cyclic: " + name + " = " + expr, cap=14)
    for x in insts[1:400:100]:
        chk.sample("%s via %s: %s" % (datum_or_rec(x.val), x.route, x.expr[:100]), cap=14)
    common.cleanup_scratch()
    return chk.finish()


def analyse_cyclic(chk, fam, r, agg_a):
    n = len(fam)
    sect = 0
    got = {0: {}, 1: {}}
    for l in r["out"].split("\n"):
        if l.startswith(";;NATIVE"):
            sect = 1
            continue
        if l.startswith(";;ROUTE-ERROR"):
            agg_a(dict(op="route-error", kind="cyclic", route=l), "cyclic family: " + l, None)
        if l and l[0].isdigit():
            f = l.split(" ")
            got[sect][int(f[0])] = f[1:]
    if r["timed_out"] or r["rc"] != 0:
        done_rows = len(got[0]) + len(got[1])
        agg_a(dict(op="equal?-cyclic-nontermination", kind="cyclic", got="timeout" if r["timed_out"] else "rc=%s" % r["rc"], want="terminates"),
              "cyclic family stopped after %d of %d rows (timeout=%s rc=%s): %s" % (done_rows, 2 * n, r["timed_out"], r["rc"], r["out"][-300:]), None)
    for i in range(n):
        for j in range(n):
            e = bisim(fam[i][2], fam[j][2])
            for pname, sec, col in (("equal?-base", 0, 0), ("eqv?", 0, 1), ("equal?-native", 1, 0)):
                if i not in got[sec]:
                    continue
                g = got[sec][i][col][j]
                w = e if pname != "eqv?" else (i == j)
                chk.evaluations += 1
                chk.nontrivial_n += 1
                chk.outcomes["cyclic:%s:%s" % (pname, "#t" if w else "#f")] += 1
                if g != ("t" if w else "f"):
                    agg_a(dict(op=pname, kind="cyclic", kind_b="cyclic", got=g, want="t" if w else "f", a=fam[i][0], b=fam[j][0]),
                          "(%s a b) => %s, expected %s for cyclic a: %s, b: %s" % (pname, g, "t" if w else "f", fam[i][0], fam[j][0]),
                          COH_PRELUDE + "(define a %s)\n(define b %s)\n(write (%s a b))\n;; expected %s\n" % (
                              fam[i][1], fam[j][1], {"equal?-native": "native-equal?", "equal?-base": "equal?", "eqv?": "eqv?"}[pname], w))


def analyse_depth(chk, r, agg):
    lines = [l for l in r["out"].split("\n") if l and l.split(" ")[0] in
             ("first-list", "first-vector", "last-list", "last-vector", "wide-list", "wide-vector")]
    if r["rc"] != 0 or r["timed_out"] or len(lines) != 6 * len(r["ns"]):
        agg.add(("depth-crash", str(r["ns"])), dict(op="depth-family-crash", ns=r["ns"], rc=r["rc"], timed_out=r["timed_out"]),
                "depth family %s ended abnormally (rc=%s, timeout=%s, %d lines): %s" % (r["ns"], r["rc"], r["timed_out"], len(lines), r["out"][-400:]),
                DEPTH_TEXT + "\n".join("(all %d)" % n for n in r["ns"]))
    for l in lines:
        shape, n, nat, base, eqv, hsh = l.split(" ")
        for pname, g in (("equal?-native", nat), ("equal?-base", base)):
            chk.evaluations += 3
            chk.nontrivial_n += 3
            chk.outcomes["depth:%s:%s" % (pname, g)] += 1
            if g != "tff":
                agg.add(("depth", pname, shape.split("-")[0]),
                        dict(op=pname, kind="deep-" + shape, depth=int(n), got=g, want="tff"),
                        "%s on %s nesting %s: (a a') (a b) (b a) => %s, expected tff (a, a' equal leaves, b a different leaf)" % (pname, shape, n, g),
                        DEPTH_TEXT + "(all %s)\n;; expected per line: tff tff ft t\n" % n, weight=int(n))["extra"].setdefault("depths", set()).add(int(n))
        chk.evaluations += 3
        if eqv != "ft":
            agg.add(("depth", "eqv?", shape), dict(op="eqv?", kind="deep-" + shape, depth=int(n), got=eqv, want="ft"),
                    "eqv? on %s nesting %s: (a a') (a a) => %s, expected ft" % (shape, n, eqv), DEPTH_TEXT + "(all %s)\n" % n)
        if hsh != "t":
            agg.add(("depth", "hash", shape), dict(op="hash", kind="deep-" + shape, depth=int(n), got=hsh, want="t"),
                    "equal? deep structures hash differently (%s nesting %s)" % (shape, n), DEPTH_TEXT + "(all %s)\n" % n)


def replay(path):
    """./check C15 --replay replay/C15/<file>.scm : run one recorded case alone and show observed vs expected"""
    text = open(path).read()
    variant = "asan" if "(define (run-one r)" in text else "opt"
    build.build_variant(variant)
    res = standalone(text, variant, env=table_env(variant, variant == "asan"), timeout=300)
    body = res.out.split(";;STATS")[0].rstrip()
    print(body)
    for l in text.split("\n"):
        if l.startswith(";; expected") or l.startswith(";; a =") or l.startswith(";; C15(b)") or l.startswith(";; tokens"):
            print(l)
    exp = [l[len(";; expected: "):].strip() for l in text.split("\n") if l.startswith(";; expected: ")]
    if variant == "asan" and exp:
        lines, _, extra = parse_table_output(res.out)
        ok = bool(lines) and lines[0].rstrip() == exp[0] and not extra and res.rc == 0
        print("REPLAY %s" % ("agrees with the model" if ok else "VIOLATION reproduced"))
        return 0 if ok else 1
    return 0 if res.rc == 0 else 1
