"""C07 -- macro expansion is hygienic and referentially transparent.

Metamorphic, bounded-exhaustive: a library of macro shapes (scheme/hygiene/macros.scm: binding-introducing, free-reference,
nested ellipsis, literals, macro-defining macro, er/sc/rsc transformers) x use-site templates x binding forms x user variable
x EVERY renaming target drawn from {fresh names} U {identifiers occurring in the macro templates} U {core keywords} U
{standard procedures}.  Consistently renaming a user-bound variable must not change the printed result, and the un-renamed
program must print the value the definitions prescribe."""
import os, re, itertools
from multiprocessing import Pool
from .. import common, build
from ..common import Check, log

PRE = os.path.join(common.VERIF, "scheme", "hygiene", "macros.scm")

# (name, body template with U1/U2, init1, init2, expected printed result)
TEMPLATES = [
    ("my-or", "(%l (my-or U2 U1) (my-or #f U2 U1) (my-or U1 U2) U1)", "5", "#f", "(5 5 5 5)"),
    ("my-or-er", "(%l (my-or-er U2 U1) (my-or-er #f U2 U1) U1)", "5", "#f", "(5 5 5)"),
    ("my-or-sc", "(%l (my-or-sc U2 U1) (my-or-sc #f U2 U1) U1)", "5", "#f", "(5 5 5)"),
    ("my-or-rsc", "(%l (my-or-rsc U2 U1) (my-or-rsc #f U2 U1) U1)", "5", "#f", "(5 5 5)"),
    ("swap!", "(begin (swap! U1 U2) (%l U1 U2))", "1", "2", "(2 1)"),
    ("swap-er!", "(begin (swap-er! U1 U2) (%l U1 U2))", "1", "2", "(2 1)"),
    ("repeat", "(begin (repeat 3 (set! U1 (%add U1 U2))) (%l U1 U2))", "0", "2", "(6 2)"),
    ("call-helper", "(%l (call-helper U1) (call-helper U2))", "3", "4", "((h (3 global-tmp)) (h (4 global-tmp)))"),
    ("groups", "(groups (U1 U2 U1) (U2) (U1 U1))", "1", "2", "((1 (2 1)) (2 ()) (1 (1)))"),
    ("my-let*", "(my-let* ((a U1) (b (%add a U2))) (%l a b U1 U2))", "1", "2", "(1 3 1 2)"),
    ("my-cond", "(%l (my-cond (U2 U1) (else 'e)) (my-cond (U1 => %helper) (else 'e)) (my-cond (#f 1) (else U1)))", "7", "#f", "(e (h 7) 7)"),
    ("kw", "(%l (kw from U1) (kw U2 U1))", "1", "2", "((lit 1) (var 2 1))"),
    ("def-const", "(let () (def-const getk U1) (%l (getk) U2))", "8", "9", "((8) 9)"),
    ("let-syntax", "(let-syntax ((dup (syntax-rules () ((_ e) (let ((tmp e)) (%l tmp tmp U2)))))) (dup U1))", "1", "2", "(1 1 2)"),
    ("letrec-syntax", "(letrec-syntax ((cnt (syntax-rules () ((_) 0) ((_ x r ...) (%add 1 (cnt r ...)))))) (%l (cnt U1 U2 U1) U1))", "1", "2", "(3 1)"),
    ("nested-use", "(my-or (my-or #f #f) (begin (swap! U1 U2) (my-or #f (%l U1 U2))))", "1", "2", "(2 1)"),
    # a user variable in the position where a macro looks for a literal: it is a literal only if it denotes the same binding as in
    # the macro definition, so renaming the variable TO the literal's name must not turn it into the keyword (R7RS 4.3.2)
    ("kw-pos", "(%l (kw U2 U1) (kw U1 U2))", "1", "2", "((var 2 1) (var 1 2))"),
    ("std-cond-else", "(%l (cond (U2 U1) (#t 'fallback)))", "5", "#f", "(fallback)"),
    ("std-cond-arrow", "(%l (cond (#f 0) ((%l U1) U2 (%add U1 1))))", "5", "2", "(6)"),
    ("std-guard-else", "(guard (exn (U2 'first) (#t (%l 'second U1))) (raise 'boom))", "5", "#f", "(second 5)"),
    ("std-case-arrow", "(%l (case U1 ((5) U2 (%add U1 1)) ((6) 'six)))", "5", "2", "(6)"),
    # let-syntax is not letrec-syntax: an identifier inserted by one keyword's template refers to the binding OUTSIDE the form, even
    # when a sibling keyword of the same form has that name (R7RS 4.3.1)
    ("let-syntax-sibling", "(let-syntax ((helper (syntax-rules () ((_ x) (%l 'sibling x)))) (use (syntax-rules () ((_ y) (helper y))))) (%l (use U1) U2))", "1", "2", "((h 1) 2)"),
    ("letrec-syntax-sibling", "(letrec-syntax ((helper (syntax-rules () ((_ x) (%l 'sibling x)))) (use (syntax-rules () ((_ y) (helper y))))) (%l (use U1) U2))", "1", "2", "((sibling 1) 2)"),
    ("let-syntax-self", "(let-syntax ((helper (syntax-rules () ((_ x) (helper x))))) (%l (helper U1) U2))", "1", "2", "((h 1) 2)"),
    # identifiers supplied by the template of a macro-defining macro: free in one generated macro, a binder in its sibling
    ("with-x", "(%l (with-x g w (w (g))) (with-x g w (%l (g) (w (g)) (w (w (g))))) U1 U2)", "1", "2", "(outer-x (outer-x outer-x outer-x) 1 2)"),
    ("collector", "(%l (collect (U1 U2 U1) () ()) U2)", "1", "2", "((1 2 1) 2)"),
    ("else-lit-er", "(%l (else-lit-er else) (else-lit-er U1))", "1", "2", "(is-else not-else)"),
    # syntax-rules defined where the user's variables are visible, with compound ellipsis templates: the code the expander generates
    # for them (its own map/append/cons... calls) must not be captured by a user variable of that name
    ("let-syntax-ellipsis", "(let-syntax ((pairs (syntax-rules () ((_ (p q) ...) (%l (%l q p) ... U2))))) (pairs (1 U1) (3 4)))", "7", "2", "((7 1) (4 3) 2)"),
    ("let-syntax-ellipsis2", "(let-syntax ((rows (syntax-rules () ((_ (p q ...) ...) (%l (%l p (%l q ...)) ... U2))))) (rows (1 U1 5) (3)))", "7", "2", "((1 (7 5)) (3 ()) 2)"),
    ("letrec-syntax-ellipsis", "(letrec-syntax ((alist (syntax-rules () ((_ (p q) ... last) (%l (%l 'p q) ... 'last U2))))) (alist (k1 U1) (k2 9) end))", "7", "2", "((k1 7) (k2 9) end 2)"),
    ("let-syntax-vector-ellipsis", "(let-syntax ((vec (syntax-rules () ((_ #(p q) ...) (%l (%l q p) ... U2))))) (vec #(1 U1) #(3 4)))", "7", "2", "((7 1) (4 3) 2)"),
]

# Forward references: a macro whose template mentions a global that is only defined AFTER the use site has been compiled.  The
# inserted identifier must still denote that (future) global, not a local variable of the macro user with the same name.
# (kind, definition of the macro with HELPER standing for the inserted identifier)
FORWARD_MACROS = [
    ("sr", "(define-syntax MAC (syntax-rules () ((_ x) (HELPER x))))"),
    ("er", "(define-syntax MAC (er-macro-transformer (lambda (form rename compare) (list (rename 'HELPER) (cadr form)))))"),
    ("sc", "(define-syntax MAC (sc-macro-transformer (lambda (form env) (list 'HELPER (make-syntactic-closure env '() (cadr form))))))"),
    ("sr-value", "(define-syntax MAC (syntax-rules () ((_ x) (%l HELPER x))))"),
]
FORWARD_SITES = [("params", "(define (USER U1 U2) BODY)"), ("let", "(define (USER a1 a2) (let ((U1 a1) (U2 a2)) BODY))"),
                 ("inner-lambda", "(define (USER a1 a2) ((lambda (U1) ((lambda (U2) BODY) a2)) a1))")]


def gen_forward(i):
    n = 0
    for kind, mdef in FORWARD_MACROS:
        for sname, site in FORWARD_SITES:
            for var, target in [(None, None), (1, "HELPER"), (2, "HELPER"), (1, "zz1"), (2, "x"), (1, "list"), (2, "MAC")]:
                n += 1
                mac, helper, user = "fwd-mac-%d" % n, "fwd-helper-%d" % n, "fwd-user-%d" % n
                n1, n2 = "u1", "u2"
                t = {"HELPER": helper, "MAC": mac}.get(target, target)
                if var == 1:
                    n1 = t
                elif var == 2:
                    n2 = t
                if var and target == "MAC":
                    continue       # a local named like the keyword would shadow the keyword in the body: not a renaming of user code only
                body = "(%%l (%s U1) U2)" % mac
                top = mdef.replace("MAC", mac).replace("HELPER", helper) + "\n"
                top += site.replace("USER", user).replace("BODY", body).replace("U1", n1).replace("U2", n2) + "\n"
                if kind == "sr-value":
                    top += "(define %s 'fv)\n" % helper
                    want = "((fv 1) 2)"
                else:
                    top += "(define (%s x) (%%l 'fh x))\n" % helper
                    want = "((fh 1) 2)"
                yield (i, "forward-" + kind, sname, var, t, "(%s 1 2)" % user, want, top)
                i += 1


SITES = {
    "let": "(let ((U1 I1) (U2 I2)) BODY)",
    "lambda": "((lambda (U1 U2) BODY) I1 I2)",
    "idefine": "(let () (define U1 I1) (define U2 I2) BODY)",
    "named-let": "(let lp%% ((U1 I1) (U2 I2)) BODY)",
    "do": "(do ((U1 I1) (U2 I2)) (#t BODY))",
    "let*-inner": "(let* ((U1 I1)) (let ((U2 I2)) BODY))",
}

FRESH = ["zz1", "zz2"]
TEMPLATE_IDS = ["tmp", "t", "loop", "i", "helper", "name", "val", "e", "r", "c", "f", "x", "a", "b", "v", "n", "body", "rest", "from",
                "getk", "dup", "cnt", "args", "form", "rename", "compare", "env"]
KEYWORDS = ["if", "let", "let*", "lambda", "define", "set!", "begin", "quote", "cond", "else", "=>", "and", "or", "do", "when",
            "unless", "case", "quasiquote", "unquote", "define-syntax", "syntax-rules", "letrec", "_", "..."]
PROCS = ["list", "car", "cdr", "cons", "+", "<", "not", "eq?", "vector", "null?", "map", "display", "write"]
TARGETS = FRESH + TEMPLATE_IDS + KEYWORDS + PROCS

IDENT = re.compile(r"[^\s()'`,\"]+")


def instantiate(tmpl, site, n1, n2):
    name, body, i1, i2, want = tmpl
    s = SITES[site].replace("BODY", body).replace("I1", i1).replace("I2", i2)
    return s.replace("U1", n1).replace("U2", n2)


def allowed(tmpl, site, target, other):
    """the target name must not occur in the user code other than as the renamed variable"""
    name, body, i1, i2, want = tmpl
    text = SITES[site].replace("BODY", body).replace("I1", i1).replace("I2", i2)
    idents = set(IDENT.findall(text.replace("U1", " ").replace("U2", " ")))
    if "'" in text:
        idents.add("quote")          # 'x is (quote x)
    if target in idents or target == other:
        return False
    if target in ("_", "..."):
        # binding the ellipsis or underscore is legal but changes how *user-written* patterns read; our user code has
        # patterns only in let-syntax/letrec-syntax/def-const templates, which are excluded by the identifier test above
        return True
    if site == "idefine" and target in ("define", "begin", "define-syntax", "let", "lambda"):
        return False      # shadowing a keyword needed to classify forms of the same body is an error in R7RS
    return True


def gen():
    i = 0
    for tmpl in TEMPLATES:
        for site in SITES:
            base = (i, tmpl[0], site, None, None, instantiate(tmpl, site, "u1", "u2"), tmpl[4])
            i += 1
            yield base
            for var in (1, 2):
                for t in TARGETS:
                    if not allowed(tmpl, site, t, "u2" if var == 1 else "u1"):
                        continue
                    n1, n2 = (t, "u2") if var == 1 else ("u1", t)
                    yield (i, tmpl[0], site, var, t, instantiate(tmpl, site, n1, n2), tmpl[4])
                    i += 1
            # both variables renamed at once (thorough would take all pairs; a fixed set of clashing pairs here)
            for t1, t2 in [("tmp", "t"), ("if", "let"), ("list", "cons"), ("loop", "i"), ("helper", "tmp"), ("else", "=>")]:
                if allowed(tmpl, site, t1, t2) and allowed(tmpl, site, t2, t1):
                    yield (i, tmpl[0], site, 3, t1 + "," + t2, instantiate(tmpl, site, t1, t2), tmpl[4])
                    i += 1
    for p in gen_forward(i):
        yield p


def run_job(arg):
    jobno, progs = arg
    d = common.scratch_dir("c07")
    path = os.path.join(d, "job.scm")
    common.write_file(path, "".join((p[7] if len(p) > 7 else "") + "(run-case %d (lambda () %s))\n" % (p[0], p[5]) for p in progs))
    r = common.evalbatch("opt", [path], preludes=[PRE], timeout=600, cwd=d)
    got = common.parse_tagged(r.out)
    excs = [l for l in r.out.split("\n") if l.startswith(";;EXC") or l.startswith(";;READ-EXC")]
    bad = []
    for p in progs:
        g = got.get(p[0])
        if g is None or g.strip() != p[6]:
            bad.append((p, g))
    import shutil
    shutil.rmtree(d, ignore_errors=True)
    return jobno, len(progs), bad, excs[:5], (r.rc != 0 or r.timed_out), r.out[-300:]


def main(tier):
    chk = Check("C07", "exploration", tier, quick_s=170, thorough_s=1500)
    chk.clean_replays()
    chk.rule = ("%d macro use templates (syntax-rules, er-, sc-, rsc-macro-transformer, let-syntax, letrec-syntax, macro-defining "
                "macro) x %d binding forms x {first, second, both} user variable x every admissible target of %d renaming targets; "
                "distinct_nontrivial = renamed programs (target is a keyword, a standard procedure or a template identifier)") % (
                    len(TEMPLATES), len(SITES), len(TARGETS))
    chk.assumptions = ["a target is skipped when the user code itself mentions that identifier (R7RS lets a local binding change how user code "
                       "reads), or when it would shadow a keyword needed to classify the definitions of the same body",
                       "expected values of the un-renamed programs are written by hand from the macro definitions"]
    build.build_variant("opt")
    progs = list(gen())
    per = 400
    jobs = [(j, progs[lo:lo + per]) for j, lo in enumerate(range(0, len(progs), per))]
    log("C07: %d programs in %d jobs" % (len(progs), len(jobs)))
    with Pool(common.NCPU) as pool:
        for jobno, n, bad, excs, crashed, tail in pool.imap_unordered(run_job, jobs):
            chk.count(n, outcome="same")
            for p, g in bad:
                i, tname, site, var, target, text, want = p[:7]
                if len(p) > 7:
                    text = p[7] + text
                chk.count(0, outcome="differs")
                chk.violation({"op": "%s:%s" % (tname, target), "template": tname, "site": site, "var": var, "target": target, "got": g, "want": want},
                              "macro %s at a %s site, variable %s renamed to %s: printed %r, expected %r :: %s" % (
                                  tname, site, var, target, g, want, text[:300]),
                              open(PRE).read() + "\n" + (p[7] if len(p) > 7 else "") + "(run-case 0 (lambda () %s))\n" % p[5])
            if crashed:
                chk.violation({"op": "crash", "job": jobno}, "batch %d crashed: %s %s" % (jobno, excs, tail))
    chk.nontrivial_n += sum(1 for p in progs if p[3] is not None and p[4] not in FRESH)
    for p in progs[:: max(1, len(progs) // 6)][:6]:
        chk.sample({"template": p[1], "site": p[2], "renamed_to": p[4], "program": p[5][:200]})
    chk.cov["programs"] = len(progs)
    chk.cov["targets"] = TARGETS
    common.cleanup_scratch()
    return chk.finish()
