"""Generic 'one line per case' batch job: a property module provides gen_job(job) -> (scheme_text, cases) where
cases is a list of (descriptor, expected_line | None); this runs the text once and compares line by line."""
import os, shutil, importlib
from . import common


def run_table_job(arg):
    variant, modname, job, opts = arg
    mod = importlib.import_module(modname)
    txt, cases = mod.gen_job(job)
    d = common.scratch_dir("tj")
    path = os.path.join(d, "job.scm")
    common.write_file(path, txt)
    res = common.evalbatch(variant, [path], timeout=opts.get("timeout", 900), cwd=d, env=opts.get("env"),
                           lang=opts.get("lang"), heap=opts.get("heap"))
    body, extra = [], []
    for l in res.out.split("\n"):
        if l.startswith(";;STATS"):
            break
        if l.startswith("!"):
            extra.append((len(body) - 1, l))
            continue
        body.append(l)
    while body and body[-1] == "":
        body.pop()
    mism, outcomes = [], {}
    n = min(len(body), len(cases))
    nontrivial = 0
    for i in range(n):
        desc, want = cases[i]
        if want is None:
            continue
        key = mod.outcome_key(desc, want) if hasattr(mod, "outcome_key") else want[:12]
        outcomes[key] = outcomes.get(key, 0) + 1
        if body[i] != want:
            mism.append((desc, want, body[i]))
    for idx, l in extra:
        if 0 <= idx < len(cases):
            mism.append((cases[idx][0], "no side effect on operands", l))
    crash = None
    if len(body) != len(cases) or res.rc != 0 or "AddressSanitizer" in res.out:
        at = cases[n][0] if n < len(cases) else None
        crash = (res.rc, len(body), len(cases), at, res.out[-2500:])
    shutil.rmtree(d, ignore_errors=True)
    return job[0:2], len(cases), mism[:200], len(mism), outcomes, crash, (cases[0][0] if cases else None)
