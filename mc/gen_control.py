"""Control scripts for C06: every nesting of dynamic-wind / parameterize / with-exception-handler / guard with
continuation captures and (bounded) invocations, raises of both kinds and parameter reads, up to a node bound.

A script is a sequence of nodes; inner nodes hold a sequence.  It is rendered as the body of one thunk, so no
continuation spans a top-level form; after the script body a fixed epilogue re-enters captured continuations
from outside every extent (generator-style), bounded by per-continuation counters.
"""
import itertools

PRELUDE = """
(define out '())
(define (obs x) (set! out (cons x out)) x)
(define (clean e)
  (cond ((symbol? e) e) ((number? e) e) ((boolean? e) e) ((null? e) e)
        ((pair? e) (cons (clean (car e)) (clean (cdr e))))
        (else 'obj)))
(define p (make-parameter 'p0))
(define q (make-parameter 1 (lambda (x) (if (number? x) (* x 10) x))))
(define k0 #f) (define k1 #f) (define n0 0) (define n1 0)
(define (run-case n thunk)
  (set! out '()) (set! k0 #f) (set! k1 #f) (set! n0 0) (set! n1 0)
  (let ((r (guard (e (#t (list 'ERR (clean e)))) (thunk))))
    (display "#") (display n) (display " ")
    (write (clean r)) (display " | ") (write (reverse out)) (newline)))
"""

LIMIT = 2

LEAVES = ["emit", "cap0", "inv0", "cap1", "inv1", "raise", "raisec", "readp", "readq"]
INNERS = ["dw", "dw-raise", "param", "paramq", "h-ret", "h-esc0", "h-reraise", "g-match", "g-nomatch"]


LEAVES_SMALL = ["emit", "cap0", "inv0", "raise", "raisec", "readp"]
INNERS_SMALL = ["dw", "param", "h-ret", "g-match"]
_memo = {}


def enum_seqs(n, small=False):
    """all sequences of nodes with exactly n nodes in total; a node is a str (leaf) or (kind, seq)"""
    key = (n, small)
    if key in _memo:
        return _memo[key]
    if n == 0:
        _memo[key] = [()]
        return _memo[key]
    leaves, inners = (LEAVES_SMALL, INNERS_SMALL) if small else (LEAVES, INNERS)
    res = []
    # first node is a leaf
    for rest in enum_seqs(n - 1, small):
        for l in leaves:
            res.append((l,) + rest)
    # first node is an inner node with k nodes inside
    for k in range(0, n):
        for inside in enum_seqs(k, small):
            for rest in enum_seqs(n - 1 - k, small):
                for kind in inners:
                    res.append(((kind, inside),) + rest)
    _memo[key] = res
    return res


def flat(seq):
    for nd in seq:
        if isinstance(nd, tuple):
            yield nd[0]
            yield from flat(nd[1])
        else:
            yield nd


def depth(seq, kinds=("dw", "dw-raise")):
    d = 0
    for nd in seq:
        if isinstance(nd, tuple):
            d = max(d, (1 if nd[0] in kinds else 0) + depth(nd[1], kinds))
    return d


def valid(seq):
    names = list(flat(seq))
    c = {x: names.count(x) for x in set(names)}
    if c.get("cap0", 0) > 1 or c.get("cap1", 0) > 1:
        return False
    if (c.get("inv0") or c.get("h-esc0")) and not c.get("cap0"):
        return False
    if c.get("inv1") and not c.get("cap1"):
        return False
    if c.get("cap1") and not c.get("cap0"):
        return False          # symmetric to a script using only k0
    if (c.get("readq") and not c.get("paramq")) or (c.get("readp") and not c.get("param")):
        return False          # reading a parameter nobody rebinds is covered by smaller scripts
    if depth(seq) > 4:
        return False
    # an empty inner node is only interesting for dw (thunks still run)
    return _no_empty(seq)


def _no_empty(seq):
    for nd in seq:
        if isinstance(nd, tuple):
            if not nd[1] and nd[0] not in ("dw", "dw-raise"):
                return False
            if not _no_empty(nd[1]):
                return False
    return True


class Renderer:
    def __init__(self):
        self.n = 0

    def fresh(self):
        self.n += 1
        return self.n

    def seq(self, seq):
        if not seq:
            return "'empty"
        return " ".join(self.node(nd) for nd in seq)

    def node(self, nd):
        i = self.fresh()
        if isinstance(nd, str):
            if nd == "emit":
                return "(obs 'e%d)" % i
            if nd in ("cap0", "cap1"):
                j = nd[-1]
                return "(obs (list 'c%s (clean (call/cc (lambda (k) (set! k%s k) 'first)))))" % (j, j)
            if nd in ("inv0", "inv1"):
                j = nd[-1]
                return "(if (and k%s (< n%s %d)) (begin (set! n%s (+ n%s 1)) (k%s 'again%d)))" % (j, j, LIMIT, j, j, j, i)
            if nd == "raise":
                return "(raise 'r%d)" % i
            if nd == "raisec":
                return "(obs (list 'rc%d (clean (raise-continuable 'c%d))))" % (i, i)
            if nd == "readp":
                return "(obs (list 'p (p)))"
            if nd == "readq":
                return "(obs (list 'q (q)))"
            raise ValueError(nd)
        kind, inside = nd
        body = self.seq(inside)
        if kind == "dw":
            # the thunks also record the parameter value they see: the dynamic environment of the dynamic-wind call
            return "(dynamic-wind (lambda () (obs (list 'in%d (p)))) (lambda () %s) (lambda () (obs (list 'out%d (p)))))" % (i, body, i)
        if kind == "dw-raise":
            # the after thunk raises: during an escape this must not re-run the thunk
            return "(dynamic-wind (lambda () (obs 'in%d)) (lambda () %s) (lambda () (obs 'out%d) (raise 'after%d)))" % (i, body, i, i)
        if kind == "param":
            return "(parameterize ((p 'p%d)) %s)" % (i, body)
        if kind == "paramq":
            return "(parameterize ((q %d)) %s)" % (i, body)
        if kind == "h-ret":
            return "(with-exception-handler (lambda (e) (obs (list 'h%d (clean e) (p))) 'hv%d) (lambda () %s))" % (i, i, body)
        if kind == "h-esc0":
            return "(with-exception-handler (lambda (e) (obs (list 'h%d (clean e))) (if (and k0 (< n0 %d)) (begin (set! n0 (+ n0 1)) (k0 'esc%d)) 'noesc)) (lambda () %s))" % (i, LIMIT, i, body)
        if kind == "h-reraise":
            return "(with-exception-handler (lambda (e) (obs (list 'h%d (clean e))) (raise (list 're%d (clean e)))) (lambda () %s))" % (i, i, body)
        if kind == "g-match":
            return "(guard (e ((symbol? e) (obs (list 'g%d e (p))) 'gv%d)) %s)" % (i, i, body)
        if kind == "g-nomatch":
            return "(guard (e ((string? e) (obs 'never) 'no)) %s)" % body
        raise ValueError(kind)


EPILOGUE = ("(obs 'end) (if (and k0 (< n0 %d)) (begin (set! n0 (+ n0 1)) (k0 'reenter0))) "
            "(if (and k1 (< n1 %d)) (begin (set! n1 (+ n1 1)) (k1 'reenter1))) 'done" % (LIMIT, LIMIT))


def render(seq):
    r = Renderer()
    names = set(flat(seq))
    epi = EPILOGUE if ("cap0" in names or "cap1" in names) else "'done"
    return "(begin %s %s)" % (r.seq(seq), epi)


def scripts(max_nodes, extra_small=0):
    """all valid scripts with <= max_nodes nodes over the full alphabet, then those with max_nodes+1 .. max_nodes+extra_small
    nodes over the reduced alphabet"""
    for n in range(1, max_nodes + 1):
        for s in enum_seqs(n):
            if valid(s):
                yield n, s
    for n in range(max_nodes + 1, max_nodes + extra_small + 1):
        for s in enum_seqs(n, True):
            if valid(s):
                yield n, s
