#!/bin/sh
# Guard-off baseline: the repository's own CMake build + ctest, in a scratch copy outside /repo and /verif.
# usage: mc/baseline.sh [repo-dir]    prints the ctest summary; exit status = ctest's.
set -e
REPO=${1:-/repo}
T=$(mktemp -d /var/tmp/chibi-baseline.XXXXXX)
trap 'rm -rf "$T"' EXIT
mkdir -p "$T/src"
(cd "$REPO" && git ls-files -z --cached --others --exclude-standard | grep -zv '^_build/' | xargs -0 cp --parents -t "$T/src") 
cd "$T/src"
cmake -G Ninja -B "$T/src/_build" -S "$T/src" >"$T/cmake.log" 2>&1 || { tail -30 "$T/cmake.log"; exit 2; }
cmake --build "$T/src/_build" >"$T/build.log" 2>&1 || { tail -30 "$T/build.log"; exit 2; }
ctest --test-dir "$T/src/_build" -j8 --timeout 900 2>&1 | tail -15
