"""Reference model for C15(b): a hash table is a finite map keyed by the *abstract* key.

Boring on purpose: a Python dict from key class (an int: the smallest index of the concrete keys that are
equivalent under the table's equivalence, decided by the abstract identity of the values in the check's
catalogue, never by the implementation's predicates) to a value.  Filler entries (the pre-filled part that
no operation of the alphabet addresses individually) are represented by their count only.

The same model serves the SRFI 69 and the SRFI 125 names; `apply(op, j)` returns the token the driver
must print for the return value ("_" = unspecified by the SRFI, nothing asserted; "E" = an error must be
signalled).  Every rule cites the SRFI sentence it comes from.

`buckets` follows the growth rule of the implementation (read from lib/srfi/69/hash.c:
grow = double when size*3 > buckets>>2 at the insertion of a new key, starting from 23).  It is used ONLY
to classify states for de-duplication and to choose the pre-fill sizes; no expected value depends on it.
"""

INITIAL_BUCKETS = 23


def grows(size, buckets):
    return size * 3 > (buckets >> 2)


def buckets_after_inserts(n, buckets=INITIAL_BUCKETS, size=0):
    for _ in range(n):
        if grows(size, buckets):
            buckets *= 2
        size += 1
    return buckets


def growth_thresholds(limit=512):
    """sizes s such that inserting a new key into a table holding s entries doubles the bucket vector"""
    out = []
    b, s = INITIAL_BUCKETS, 0
    while s <= limit:
        if grows(s, b):
            out.append(s)
            b *= 2
        s += 1
    return out


# values used by the alphabet
SET_VALUE = lambda j: j + 1       # hash-table-set! k_j stores j+1
UPD = lambda v: v + 10            # the update function
UPD_DEFAULT = 0                   # value produced by the failure thunk / default of update!
INTERN_VALUE = 5
OTHER = ((1, 7), (5, 8))          # the second table of merge!/union!/...: key index -> value


class Table:
    __slots__ = ("cls", "d", "fill", "buckets", "olds")

    def __init__(self, cls, n0, d=None, fill=None, buckets=None):
        self.cls = cls                      # tuple: key index -> class
        self.d = dict(d) if d else {}       # class -> value
        self.fill = n0 if fill is None else fill
        self.buckets = buckets_after_inserts(n0) if buckets is None else buckets
        self.olds = []                      # snapshots taken by copy: (d, fill)

    def clone(self):
        t = Table(self.cls, 0, self.d, self.fill, self.buckets)
        t.olds = list(self.olds)
        return t

    def key(self):
        """state identity for de-duplication: abstract contents + entry count + bucket count class"""
        return (tuple(sorted(self.d.items())), self.fill, self.buckets, len(self.olds))

    @property
    def size(self):
        return self.fill + len(self.d)

    def _insert(self, c, v):
        if c not in self.d:
            if grows(self.size, self.buckets):
                self.buckets *= 2
        self.d[c] = v

    def other(self):
        o = {}
        for j, v in OTHER:
            o[self.cls[j]] = v          # later pairs overwrite earlier ones, like successive set!
        return o

    # ------------------------------------------------------------------ operations
    def apply(self, op, j=0):
        c = self.cls[j]
        d = self.d
        if op == "set":            # SRFI 69/125 hash-table-set!: "sets the value associated to key"; result unspecified
            self._insert(c, SET_VALUE(j))
            return "_"
        if op == "set2":           # SRFI 125: (hash-table-set! ht k0 v0 k1 v1) "repeatedly mutates ... in order"
            self._insert(self.cls[0], 1)
            self._insert(self.cls[1], 2)
            return "_"
        if op == "ref":            # hash-table-ref with a thunk returning nf
            return str(d[c]) if c in d else "nf"
        if op == "refs":           # SRFI 125 hash-table-ref with failure and success (success = add 1)
            return str(d[c] + 1) if c in d else "nf"
        if op == "refx":           # no thunk: "an error is signalled" when no association
            return str(d[c]) if c in d else "E"
        if op == "refd":
            return str(d[c]) if c in d else "d"
        if op == "has":
            return "#t" if c in d else "#f"
        if op == "del":            # SRFI 69: result undefined
            d.pop(c, None)
            return "_"
        if op == "delc":           # SRFI 125: "returns the number of keys that had associations"
            n = 1 if c in d else 0
            d.pop(c, None)
            return str(n)
        if op == "del2":           # SRFI 125 (hash-table-delete! ht k0 k2)
            n = 0
            for jj in (0, 2):
                if self.cls[jj] in d:
                    n += 1
                    del d[self.cls[jj]]
            return str(n)
        if op in ("upd", "upds"):  # == (set! t k (f (ref t k thunk [success])));  success = identity here
            self._insert(c, UPD(d[c] if c in d else UPD_DEFAULT))
            return "_"
        if op == "updx":           # same equivalence without thunk: ref signals the error before set! happens
            if c not in d:
                return "E"
            d[c] = UPD(d[c])
            return "_"
        if op == "updd":           # == (set! t k (f (ref/default t k default)))
            self._insert(c, UPD(d[c] if c in d else UPD_DEFAULT))
            return "_"
        if op == "updz":           # on K4; thunk reads (hash-table-size t): evaluated by hash-table-ref, i.e. before the set!
            c = self.cls[4]
            self._insert(c, UPD(d[c] if c in d else self.size))
            return "_"
        if op == "intern":         # SRFI 125 hash-table-intern!
            if c in d:
                return str(d[c])
            self._insert(c, INTERN_VALUE)
            return str(INTERN_VALUE)
        if op == "size":
            return str(self.size)
        if op == "empty":
            return "#t" if self.size == 0 else "#f"
        if op == "copy":           # continue on the copy; the original must stay as it was (checked at the end)
            self.olds.append((dict(d), self.fill))
            self.buckets = buckets_after_inserts(self.size)
            return "_"
        if op in ("merge", "union"):   # SRFI 125 union!: keys already in ht1 keep ht1's value.  SRFI 69 merge!
            for oc, ov in self.other().items():   # leaves the conflict open; SRFI 125 declares merge! = union!
                if oc not in d:
                    self._insert(oc, ov)
            return "_"
        if op == "inter":          # SRFI 125: deletes the associations of ht1 whose keys are not in ht2
            o = self.other()
            for k in list(d):
                if k not in o:
                    del d[k]
            self.fill = 0
            return "_"
        if op == "diff":           # deletes the associations of ht1 whose keys are also in ht2
            for k in self.other():
                d.pop(k, None)
            return "_"
        if op == "xor":
            o = self.other()
            common = [k for k in o if k in d]
            for k, v in o.items():
                if k not in d:
                    self._insert(k, v)
            for k in common:
                del d[k]
            return "_"
        if op == "clear":
            d.clear()
            self.fill = 0
            return "_"
        if op == "mapx":           # hash-table-map! with (lambda (k v) (if (< v 1000) (+ v 100) v))
            for k in d:
                d[k] += 100
            return "_"
        if op == "prune":          # hash-table-prune! with (lambda (k v) (and (< v 1000) (odd? v)))
            for k in list(d):
                if d[k] % 2 == 1:
                    del d[k]
            return "_"
        if op == "count":
            return str(len(d))
        if op == "find":           # first value >= 10 among the addressed keys, else none
            return "found" if any(v >= 10 for v in d.values()) else "none"
        if op in ("alist", "walk", "keys", "foldl", "foreach", "maplist", "copyi"):
            return self.dump()
        if op in ("fold", "fold125", "fold125old", "vals"):
            return str(sum(d.values()) + self.fill_sum())
        if op == "entries":
            return "%d/%d" % (self.size, self.size)
        if op == "eqcopy":         # hash-table=? against a fresh copy
            return "#t"
        if op == "eqother":        # hash-table=? against the second table
            return "#t" if (self.fill == 0 and d == self.other()) else "#f"
        if op == "ecopy":          # empty copy keeps the equivalence: set k0, look up k1
            return "0," + ("1" if self.cls[0] == self.cls[1] else "d")
        raise ValueError(op)

    def fill_sum(self):
        return sum(range(1000, 1000 + self.fill))

    def dump(self, d=None, fill=None):
        d = self.d if d is None else d
        fill = self.fill if fill is None else fill
        return "".join("%d:%d;" % (c, v) for c, v in sorted(d.items())) + "F%d:%d" % (
            fill, sum(range(1000, 1000 + fill)))

    def olds_dump(self):
        return "".join("/" + self.dump(d, f) for d, f in self.olds)
