"""Reference semantics for the SRE subset of property C20 (SRFI 115).

Surface terms are nested tuples:

    ("lit", "ab")          a string literal (matches exactly that text; "" matches the empty string)
    ("any",)               any character (newline included; `nonl` is the one that excludes it)
    ("range", "a", "b")    (/ "ab")
    ("not", "a")           (~ "a")   complement of a character set given as a string of members
    ("bol",) ("eol",)      beginning / end of line
    ("seq", x, y, ...)     (: x y ...)
    ("or", x, y, ...)      (or x y ...)
    ("*", x) ("+", x) ("?", x)
    ("=", n, x)            (= n x)
    (">=", n, x)           (>= n x)       n or more repetitions
    ("**", m, n, x)        (** m n x)
    ("$", x)               numbered submatch
    ("->", name, x)        named (and numbered) submatch
    ("nocase", x)          (w/nocase x)
    ("case", x)            (w/case x)     case-sensitive again (the default), also inside w/nocase

The meaning of a term inside a fixed subject string s is a relation on positions 0..len(s):
(i, j) is in R(t) when s[i:j] matches t *at that place in s* -- the place matters only for
bol (i == 0 or s[i-1] == newline) and eol (i == len(s) or s[i] == newline), SRFI 115 "bol"/"eol".
seq is relational composition, or is union, * is the reflexive transitive closure.
regexp-matches?  <=>  (0, len s) in R;   regexp-search finds something  <=>  R is not empty.

Two independent deciders are provided:

  * `Deriv`  -- Brzozowski derivatives over a small core (empty, eps, char class, bol, eol, seq, alt,
               star).  Boundary atoms are handled by passing, with every step, whether the current
               position is at a line start and whether it is at a line end.
  * `ends()` -- a direct set-of-positions evaluation of the surface term (no desugaring, no
               derivatives): ends(t, s, i) = { j : (i, j) in R(t) }.

plus `to_pyre()` which translates to Python `re` (MULTILINE|DOTALL) as a third opinion.
`mc/props/c20.py` requires all three to agree on every enumerated case before trusting them.

Case folding (w/nocase): a literal character matches any character with the same simple case
folding; for a character class the expansion is applied to the positive members (SRFI 115: "In a
compound cset-sre the expansion is applied at the terminal level"), so (w/nocase (~ "a")) excludes
both a and A.
"""

NL = "\n"


# --------------------------------------------------------------------------- surface helpers

def to_scheme(t):
    """Scheme datum text of a surface term."""
    k = t[0]
    if k == "lit":
        return '"' + t[1].replace("\\", "\\\\").replace('"', '\\"').replace("\n", "\\n") + '"'
    if k == "any":
        return "any"
    if k == "bol":
        return "bol"
    if k == "eol":
        return "eol"
    if k == "range":
        return '(/ "%s%s")' % (t[1], t[2])
    if k == "not":
        return '(~ "%s")' % t[1]
    if k == "seq":
        return "(: " + " ".join(to_scheme(x) for x in t[1:]) + ")"
    if k == "or":
        return "(or " + " ".join(to_scheme(x) for x in t[1:]) + ")"
    if k in ("*", "+", "?", "$"):
        return "(%s %s)" % (k, to_scheme(t[1]))
    if k == "=":
        return "(= %d %s)" % (t[1], to_scheme(t[2]))
    if k == ">=":
        return "(>= %d %s)" % (t[1], to_scheme(t[2]))
    if k == "**":
        return "(** %d %d %s)" % (t[1], t[2], to_scheme(t[3]))
    if k == "->":
        return "(-> %s %s)" % (t[1], to_scheme(t[2]))
    if k == "nocase":
        return "(w/nocase %s)" % to_scheme(t[1])
    if k == "case":
        return "(w/case %s)" % to_scheme(t[1])
    raise ValueError(t)


def children(t):
    k = t[0]
    if k in ("seq", "or"):
        return list(t[1:])
    if k in ("*", "+", "?", "$", "nocase", "case"):
        return [t[1]]
    if k in ("=", "->", ">="):
        return [t[2]]
    if k == "**":
        return [t[3]]
    return []


def depth(t):
    cs = children(t)
    return 0 if not cs else 1 + max(depth(c) for c in cs)


def submatches(t, ci=False):
    """[(body, ci, name-or-None)] for submatch 1, 2, ... in SRFI 115 order (left parenthesis order).
    `ci` tells whether the body stands under w/nocase."""
    out = []

    def walk(t, ci):
        k = t[0]
        if k == "$":
            out.append((t[1], ci, None))
            walk(t[1], ci)
        elif k == "->":
            out.append((t[2], ci, t[1]))
            walk(t[2], ci)
        elif k == "nocase":
            walk(t[1], True)
        elif k == "case":
            walk(t[1], False)
        else:
            for c in children(t):
                walk(c, ci)
    walk(t, ci)
    return out


def has_anchor(t):
    return t[0] in ("bol", "eol") or any(has_anchor(c) for c in children(t))


def has_nocase(t):
    return t[0] == "nocase" or any(has_nocase(c) for c in children(t))


def case_variants(c):
    """characters with the same simple case folding as c (single-character mappings only)"""
    out = {c}
    for f in (c.lower(), c.upper()):
        if len(f) == 1:
            out.add(f)
            for g in (f.lower(), f.upper()):
                if len(g) == 1:
                    out.add(g)
    return frozenset(out)


def charclass(t, ci):
    """(negated, frozenset of members) for a one-character atom, or None"""
    k = t[0]
    if k == "any":
        return (True, frozenset())
    if k == "range":
        mem = frozenset(chr(x) for x in range(ord(t[1]), ord(t[2]) + 1))
        neg = False
    elif k == "not":
        mem = frozenset(t[1])
        neg = True
    else:
        return None
    if ci:
        mem = frozenset(v for c in mem for v in case_variants(c))
    return (neg, mem)


def at_bol(s, i):
    return i == 0 or s[i - 1] == NL


def at_eol(s, i):
    return i == len(s) or s[i] == NL


# --------------------------------------------------------------------------- decider 2: sets of positions

def ends(t, s, i, ci=False):
    """{ j : s[i:j] matches t at that place in s }  -- direct evaluation of the surface term."""
    k = t[0]
    n = len(s)
    if k == "lit":
        j = i
        for c in t[1]:
            if j < n and (s[j] in case_variants(c) if ci else s[j] == c):
                j += 1
            else:
                return frozenset()
        return frozenset([j])
    if k == "bol":
        return frozenset([i]) if at_bol(s, i) else frozenset()
    if k == "eol":
        return frozenset([i]) if at_eol(s, i) else frozenset()
    cc = charclass(t, ci)
    if cc is not None:
        if i < n and ((s[i] in cc[1]) != cc[0]):
            return frozenset([i + 1])
        return frozenset()
    if k == "seq":
        cur = frozenset([i])
        for x in t[1:]:
            cur = frozenset(j2 for j in cur for j2 in ends(x, s, j, ci))
        return cur
    if k == "or":
        return frozenset(j for x in t[1:] for j in ends(x, s, i, ci))
    if k in ("$",):
        return ends(t[1], s, i, ci)
    if k == "->":
        return ends(t[2], s, i, ci)
    if k == "nocase":
        return ends(t[1], s, i, True)
    if k == "case":
        return ends(t[1], s, i, False)
    if k == "?":
        return frozenset([i]) | ends(t[1], s, i, ci)
    if k in ("*", "+"):
        # closure under "one more iteration", starting from {i} (zero iterations) for *,
        # from the ends of one iteration for +
        reach = set([i]) if k == "*" else set(ends(t[1], s, i, ci))
        frontier = set(reach)
        while frontier:
            new = set()
            for j in frontier:
                for j2 in ends(t[1], s, j, ci):
                    if j2 not in reach:
                        reach.add(j2)
                        new.add(j2)
            frontier = new
        return frozenset(reach)
    if k == "=":
        return ends(("seq",) + (t[2],) * t[1], s, i, ci)
    if k == ">=":
        out = set()
        for j in ends(("seq",) + (t[2],) * t[1], s, i, ci):
            out |= ends(("*", t[2]), s, j, ci)
        return frozenset(out)
    if k == "**":
        lo, hi, x = t[1], t[2], t[3]
        cur = frozenset([i])
        out = set()
        for rep in range(hi + 1):
            if rep >= lo:
                out |= cur
            if rep < hi:
                cur = frozenset(j2 for j in cur for j2 in ends(x, s, j, ci))
        return frozenset(out)
    raise ValueError(t)


# --------------------------------------------------------------------------- decider 1: derivatives

class Node(object):
    """hash-consed core term; identity is equality"""
    __slots__ = ("tag", "a", "b", "uid")

    def __init__(self, tag, a, b, uid):
        self.tag, self.a, self.b, self.uid = tag, a, b, uid

    def __repr__(self):
        if self.tag == "cs":
            return "%s[%s]" % ("^" if self.a else "", "".join(sorted(self.b)))
        if self.tag in ("seq",):
            return "(%r %r)" % (self.a, self.b)
        if self.tag == "alt":
            return "(" + "|".join(repr(x) for x in self.a) + ")"
        if self.tag == "star":
            return "%r*" % (self.a,)
        return self.tag


_nodes = {}


def _mk(tag, a=None, b=None):
    key = (tag, a, b)
    nd = _nodes.get(key)
    if nd is None:
        nd = _nodes[key] = Node(tag, a, b, len(_nodes))
    return nd


EMPTY = _mk("empty")
EPS = _mk("eps")
BOL = _mk("bol")
EOL = _mk("eol")


def CS(neg, members):
    return _mk("cs", bool(neg), frozenset(members))


def SEQ(x, y):
    if x is EMPTY or y is EMPTY:
        return EMPTY
    if x is EPS:
        return y
    if y is EPS:
        return x
    if x.tag == "seq":                      # keep sequences right-nested
        return SEQ(x.a, SEQ(x.b, y))
    return _mk("seq", x, y)


def ALT(*xs):
    seen = {}
    for x in xs:
        if x.tag == "alt":
            for y in x.a:
                seen[y.uid] = y
        elif x is not EMPTY:
            seen[x.uid] = x
    if not seen:
        return EMPTY
    if len(seen) == 1:
        return next(iter(seen.values()))
    return _mk("alt", tuple(seen[u] for u in sorted(seen)))


def STAR(x):
    if x is EMPTY or x is EPS:
        return EPS
    if x.tag == "star":
        return x
    return _mk("star", x)


def core(t, ci=False):
    """surface term -> core term (submatch markers are transparent)"""
    k = t[0]
    if k == "lit":
        r = EPS
        for c in reversed(t[1]):
            r = SEQ(CS(False, case_variants(c) if ci else [c]), r)
        return r
    if k == "bol":
        return BOL
    if k == "eol":
        return EOL
    cc = charclass(t, ci)
    if cc is not None:
        return CS(*cc)
    if k == "seq":
        r = EPS
        for x in reversed(t[1:]):
            r = SEQ(core(x, ci), r)
        return r
    if k == "or":
        return ALT(*[core(x, ci) for x in t[1:]])
    if k == "$":
        return core(t[1], ci)
    if k == "->":
        return core(t[2], ci)
    if k == "nocase":
        return core(t[1], True)
    if k == "case":
        return core(t[1], False)
    if k == "*":
        return STAR(core(t[1], ci))
    if k == "+":
        x = core(t[1], ci)
        return SEQ(x, STAR(x))
    if k == "?":
        return ALT(core(t[1], ci), EPS)
    if k == "=":
        x = core(t[2], ci)
        r = EPS
        for _ in range(t[1]):
            r = SEQ(x, r)
        return r
    if k == ">=":
        x = core(t[2], ci)
        r = STAR(x)
        for _ in range(t[1]):
            r = SEQ(x, r)
        return r
    if k == "**":
        x = core(t[3], ci)
        opt = ALT(x, EPS)
        r = EPS
        for _ in range(t[2] - t[1]):
            r = SEQ(opt, r)
        for _ in range(t[1]):
            r = SEQ(x, r)
        return r
    raise ValueError(t)


_null = {}


def nullable(r, bol, eol):
    """does r match the empty string at a position that is (bol) at a line start / (eol) at a line end"""
    tag = r.tag
    if tag == "eps" or tag == "star":
        return True
    if tag == "empty" or tag == "cs":
        return False
    if tag == "bol":
        return bol
    if tag == "eol":
        return eol
    key = (r, bol, eol)
    v = _null.get(key)
    if v is None:
        if tag == "seq":
            v = nullable(r.a, bol, eol) and nullable(r.b, bol, eol)
        else:
            v = any(nullable(x, bol, eol) for x in r.a)
        _null[key] = v
    return v


_der = {}


def deriv(r, c, bol):
    """residual of r after consuming character c from a position that is (bol) at a line start.
    That position is at a line end exactly when c is a newline."""
    tag = r.tag
    if tag in ("empty", "eps", "bol", "eol"):
        return EMPTY
    key = (r, c, bol)
    v = _der.get(key)
    if v is not None:
        return v
    if tag == "cs":
        v = EPS if ((c in r.b) != r.a) else EMPTY
    elif tag == "seq":
        v = SEQ(deriv(r.a, c, bol), r.b)
        if nullable(r.a, bol, c == NL):
            v = ALT(v, deriv(r.b, c, bol))
    elif tag == "alt":
        v = ALT(*[deriv(x, c, bol) for x in r.a])
    else:  # star
        v = SEQ(deriv(r.a, c, bol), r)
    _der[key] = v
    return v


def reset_caches():
    """drop memo tables (terms stay interned); call between batches to bound memory"""
    _null.clear()
    _der.clear()


class Deriv(object):
    """derivative-based decider for one surface term"""

    def __init__(self, t, ci=False):
        self.term = t
        self.r = core(t, ci)

    def ends(self, s, i):
        """{ j : s[i:j] matches at that place in s }"""
        n = len(s)
        r = self.r
        out = []
        j = i
        while True:
            if nullable(r, at_bol(s, j), at_eol(s, j)):
                out.append(j)
            if j == n or r is EMPTY:
                break
            r = deriv(r, s[j], at_bol(s, j))
            j += 1
        return frozenset(out)

    def table(self, s):
        return [self.ends(s, i) for i in range(len(s) + 1)]

    def accepts(self, s, i=0, j=None):
        return (len(s) if j is None else j) in self.ends(s, i)

    def matches(self, s):
        return len(s) in self.ends(s, 0)

    def search(self, s):
        return any(self.ends(s, i) for i in range(len(s) + 1))


# --------------------------------------------------------------------------- third opinion: Python re

def _pyre_class(neg, mem):
    import re
    if not mem:
        return r"[\s\S]" if neg else r"[^\s\S]"
    return "[" + ("^" if neg else "") + "".join(re.escape(c) for c in sorted(mem)) + "]"


def to_pyre(t, ci=False):
    """Python `re` source (compile with re.MULTILINE | re.DOTALL).  Case folding is expanded here into
    explicit classes, so IGNORECASE is not used."""
    import re
    k = t[0]
    if k == "lit":
        return "(?:" + "".join(_pyre_class(False, case_variants(c)) if ci else re.escape(c) for c in t[1]) + ")"
    if k == "bol":
        return "^"
    if k == "eol":
        return "$"
    cc = charclass(t, ci)
    if cc is not None:
        return _pyre_class(*cc)
    if k == "seq":
        return "(?:" + "".join(to_pyre(x, ci) for x in t[1:]) + ")"
    if k == "or":
        return "(?:" + "|".join(to_pyre(x, ci) for x in t[1:]) + ")"
    if k == "$":
        return to_pyre(t[1], ci)
    if k == "->":
        return to_pyre(t[2], ci)
    if k == "nocase":
        return to_pyre(t[1], True)
    if k == "case":
        return to_pyre(t[1], False)
    if k in ("*", "+", "?"):
        return "(?:%s)%s" % (to_pyre(t[1], ci), k)
    if k == "=":
        return "(?:%s){%d}" % (to_pyre(t[2], ci), t[1])
    if k == ">=":
        return "(?:%s){%d,}" % (to_pyre(t[2], ci), t[1])
    if k == "**":
        return "(?:%s){%d,%d}" % (to_pyre(t[3], ci), t[1], t[2])
    raise ValueError(t)


# --------------------------------------------------------------------------- enumeration

ATOMS = [("lit", "a"), ("lit", "b"), ("any",), ("range", "a", "b"), ("not", "a"), ("lit", ""), ("bol",), ("eol",)]

UNARY = [lambda x: ("*", x), lambda x: ("+", x), lambda x: ("?", x), lambda x: ("=", 2, x),
         lambda x: ("**", 1, 2, x), lambda x: ("$", x), lambda x: ("->", "n", x), lambda x: ("nocase", x)]
BINARY = [lambda x, y: ("seq", x, y), lambda x, y: ("or", x, y)]


def unary_over(xs):
    for x in xs:
        for u in UNARY:
            yield u(x)


def binary_over(xs, ys):
    for x in xs:
        for y in ys:
            for b in BINARY:
                yield b(x, y)


def depth1(atoms=None):
    atoms = ATOMS if atoms is None else atoms
    return list(unary_over(atoms)) + list(binary_over(atoms, atoms))


def strings_upto(n, alphabet="ab\n"):
    out = [""]
    layer = [""]
    for _ in range(n):
        layer = [w + c for w in layer for c in alphabet]
        out += layer
    return out
