"""C18(a): sort procedures -- inputs, variants, the Scheme driver with a tiny independent checker, and the
independent Python re-check of every printed result.

Nothing here uses the sort code under test to decide anything: the expected order is produced by a
*counting sort over known key classes* (Scheme side) and by CPython's `sorted` (Python side).
"""
from fractions import Fraction

# ------------------------------------------------------------------ input families (key sequences)
FAMILIES = ["sorted", "reversed", "organ", "constant", "saw", "two", "mixed"]
MIXED_TXT = ["1", "1.0", "3/2", "(expt 2 70)", "-0.0", "0", "1.5", "(inexact (expt 2 70))"]
MIXED_VAL = [Fraction(1), Fraction(1), Fraction(3, 2), Fraction(2 ** 70), Fraction(0), Fraction(0), Fraction(3, 2),
             Fraction(2 ** 70)]
RAW_SMALL = ["0", "1", "1.0"]          # alphabet of the exhaustive raw-number sequences (1 and 1.0 are = but not eqv)


def popcount(i):
    return bin(i).count("1")


def family_index(f, n, i):
    """index/key of element i of family f at length n (mirrors the Scheme `fam-key`)"""
    if f == "sorted":
        return i
    if f == "reversed":
        return n - 1 - i
    if f == "organ":
        return min(i, n - 1 - i)
    if f == "constant":
        return 0
    if f == "saw":
        return i % 7
    if f == "two":
        return popcount(i) % 2
    if f == "mixed":
        return (i * 5 + i // 8) % 8
    raise ValueError(f)


# ------------------------------------------------------------------ the Scheme driver
DRIVER = r"""
(import (scheme base) (scheme write) (srfi 95) (prefix (srfi 132) s:))
;; ---------------------------------------------------------------- inputs
(define M (vector 1 1.0 3/2 (expt 2 70) -0.0 0 1.5 (inexact (expt 2 70))))
(define RAWSMALL (vector 0 1 1.0))
(define (popcount i) (let lp ((i i) (c 0)) (if (= i 0) c (lp (quotient i 2) (+ c (remainder i 2))))))
(define (fam-key f n i)
  (case f
    ((sorted) i)
    ((reversed) (- n 1 i))
    ((organ) (min i (- n 1 i)))
    ((constant) 0)
    ((saw) (modulo i 7))
    ((two) (modulo (popcount i) 2))
    ((mixed) (vector-ref M (modulo (+ (* i 5) (quotient i 8)) 8)))
    (else (error "family" f))))
(define (fam-keys f n)
  (let ((v (make-vector n 0)))
    (do ((i 0 (+ i 1))) ((= i n) v) (vector-set! v i (fam-key f n i)))))
;; exhaustive short sequences: digits of idx in base 3, most significant first
(define (small-keys len idx raw?)
  (let ((v (make-vector len 0)))
    (let lp ((i (- len 1)) (x idx))
      (if (< i 0) v
          (let ((d (remainder x 3)))
            (vector-set! v i (if raw? (vector-ref RAWSMALL d) d))
            (lp (- i 1) (quotient x 3)))))))
(define (tag-keys keys)          ; key vector -> vector of fresh (key . position) pairs
  (let* ((n (vector-length keys)) (v (make-vector n #f)))
    (do ((i 0 (+ i 1))) ((= i n) v) (vector-set! v i (cons (vector-ref keys i) i)))))

;; ---------------------------------------------------------------- independent checker
(define (class-of v)             ; order class of a key: small exact integers are their own class
  (cond ((exact-integer? v) (if (< v 100000) v 3))
        ((= v 0) 0) ((= v 1) 1) ((= v 3/2) 2) (else 3)))
(define (key-of x) (if (pair? x) (car x) x))
(define (cls x) (class-of (key-of x)))
(define (same? a b) (if (pair? a) (eq? a b) (eqv? a b)))
;; the unique stable order: counting sort by class (descending classes when desc?)
(define (expected-stable src desc?)
  (let* ((n (vector-length src)) (cv (make-vector n 0)))
    (let lp ((i 0) (m 0))
      (if (< i n)
          (let ((c (cls (vector-ref src i)))) (vector-set! cv i c) (lp (+ i 1) (if (> c m) c m)))
          (let* ((K (+ m 1)) (start (make-vector (+ K 1) 0)) (out (make-vector n #f)))
            (do ((i 0 (+ i 1))) ((= i n))
              (let ((c (vector-ref cv i))) (vector-set! start c (+ 1 (vector-ref start c)))))
            ;; counts -> start offsets
            (if desc?
                (let lp ((c (- K 1)) (acc 0))
                  (when (>= c 0)
                    (let ((k (vector-ref start c))) (vector-set! start c acc) (lp (- c 1) (+ acc k)))))
                (let lp ((c 0) (acc 0))
                  (when (< c K)
                    (let ((k (vector-ref start c))) (vector-set! start c acc) (lp (+ c 1) (+ acc k))))))
            (do ((i 0 (+ i 1))) ((= i n) out)
              (let* ((c (vector-ref cv i)) (p (vector-ref start c)))
                (vector-set! out p (vector-ref src i))
                (vector-set! start c (+ p 1)))))))))
(define (raw-id x)
  (if (and (exact-integer? x) (<= 0 x 99999)) x
      (let lp ((i 0)) (cond ((= i 8) (error "unknown raw value" x))
                            ((eqv? x (vector-ref M i)) (+ 100000 i))
                            (else (lp (+ i 1)))))))
(define (permutation? r src)     ; r, src vectors of equal length
  (let ((n (vector-length src)))
    (if (and (> n 0) (pair? (vector-ref src 0)))
        (let ((seen (make-vector n #f)))
          (let lp ((i 0))
            (or (= i n)
                (let ((x (vector-ref r i)))
                  (and (pair? x) (exact-integer? (cdr x)) (< -1 (cdr x) n)
                       (eq? x (vector-ref src (cdr x)))
                       (not (vector-ref seen (cdr x)))
                       (begin (vector-set! seen (cdr x) #t) (lp (+ i 1))))))))
        (let ((cnt (make-vector 100008 0)))
          (do ((i 0 (+ i 1))) ((= i n))
            (let ((a (raw-id (vector-ref src i))) (b (raw-id (vector-ref r i))))
              (vector-set! cnt a (+ (vector-ref cnt a) 1))
              (vector-set! cnt b (- (vector-ref cnt b) 1))))
          (let lp ((i 0)) (or (= i n) (and (= 0 (vector-ref cnt (raw-id (vector-ref src i)))) (lp (+ i 1)))))))))
(define (ordered? r desc?)
  (let ((n (vector-length r)))
    (let lp ((i 1))
      (or (>= i n)
          (and (if desc? (>= (cls (vector-ref r (- i 1))) (cls (vector-ref r i)))
                   (<= (cls (vector-ref r (- i 1))) (cls (vector-ref r i))))
               (lp (+ i 1)))))))
(define (->vec r) (cond ((vector? r) r) ((list? r) (list->vector r)) (else #f)))
;; verdict for a full sorted sequence
(define (verdict-sorted r0 src stable? desc?)
  (guard (e (#t 'garbage))
    (let ((r (->vec r0)) (n (vector-length src)))
      (cond ((not r) 'type)
            ((not (= (vector-length r) n)) 'len)
            (else
             (let* ((e (expected-stable src desc?))
                    (exact (let lp ((i 0)) (or (= i n) (and (same? (vector-ref r i) (vector-ref e i)) (lp (+ i 1)))))))
               (cond (exact 'ok)
                     ((not (permutation? r src)) 'perm)
                     ((not (ordered? r desc?)) 'order)
                     (stable? 'stab)
                     (else 'ok))))))))
(define (unchanged? x src)
  (let ((n (vector-length src)))
    (cond ((vector? x)
           (and (= (vector-length x) n)
                (let lp ((i 0)) (or (= i n) (and (same? (vector-ref x i) (vector-ref src i)) (lp (+ i 1)))))))
          (else
           (let lp ((i 0) (x x))
             (if (= i n) (null? x)
                 (and (pair? x) (same? (car x) (vector-ref src i)) (lp (+ i 1) (cdr x)))))))))
(define (subvec v s e) (let ((r (make-vector (- e s) #f))) (do ((i s (+ i 1))) ((= i e) r) (vector-set! r (- i s) (vector-ref v i)))))
(define (vappend a b)
  (let* ((na (vector-length a)) (nb (vector-length b)) (r (make-vector (+ na nb) #f)))
    (do ((i 0 (+ i 1))) ((= i na)) (vector-set! r i (vector-ref a i)))
    (do ((i 0 (+ i 1))) ((= i nb) r) (vector-set! r (+ na i) (vector-ref b i)))))
(define (vlist v) (let lp ((i (- (vector-length v) 1)) (acc '())) (if (< i 0) acc (lp (- i 1) (cons (vector-ref v i) acc)))))
;; neighbour-duplicate deletion, reference: keep an element iff it is first or its class differs from its predecessor's
(define (expected-dedup src)
  (let lp ((i (- (vector-length src) 1)) (acc '()))
    (cond ((< i 0) (list->vector acc))
          ((and (> i 0) (= (cls (vector-ref src i)) (cls (vector-ref src (- i 1))))) (lp (- i 1) acc))
          (else (lp (- i 1) (cons (vector-ref src i) acc))))))
(define (verdict-exact r0 e)
  (guard (ex (#t 'garbage))
    (let ((r (->vec r0)))
      (cond ((not r) 'type)
            ((not (= (vector-length r) (vector-length e))) 'len)
            ((let lp ((i 0)) (or (= i (vector-length e)) (and (same? (vector-ref r i) (vector-ref e i)) (lp (+ i 1))))) 'ok)
            (else 'diff)))))

;; ---------------------------------------------------------------- comparison procedures handed to the sorts
(define (clt a b) (< (car a) (car b)))
(define (cgt a b) (> (car a) (car b)))
(define (plain< a b) (< a b))
(define (ceq a b) (= (car a) (car b)))
(define (kmean a b) (list (key-of a) (key-of b)))

;; ---------------------------------------------------------------- output
(define (show-num k) (write-string (if (number? k) (number->string k) "?")))
(define (show-elt x)
  (cond ((pair? x) (show-num (car x)) (write-string "@") (show-num (cdr x)))
        ((number? x) (show-num x))
        (else (write-simple x))))
(define (show-seq tag s)
  (write-string tag)
  (cond ((vector? s) (write-string " #") (vector-for-each (lambda (x) (write-string " ") (show-elt x)) s))
        ((list? s) (write-string " L") (for-each (lambda (x) (write-string " ") (show-elt x)) s))
        (else (write-string " ? ") (write-simple s)))
  (newline))
(define print-max 0)
"""

# A variant is (name, kind, shape, body) where
#   kind  : "tag" (elements are (key . pos) pairs) or "raw" (elements are numbers)
#   shape : "seq" (one input), "merge" (two sorted inputs A, B with src = A ++ B)
#   body  : Scheme expression evaluated with `src` (vector of elements; for merge also `a` = |A|) bound; must return
#           (list result flag effective-src verdict-kind . extra) -- see `V` helpers below.
# verdict kinds: (sorted stable? desc?) | (dedup) | (value class-list) ...

def _seq(call, cont, stable=True, desc=False, inplace=None):
    """cont: 'list' or 'vector'.  call uses x.  inplace: None -> result is the returned value and x must be unchanged;
    'ret' -> destructive, result is the returned value; 'x' -> destructive, result is x itself afterwards."""
    mk = "(vlist src)" if cont == "list" else "(subvec src 0 (vector-length src))"
    if inplace is None:
        return ("(let* ((x %s) (r %s)) (list r (unchanged? x src) (verdict-sorted r src %s %s)))"
                % (mk, call, "#t" if stable else "#f", "#t" if desc else "#f"))
    if inplace == "ret":
        return ("(let* ((x %s) (r %s)) (list r #t (verdict-sorted r src %s %s)))"
                % (mk, call, "#t" if stable else "#f", "#t" if desc else "#f"))
    return ("(let* ((x %s)) %s (list x #t (verdict-sorted x src %s %s)))"
            % (mk, call, "#t" if stable else "#f", "#t" if desc else "#f"))


def _merge(call, cont, destructive=False):
    mk = (lambda e: "(vlist %s)" % e) if cont == "list" else (lambda e: e)
    un = "#t" if destructive else "(and (unchanged? x (subvec src 0 a)) (unchanged? y (subvec src a (vector-length src))))"
    return ("(let* ((x %s) (y %s) (r %s)) (list r %s (verdict-sorted r src #t #f)))"
            % (mk("(subvec src 0 a)"), mk("(subvec src a (vector-length src))"), call, un))


VARIANTS = []


def V(name, kind, shape, body, **kw):
    d = dict(name=name, kind=kind, shape=shape, body=body, check="sorted", stable=True, desc=False)
    d.update(kw)
    VARIANTS.append(d)


# ---- SRFI 95: (sort seq less? [key]) -- sequence first.  All four procedures are stable.
for cont in ("list", "vector"):
    V("95 sort %s closure" % cont, "tag", "seq", _seq("(sort x clt)", cont))
    V("95 sort %s < key" % cont, "tag", "seq", _seq("(sort x < car)", cont))
    V("95 sort %s closure key" % cont, "tag", "seq", _seq("(sort x plain< car)", cont))
    V("95 sort %s > closure" % cont, "tag", "seq", _seq("(sort x cgt)", cont, desc=True), desc=True)
    V("95 sort %s > key" % cont, "tag", "seq", _seq("(sort x > car)", cont, desc=True), desc=True)
    V("95 sort %s <" % cont, "raw", "seq", _seq("(sort x <)", cont))
    V("95 sort %s >" % cont, "raw", "seq", _seq("(sort x >)", cont, desc=True), desc=True)
    V("95 sort! %s closure" % cont, "tag", "seq", _seq("(sort! x clt)", cont, inplace="ret"))
    V("95 sort! %s < key" % cont, "tag", "seq", _seq("(sort! x < car)", cont, inplace="ret"))
    V("95 sort! %s <" % cont, "raw", "seq", _seq("(sort! x <)", cont, inplace="ret"))
V("95 sort! vector closure in-place", "tag", "seq", _seq("(sort! x clt)", "vector", inplace="x"))
V("95 merge closure", "tag", "merge", _merge("(merge x y clt)", "list"))
V("95 merge < key", "tag", "merge", _merge("(merge x y < car)", "list"))
V("95 merge <", "raw", "merge", _merge("(merge x y <)", "list"))
V("95 merge! closure", "tag", "merge", _merge("(merge! x y clt)", "list", True))
V("95 merge! < key", "tag", "merge", _merge("(merge! x y < car)", "list", True))
V("95 merge! <", "raw", "merge", _merge("(merge! x y <)", "list", True))

# ---- SRFI 132: (list-sort < lis) -- ordering first.  Only the *-stable-* sorts and the merges must be stable.
V("132 list-sort closure", "tag", "seq", _seq("(s:list-sort clt x)", "list", stable=False), stable=False)
V("132 list-sort <", "raw", "seq", _seq("(s:list-sort < x)", "list", stable=False), stable=False)
V("132 list-stable-sort closure", "tag", "seq", _seq("(s:list-stable-sort clt x)", "list"))
V("132 list-stable-sort <", "raw", "seq", _seq("(s:list-stable-sort < x)", "list"))
V("132 list-stable-sort >", "raw", "seq", _seq("(s:list-stable-sort > x)", "list", desc=True), desc=True)
V("132 vector-sort closure", "tag", "seq", _seq("(s:vector-sort clt x)", "vector", stable=False), stable=False)
V("132 vector-sort <", "raw", "seq", _seq("(s:vector-sort < x)", "vector", stable=False), stable=False)
V("132 vector-stable-sort closure", "tag", "seq", _seq("(s:vector-stable-sort clt x)", "vector"))
V("132 vector-stable-sort <", "raw", "seq", _seq("(s:vector-stable-sort < x)", "vector"))
V("132 vector-stable-sort >", "raw", "seq", _seq("(s:vector-stable-sort > x)", "vector", desc=True), desc=True)
V("132 vector-sort! closure", "tag", "seq", _seq("(s:vector-sort! clt x)", "vector", stable=False, inplace="x"), stable=False)
V("132 vector-sort! <", "raw", "seq", _seq("(s:vector-sort! < x)", "vector", stable=False, inplace="x"), stable=False)
V("132 vector-stable-sort! closure", "tag", "seq", _seq("(s:vector-stable-sort! clt x)", "vector", inplace="x"))
V("132 list-sort! closure", "tag", "seq", _seq("(s:list-sort! clt x)", "list", stable=False, inplace="ret"), stable=False)
V("132 list-stable-sort! closure", "tag", "seq", _seq("(s:list-stable-sort! clt x)", "list", inplace="ret"))
# sub-range forms: the effective source is src[s, e) with s = n/3, e = n - n/4
_RANGE = "(s (quotient (vector-length src) 3)) (e (- (vector-length src) (quotient (vector-length src) 4)))"
V("132 vector-sort closure range", "tag", "seq",
  "(let* (%s (x (subvec src 0 (vector-length src))) (r (s:vector-sort clt x s e)))"
  " (list r (unchanged? x src) (verdict-sorted r (subvec src s e) #f #f)))" % _RANGE, stable=False, range=True)
V("132 vector-stable-sort closure range", "tag", "seq",
  "(let* (%s (x (subvec src 0 (vector-length src))) (r (s:vector-stable-sort clt x s e)))"
  " (list r (unchanged? x src) (verdict-sorted r (subvec src s e) #t #f)))" % _RANGE, range=True)
V("132 vector-sort! closure range", "tag", "seq",
  "(let* (%s (x (subvec src 0 (vector-length src))))"
  " (s:vector-sort! clt x s e)"
  " (list (subvec x s e) (and (unchanged? (subvec x 0 s) (subvec src 0 s))"
  "                           (unchanged? (subvec x e (vector-length src)) (subvec src e (vector-length src))))"
  "       (verdict-sorted (subvec x s e) (subvec src s e) #f #f)))" % _RANGE, stable=False, range=True)
V("132 list-merge closure", "tag", "merge", _merge("(s:list-merge clt x y)", "list"))
V("132 list-merge <", "raw", "merge", _merge("(s:list-merge < x y)", "list"))
V("132 list-merge! closure", "tag", "merge", _merge("(s:list-merge! clt x y)", "list", True))
V("132 vector-merge closure", "tag", "merge", _merge("(s:vector-merge clt x y)", "vector"))
V("132 vector-merge <", "raw", "merge", _merge("(s:vector-merge < x y)", "vector"))
# neighbour duplicates (any input; "the first element of a run survives")
V("132 list-delete-neighbor-dups", "tag", "seq",
  "(let* ((x (vlist src)) (r (s:list-delete-neighbor-dups ceq x)))"
  " (list r (unchanged? x src) (verdict-exact r (expected-dedup src))))", check="dedup")
V("132 list-delete-neighbor-dups =", "raw", "seq",
  "(let* ((x (vlist src)) (r (s:list-delete-neighbor-dups = x)))"
  " (list r (unchanged? x src) (verdict-exact r (expected-dedup src))))", check="dedup")
V("132 list-delete-neighbor-dups!", "tag", "seq",
  "(let* ((x (vlist src)) (r (s:list-delete-neighbor-dups! ceq x)))"
  " (list r #t (verdict-exact r (expected-dedup src))))", check="dedup")
V("132 vector-delete-neighbor-dups", "tag", "seq",
  "(let* ((x (subvec src 0 (vector-length src))) (r (s:vector-delete-neighbor-dups ceq x)))"
  " (list r (unchanged? x src) (verdict-exact r (expected-dedup src))))", check="dedup")
V("132 vector-delete-neighbor-dups!", "tag", "seq",
  "(let* ((x (subvec src 0 (vector-length src))) (end (s:vector-delete-neighbor-dups! ceq x))"
  "       (ok (and (exact-integer? end) (<= 0 end (vector-length x)))))"
  " (list (if ok (subvec x 0 end) end) #t (if ok (verdict-exact (subvec x 0 end) (expected-dedup src)) 'type)))",
  check="dedup")
# median / selection: the result is compared by key class with the stable expected order
_MED = ("(let* ((n (vector-length src)) (es (expected-stable src #f))"
        "       (want (cond ((= n 0) 'knil) ((odd? n) (list (cls (vector-ref es (quotient n 2)))))"
        "                   (else (list (cls (vector-ref es (- (quotient n 2) 1))) (cls (vector-ref es (quotient n 2)))))))"
        "       (x (subvec src 0 n)) (r %s)"
        "       (got (guard (ex (#t 'garbage)) (cond ((eq? r 'knil) 'knil) ((odd? n) (list (cls r))) (else (map class-of r))))))"
        " (list (if (pair? got) (list->vector got) got) %s (if (equal? got want) 'ok 'diff)))")
V("132 vector-find-median closure", "tag", "seq", _MED % ("(s:vector-find-median clt x 'knil kmean)", "(unchanged? x src)"),
  check="median")
V("132 vector-find-median <", "raw", "seq", _MED % ("(s:vector-find-median < x 'knil kmean)", "(unchanged? x src)"),
  check="median")
V("132 vector-find-median! closure", "tag", "seq",
  _MED % ("(s:vector-find-median! clt x 'knil kmean)", "(eq? 'ok (verdict-sorted x src #f #f))"), check="median")
# default mean on raw numbers: arithmetic mean of the two middle elements
V("132 vector-find-median < default mean", "raw", "seq",
  "(let* ((n (vector-length src)) (es (expected-stable src #f)) (x (subvec src 0 n))"
  "       (want (cond ((= n 0) 'knil) ((odd? n) (vector-ref es (quotient n 2)))"
  "                   (else (/ (+ (vector-ref es (- (quotient n 2) 1)) (vector-ref es (quotient n 2))) 2))))"
  "       (r (s:vector-find-median < x 'knil)))"
  " (list (vector r) (unchanged? x src) (if (if (number? want) (and (number? r) (= r want)) (eq? r want)) 'ok 'diff)))",
  check="median-default")
for kname, kexpr in (("0", "0"), ("mid", "(quotient n 2)"), ("last", "(- n 1)")):
    V("132 vector-select! closure k=%s" % kname, "tag", "seq",
      "(let* ((n (vector-length src)) (es (expected-stable src #f)))"
      " (if (= n 0) (list 'skip #t 'ok)"
      "  (let* ((k %s) (x (subvec src 0 n)) (r (s:vector-select! clt x k))"
      "         (got (guard (ex (#t 'garbage)) (cls r))))"
      "   (list (vector got) (permutation? x src) (if (equal? got (cls (vector-ref es k))) 'ok 'diff)))))" % kexpr,
      check="select", k=kname)
V("132 vector-select! < k=mid", "raw", "seq",
  "(let* ((n (vector-length src)) (es (expected-stable src #f)))"
  " (if (= n 0) (list 'skip #t 'ok)"
  "  (let* ((k (quotient n 2)) (x (subvec src 0 n)) (r (s:vector-select! < x k))"
  "         (got (guard (ex (#t 'garbage)) (cls r))))"
  "   (list (vector got) (permutation? x src) (if (equal? got (cls (vector-ref es k))) 'ok 'diff)))))",
  check="select", k="mid")
V("132 vector-select! closure range", "tag", "seq",
  "(let* (%s (n (- e s)) (es (expected-stable (subvec src s e) #f)))"
  " (if (= n 0) (list 'skip #t 'ok)"
  "  (let* ((k (quotient n 2)) (x (subvec src 0 (vector-length src))) (r (s:vector-select! clt x k s e))"
  "         (got (guard (ex (#t 'garbage)) (cls r))))"
  "   (list (vector got) (and (permutation? x src)"
  "                           (unchanged? (subvec x 0 s) (subvec src 0 s))"
  "                           (unchanged? (subvec x e (vector-length src)) (subvec src e (vector-length src))))"
  "         (if (equal? got (cls (vector-ref es k))) 'ok 'diff)))))" % _RANGE, check="select", k="mid", range=True)
# k = length and the empty vector are not asserted: SRFI 132 does not say whether they are in the domain
# (chibi raises "vector-ref: index out of range" for both, see c18.NOTES.md)
for kname, kexpr in (("mid", "(quotient n 2)"), ("0", "0")):
  V("132 vector-separate! closure k=%s" % kname, "tag", "seq",
  "(let* ((n (vector-length src)) (es (expected-stable src #f)) (k %s) (x (subvec src 0 n)))" % kexpr +
  " (if (> n 0) (s:vector-separate! clt x k))"
  " (let ((lo (guard (ex (#t 'garbage)) (map cls (vlist (subvec x 0 k))))) (hi (guard (ex (#t 'garbage)) (map cls (vlist (subvec x k n))))))"
  "  (list x (permutation? x src)"
  "        (if (and (list? lo) (list? hi) (or (null? lo) (null? hi) (<= (apply max lo) (apply min hi)))) 'ok 'diff))))",
  check="separate", k=kname)


def variant_scheme(v):
    return "(lambda (src a) %s)" % v["body"]


# run-cases: Scheme code shared by all jobs.  A job binds `the-variant`, `raw?`, `merge?` and then calls
#   (run-small lo hi)        exhaustive short sequences, codes lo..hi-1 in the global numbering
#   (run-family 'f n0 n1)    every length n0..n1-1 of family f
RUNNER = r"""
(define (run-case src a)
  ;; one line per case: verdict flag ; when the case is small also the input and the result
  (let* ((n (vector-length src))
         (res (guard (e (#t (list 'exception #f 'exception)))
                (the-variant src a))))
    (write-simple (list-ref res 2)) (write-string " ") (write-simple (list-ref res 1))
    (newline)
    (when (<= n print-max)
      (show-seq "I" src)
      (show-seq "R" (car res)))))
(define (make-src keys) (if raw? keys (tag-keys keys)))
;; merge inputs from a key vector: A = stably sorted first half, B = stably sorted second half, positions re-tagged
(define (merge-src keys)
  (let* ((n (vector-length keys)) (h (quotient (+ n 1) 2))
         (A (expected-stable (subvec keys 0 h) #f)) (B (expected-stable (subvec keys h n) #f)))
    (make-src (vappend A B))))
(define (run-keys keys)
  (if merge?
      (run-case (merge-src keys) (quotient (+ (vector-length keys) 1) 2))
      (run-case (make-src keys) 0)))
(define (run-family f n0 n1)
  (do ((n n0 (+ n 1))) ((>= n n1))
    (run-keys (fam-keys f n))))
;; exhaustive: global code c enumerates (len, idx): lengths 0..8, idx < 3^len
(define (run-small lo hi)
  (let lp ((len 0) (base 0) (cnt 1))
    (when (<= len 8)
      (do ((idx (max 0 (- lo base)) (+ idx 1))) ((or (>= idx cnt) (>= (+ base idx) hi)))
        (run-keys (small-keys len idx raw?)))
      (lp (+ len 1) (+ base cnt) (* cnt 3)))))
;; exhaustive merges: every pair of sorted sequences over 3 keys with |A|+|B| <= 8, given by count vectors
(define (counts->keys c0 c1 c2)
  (let ((v (make-vector (+ c0 c1 c2) 0)))
    (do ((i 0 (+ i 1))) ((= i (+ c0 c1 c2)) v)
      (vector-set! v i (let ((d (cond ((< i c0) 0) ((< i (+ c0 c1)) 1) (else 2))))
                         (if raw? (vector-ref RAWSMALL d) d))))))
(define (run-small-merges)
  (do ((a0 0 (+ a0 1))) ((> a0 8))
   (do ((a1 0 (+ a1 1))) ((> (+ a0 a1) 8))
    (do ((a2 0 (+ a2 1))) ((> (+ a0 a1 a2) 8))
     (do ((b0 0 (+ b0 1))) ((> (+ a0 a1 a2 b0) 8))
      (do ((b1 0 (+ b1 1))) ((> (+ a0 a1 a2 b0 b1) 8))
       (do ((b2 0 (+ b2 1))) ((> (+ a0 a1 a2 b0 b1 b2) 8))
         (run-case (make-src (vappend (counts->keys a0 a1 a2) (counts->keys b0 b1 b2))) (+ a0 a1 a2)))))))))
"""

SMALL_TOTAL = sum(3 ** l for l in range(9))     # 9841


def small_keys(code):
    """(len, digits) of global code"""
    base = 0
    for l in range(9):
        if code < base + 3 ** l:
            idx = code - base
            ds = []
            for _ in range(l):
                ds.append(idx % 3)
                idx //= 3
            return ds[::-1]
        base += 3 ** l
    raise ValueError(code)


def small_merge_pairs():
    out = []
    for a0 in range(9):
        for a1 in range(9 - a0):
            for a2 in range(9 - a0 - a1):
                for b0 in range(9 - a0 - a1 - a2):
                    for b1 in range(9 - a0 - a1 - a2 - b0):
                        for b2 in range(9 - a0 - a1 - a2 - b0 - b1):
                            out.append(([0] * a0 + [1] * a1 + [2] * a2, [0] * b0 + [1] * b1 + [2] * b2))
    return out


# ------------------------------------------------------------------ Python re-check of printed cases
def parse_num(tok):
    """-> (Fraction value, canonical token) ; canonical token distinguishes exact from inexact"""
    if "/" in tok:
        return Fraction(tok), tok
    if "." in tok or "e" in tok or "E" in tok:
        f = float(tok)
        return (Fraction(0) if f == 0 else Fraction(f)), tok
    return Fraction(int(tok)), tok


def parse_seq(line, kind):
    """'I # 1@0 2@1' -> ('#', [elements]) ; an element is (Fraction value, identity token)"""
    parts = line.split()
    cont = parts[1]
    elts = []
    for t in parts[2:]:
        if kind == "tag":
            k, _, p = t.rpartition("@")
            elts.append((parse_num(k)[0], t))
        else:
            elts.append((parse_num(t)[0], t))
    return cont, elts
