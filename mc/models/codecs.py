"""Reference side of the codec checks (C19): format legality predicates, JSON value spaces, a parser for the
canonical value dump printed by the Scheme drivers, mini-float tables.  Deliberately boring and independent of
the implementation: base64 / quopri / urllib / json / struct from CPython do the real work."""
import base64, binascii, json, math, quopri, re, struct, urllib.parse
from fractions import Fraction

# ------------------------------------------------------------------ quoted-printable (RFC 2045 section 6.7)

_HEXUP = b"0123456789ABCDEF"


def qp_illegal(enc, maxcol=76):
    """None if enc is legal quoted-printable body text, else a short reason.
    Rules: (1) =XX with upper-case hex; (2) literal 33..60, 62..126; (3) TAB/SPACE literal but not at the end of
    an encoded line; (4) line breaks are CRLF only; (5) lines are at most 76 characters, soft breaks are '=' CRLF."""
    lines = enc.split(b"\r\n")
    for li, ln in enumerate(lines):
        n = len(ln)
        if n > maxcol:
            return "line of %d characters (limit %d)" % (n, maxcol)
        i = 0
        while i < n:
            c = ln[i]
            if c == 61:
                if i == n - 1:
                    if li == len(lines) - 1:
                        return "'=' at the very end of the text"
                    i += 1
                elif i + 2 <= n - 1 and ln[i + 1] in _HEXUP and ln[i + 2] in _HEXUP:
                    i += 3
                else:
                    return "'=' not followed by two upper-case hex digits at column %d" % i
            elif c in (9, 32):
                if i == n - 1:
                    return "white space at end of line"
                i += 1
            elif c in (10, 13):
                return "bare CR or LF"
            elif 33 <= c <= 126:
                i += 1
            else:
                return "raw byte %d" % c
    return None


def qp_decode_ref(enc):
    """Independent decoder (CPython quopri)."""
    return quopri.decodestring(enc)


# ------------------------------------------------------------------ URI escaping (RFC 3986 section 2)

_URI_OK = re.compile(r"^(?:[A-Za-z0-9\-._~!*'()]|%[0-9A-Fa-f]{2})*$")
_URI_OK_PLUS = re.compile(r"^(?:[A-Za-z0-9\-._~!*'()+]|%[0-9A-Fa-f]{2})*$")


def uri_illegal(enc, plus=False):
    if (_URI_OK_PLUS if plus else _URI_OK).match(enc):
        return None
    m = re.search(r"%(?![0-9A-Fa-f]{2})", enc)
    if m:
        return "'%%' not followed by two hex digits at %d" % m.start()
    for ch in enc:
        if not (_URI_OK_PLUS if plus else _URI_OK).match(ch) and ch != "%":
            return "raw character U+%04X" % ord(ch)
    return "malformed"


def uri_decode_ref(enc, plus=False):
    """percent-decoding, one escape = one character (Latin-1 view, which is what the library's API offers)"""
    f = urllib.parse.unquote_plus if plus else urllib.parse.unquote
    return f(enc, encoding="latin-1")


# ------------------------------------------------------------------ Scheme literals

def sstr(s):
    """Python str -> Scheme string literal, pure ASCII"""
    out = ['"']
    for ch in s:
        o = ord(ch)
        if ch in '"\\':
            out.append("\\" + ch)
        elif 32 <= o < 127:
            out.append(ch)
        else:
            out.append("\\x%x;" % o)
    out.append('"')
    return "".join(out)


def sbytes(b):
    return "#u8(" + " ".join(str(x) for x in b) + ")"


def sjson(v):
    """JSON value -> quoted Scheme datum in the library's mapping, except that object keys are strings
    (the driver converts them with string->symbol)."""
    if v is None:
        return "null"
    if v is True:
        return "#t"
    if v is False:
        return "#f"
    if isinstance(v, int):
        return str(v)
    if isinstance(v, float):
        return repr(v)
    if isinstance(v, str):
        return sstr(v)
    if isinstance(v, list):
        return "#(" + " ".join(sjson(x) for x in v) + ")"
    if isinstance(v, dict):
        return "(" + " ".join("(%s . %s)" % (sstr(k), sjson(x)) for k, x in v.items()) + ")"
    raise TypeError(v)


# ------------------------------------------------------------------ canonical dump printed by the drivers

class Weird:
    """something that is not a JSON value in the library's mapping"""

    def __init__(self, what):
        self.what = what

    def __repr__(self):
        return "Weird(%r)" % (self.what,)

    def __eq__(self, o):
        return False


def _unhex_str(h):
    b = binascii.unhexlify(h)
    try:
        return b.decode("utf-8", "surrogatepass")
    except UnicodeDecodeError:
        return Weird(("bad-utf8", h))


def parse_num(t):
    if t in ("+inf.0", "-inf.0"):
        return float(t[:4])
    if t in ("+nan.0", "-nan.0"):
        return float("nan")
    if re.match(r"^-?\d+$", t):
        return int(t)
    try:
        return float(t)
    except ValueError:
        if "/" in t:
            return Fraction(t)
        return Weird(("num", t))


def parse_canon(s):
    """N T F  #<number>;  S<hex>;  [v v ...]  {K<hex>;v ...}  ?<anything>;  -> python value.
    Objects come back as dicts when keys are distinct, else as Weird."""
    pos = [0]

    def val():
        c = s[pos[0]]
        pos[0] += 1
        if c == "N":
            return None
        if c == "T":
            return True
        if c == "F":
            return False
        if c == "#":
            j = s.index(";", pos[0])
            t = s[pos[0]:j]
            pos[0] = j + 1
            return parse_num(t)
        if c == "S":
            j = s.index(";", pos[0])
            t = s[pos[0]:j]
            pos[0] = j + 1
            return _unhex_str(t)
        if c == "[":
            out = []
            while s[pos[0]] != "]":
                out.append(val())
            pos[0] += 1
            return out
        if c == "{":
            items = []
            while s[pos[0]] != "}":
                if s[pos[0]] != "K":
                    return Weird(("object-entry", s[pos[0]:pos[0] + 20]))
                j = s.index(";", pos[0])
                k = _unhex_str(s[pos[0] + 1:j])
                pos[0] = j + 1
                items.append((k, val()))
            pos[0] += 1
            keys = [k for k, _ in items]
            if any(isinstance(k, Weird) for k in keys) or len(set(keys)) != len(keys):
                return Weird(("dup-or-bad-keys", repr(items)[:80]))
            return dict(items)
        j = s.find(";", pos[0])
        j = len(s) if j < 0 else j
        t = s[pos[0] - 1:j]
        pos[0] = j + 1
        return Weird(t)

    try:
        v = val()
    except (IndexError, ValueError):
        return Weird(("unparsable", s[:80]))
    if pos[0] != len(s):
        return Weird(("trailing", s[:80]))
    return v


def num_eq(a, b, tol=0.0):
    fa = float(a) if not isinstance(a, float) and abs(a) < 10 ** 300 else a
    fb = float(b) if not isinstance(b, float) and abs(b) < 10 ** 300 else b
    for x, y in ((a, b), (b, a)):
        if isinstance(x, float) and not math.isfinite(x):
            if math.isnan(x):
                return isinstance(y, float) and math.isnan(y)
            return isinstance(y, float) and x == y
    if Fraction(a) == Fraction(b):
        return True
    if tol and isinstance(fa, float) and isinstance(fb, float):
        return abs(fa - fb) <= tol * max(abs(fa), abs(fb))
    return False


def jeq(a, b, tol=0.0):
    """structural equality of JSON values; numbers compare by value (exactness is not part of JSON), with an
    optional relative tolerance for decimal->binary conversion"""
    if isinstance(a, Weird) or isinstance(b, Weird):
        return False
    if isinstance(a, bool) or isinstance(b, bool) or a is None or b is None:
        return a is b
    if isinstance(a, (int, float, Fraction)) and isinstance(b, (int, float, Fraction)):
        return num_eq(a, b, tol)
    if isinstance(a, str) and isinstance(b, str):
        return a == b
    if isinstance(a, list) and isinstance(b, list):
        return len(a) == len(b) and all(jeq(x, y, tol) for x, y in zip(a, b))
    if isinstance(a, dict) and isinstance(b, dict):
        return list(a.keys()) == list(b.keys()) and all(jeq(a[k], b[k], tol) for k in a)
    return False


def has_surrogate(v):
    if isinstance(v, str):
        return any(0xD800 <= ord(c) <= 0xDFFF for c in v)
    if isinstance(v, list):
        return any(has_surrogate(x) for x in v)
    if isinstance(v, dict):
        return any(has_surrogate(k) or has_surrogate(x) for k, x in v.items())
    return False


class DupKeys(Exception):
    pass


def _no_dups(pairs):
    d = {}
    for k, v in pairs:
        if k in d:
            raise DupKeys(k)
        d[k] = v
    return d


def _no_const(name):
    raise ValueError("NaN/Infinity are not JSON")


def json_ref(text):
    """-> ('ok', value) when text is a JSON text per RFC 8259 whose meaning the RFC fixes,
          ('open', why)  when it is grammatical but the RFC calls the behaviour unpredictable,
          ('bad', why)   when it is not a JSON text."""
    try:
        v = json.loads(text, strict=True, parse_constant=_no_const, object_pairs_hook=_no_dups)
    except DupKeys:
        return "open", "duplicate member names"
    except RecursionError:
        return "open", "nesting"
    except ValueError as e:
        return "bad", str(e)[:60]
    if has_surrogate(v):
        return "open", "unpaired surrogate"
    return "ok", v


# ------------------------------------------------------------------ JSON value spaces

SCALARS = [None, True, False, 0, -1, 1.5, 1 / 3, 2 ** 70, "", 'a"b', "\\\n", "é", "\U0001F600", "\b\f\r\t", "\x01\x7f/"]
ATOMS = SCALARS + [[], {}]
KEYS = ["a", "", 'k"\\\né']
KEYPAIRS = [("a", ""), ("a", KEYS[2]), (KEYS[2], "a")]

R_ATOMS = [None, -1, 'a"b', "\\\n", "\U0001F600", [], {}]
R_KEYS = ["a", KEYS[2]]
R_KEYPAIRS = [("a", KEYS[2]), (KEYS[2], "a")]


def containers(base, keys, keypairs):
    """every array and object of width 1..2 over base"""
    out = []
    for x in base:
        out.append([x])
    for x in base:
        for y in base:
            out.append([x, y])
    for k in keys:
        for x in base:
            out.append({k: x})
    for k1, k2 in keypairs:
        for x in base:
            for y in base:
                out.append({k1: x, k2: y})
    return out


def level2(reduced=False):
    if reduced:
        return R_ATOMS + containers(R_ATOMS, R_KEYS, R_KEYPAIRS)
    return ATOMS + containers(ATOMS, KEYS, KEYPAIRS)


# level-3 values are addressed by (shape, i, j) over the level-2 list so that the Scheme driver and this model
# build the same value from the same index without shipping millions of literals:
#   shape 0: [V[i]]   1: [V[i], V[j]]   2: {"a": V[i]}   3: {"a": V[i], K3: V[j]}
def level3_value(V, shape, i, j):
    if shape == 0:
        return [V[i]]
    if shape == 1:
        return [V[i], V[j]]
    if shape == 2:
        return {"a": V[i]}
    return {"a": V[i], KEYS[2]: V[j]}


def depth(v):
    if isinstance(v, list):
        return 1 + max([depth(x) for x in v], default=0)
    if isinstance(v, dict):
        return 1 + max([depth(x) for x in v.values()], default=0)
    return 0


# ------------------------------------------------------------------ mini floats (1.5.2 and IEEE binary16)

def half_value(code):
    return struct.unpack("<e", struct.pack("<H", code))[0]


def quarter_value(code):
    return struct.unpack(">e", bytes([code, 0]))[0]


def dyadic(x):
    """finite float -> exact Scheme rational literal"""
    fr = Fraction(x)
    return "%d/%d" % (fr.numerator, fr.denominator) if fr.denominator != 1 else "%d" % fr.numerator
